"""BOUNDED stand-in for C18: CREATE TYPE (AS ENUM / AS OBJECT / AS TABLE), CREATE DOMAIN, CREATE SCHEMA (IF NOT EXISTS,
AUTHORIZATION, COMMENT), CREATE DATABASE and CREATE [BIGFILE | SMALLFILE] [TEMPORARY] TABLESPACE each yield exactly one entity
of the corresponding kind with the declared content; tables that use such a type report the type name verbatim.

Every statement is rendered from an abstract description (kind, name form, option subset, value list, keyword case, layout)
and the expected entity is computed by the generator, never read back from the library.

Input classes on which the unchanged tree violates the statement carry their own witness class (decided from the INPUT only):
  c18:domain-base-type-without-size                       CREATE DOMAIN d AS int;           (no parenthesised size)
  c18:type-object-keyword-not-upper                       create type t as object (...)     (OBJECT not written upper case)
  c18:schema-if-not-exists-authorization-keyword-not-lower  CREATE SCHEMA IF NOT EXISTS s AUTHORIZATION u
  c18:schema-authorization-keyword-not-upper              create schema s authorization u   (no IF NOT EXISTS)
  c18:schema-if-not-exists-authorization-without-name     CREATE SCHEMA IF NOT EXISTS AUTHORIZATION u
  c18:column-type-name-contains-upper-ARRAY               CREATE TABLE t (c s.PHONE_ARRAY)  (a column typed with a user type whose name contains ARRAY)
Statements of these classes are evaluated alone and between two clean neighbours only; they never enter the mixed scripts.
"""
import itertools

from bounded.common import MODES, entities, parse

# ------------------------------------------------------------------ vocabulary
PLAIN = ["mood", "Order_Items", "x", "a1b2", "_u", "t$1", "MOOD", "m-n", "customerId", "phone_array", "collateral_type", "Checksum_t", "references_t"]   # the last three: names that BEGIN with a keyword
# user type names containing the upper-case word ARRAY (Oracle varray style): only used by the dedicated set (6b)
ARRAY_NAMES = ["PHONE_ARRAY", "ARRAY_T", "T_ARRAY_OF_INT"]
QUOTED = ['"Mood"', '"my type"', '"a.b"', "[mood]", "`mood`", '"joe\'s"']     # the last one: an apostrophe inside a delimited name is part of the name
# words of the keyword table that is active right after CREATE (tokens.definition_statements) and the words of the
# statements themselves; `if` is left out (keyword-shaped name defect that belongs to C06), `authorization` too
KEYWORDS = ["type", "table", "schema", "domain", "database", "tablespace", "sequence", "drop", "create", "alter", "replace", "or",
            "clustered", "TYPE", "TABLE", "SCHEMA", "DOMAIN", "DATABASE", "TABLESPACE", "enum", "object", "comment", "temporary",
            "bigfile", "smallfile", "as", "not", "exists", "index", "key", "default", "user", "datafile", "size", "ENUM", "COMMENT"]
# keyword-shaped names that may be the FIRST word of a column type (the others are column-option words there: C06/C09)
KW_UNQUALIFIED_COLTYPE = {"type", "table", "schema", "domain", "database", "tablespace", "sequence", "drop", "create", "alter", "replace",
                          "or", "clustered", "temporary", "bigfile", "smallfile", "object", "user", "datafile", "size"}
ENUM_VALUES = ["sad", "ok", "happy", "x y", "A B", "1", "x-y", "a.b", "NULL", "type", "table", "enum", "as", "", "it''s", "v_7", "create", "Z"]
COMMENTS = ["x", "x y", "all sales data", "create table", "", "Q4-2020 v.2", "it''s"]
ATTR_TYPES = [("varchar(30)", "varchar", 30), ("int", "int", None), ("CHAR(2)", "CHAR", 2), ("NUMBER(5)", "NUMBER", 5), ("decimal(10,2)", "decimal", (10, 2)),
              ("date", "date", None), ("VARCHAR2(20)", "VARCHAR2", 20), ("bigint", "bigint", None), ("numeric(12,4)", "numeric", (12, 4)), ("text", "text", None)]
# attribute / column names are never keyword-shaped here (keyword-shaped column names are C06's subject)
ATTR_NAMES = ["street", "city", "zip", "state", "hashKY", "numContratoGF", "a", "b1", "val", "value", "created_at", "x"]
DOMAIN_SIZED = [("CHAR(10)", "CHAR"), ("varchar(5)", "varchar"), ("VARCHAR(255)", "VARCHAR"), ("decimal(10,2)", "decimal"), ("numeric(5)", "numeric"), ("char(1)", "char")]
DOMAIN_UNSIZED = [("int", "int"), ("text", "text"), ("date", "date"), ("BIGINT", "BIGINT")]
USERS = ["joe", "user", "Admin_1", '"Joe"', "[joe]", "dbo"]
TS_PROPS = [("DATAFILE", "'tbs_01.dat'"), ("SIZE", "10M"), ("AUTOEXTEND", "ON")]
STYLES = ["upper", "lower", "title"]

MARKERS = ["table_name", "type_name", "domain_name", "schema_name", "database_name", "tablespace_name", "sequence_name"]
BUCKETS = {"table_name": "tables", "type_name": "types", "domain_name": "domains", "schema_name": "schemas", "database_name": "databases",
           "tablespace_name": "tablespaces", "sequence_name": "sequences"}


def _kw(word, style):
    if style == "lower":
        return word.lower()
    if style == "title":
        return " ".join(w.title() for w in word.split(" "))
    return word


def _lst(items, layout):
    """parenthesised list in one of three layouts"""
    if layout == 0:
        return "(" + ", ".join(items) + ")"
    if layout == 1:
        return "(\n    " + ",\n    ".join(items) + "\n)"
    return "\n(\n    " + "\n  , ".join(items) + "\n)"


def _join(clauses, layout):
    return (" " if layout == 0 else "\n  ").join(c for c in clauses if c)


def _full(schema, name):
    return "%s.%s" % (schema, name) if schema else name


# ------------------------------------------------------------------ statement builders: abstract description -> (ddl, expected)
def st_type_enum(schema, name, values, style="upper", layout=0, or_replace=False):
    head = _kw("CREATE OR REPLACE TYPE" if or_replace else "CREATE TYPE", style)
    lits = ["'%s'" % v for v in values]
    ddl = _join(["%s %s %s" % (head, _full(schema, name), _kw("AS", style)), _kw("ENUM", style) + " " + _lst(lits, layout).lstrip(" ")], layout) + ";"
    exp = dict(schema=schema, type_name=name, base_type="ENUM", properties={"values": lits})
    return dict(kind="type-enum", marker="type_name", name=name, ddl=ddl, exp=exp, defect=None)


def st_type_object(schema, name, attrs, style="upper", layout=0, or_replace=False):
    """attrs: list of (attr name, (type text, type word, size))"""
    head = _kw("CREATE OR REPLACE TYPE" if or_replace else "CREATE TYPE", style)
    items = ["%s %s" % (n, t[0]) for n, t in attrs]
    ddl = "%s %s %s %s%s;" % (head, _full(schema, name), _kw("AS", style), _kw("OBJECT", style), (" " + _lst(items, layout)) if layout != 2 else _lst(items, layout))
    exp = dict(schema=schema, type_name=name, base_type="OBJECT", properties={"attributes": [dict(name=n, type=t[1], size=t[2]) for n, t in attrs]})
    defect = None if style == "upper" else "c18:type-object-keyword-not-upper"
    return dict(kind="type-object", marker="type_name", name=name, ddl=ddl, exp=exp, defect=defect)


def st_type_table(schema, name, cols, style="upper", layout=0, or_replace=False):
    """cols: list of (col name, (type text, type word, size), not_null)"""
    head = _kw("CREATE OR REPLACE TYPE" if or_replace else "CREATE TYPE", style)
    items = ["%s %s%s" % (n, t[0], (" " + _kw("NOT NULL", style)) if nn else "") for n, t, nn in cols]
    ddl = "%s %s %s %s%s;" % (head, _full(schema, name), _kw("AS", style), _kw("TABLE", style), (" " + _lst(items, layout)) if layout != 2 else _lst(items, layout))
    exp = dict(schema=schema, type_name=name, base_type=None, properties={"columns": [dict(name=n, type=t[1], size=t[2], nullable=not nn) for n, t, nn in cols]})
    return dict(kind="type-table", marker="type_name", name=name, ddl=ddl, exp=exp, defect=None)


def st_domain(schema, name, base, values=None, style="upper", layout=0):
    """base: (type text, type word) or 'ENUM' with values"""
    head = "%s %s %s" % (_kw("CREATE DOMAIN", style), _full(schema, name), _kw("AS", style))
    if base == "ENUM":
        lits = ["'%s'" % v for v in values]
        ddl = _join([head, "ENUM " + _lst(lits, layout).lstrip(" ")], layout) + ";"
        exp = dict(schema=schema, domain_name=name, base_type="ENUM", properties={"values": lits})
        defect = None
    else:
        ddl = _join([head, base[0]], layout) + ";"
        exp = dict(schema=schema, domain_name=name, base_type=base[1], properties={})
        defect = None if "(" in base[0] else "c18:domain-base-type-without-size"
    return dict(kind="domain", marker="domain_name", name=name, ddl=ddl, exp=exp, defect=defect)


def st_schema(name, ine=False, user=None, comment=None, comment_eq=0, style="upper", layout=0):
    """name None: CREATE SCHEMA AUTHORIZATION user (the schema is named after the user). comment_eq: 0 `COMMENT 's'`, 1 `COMMENT = 's'`, 2 `COMMENT='s'`"""
    assert name is not None or user is not None
    clauses = [_kw("CREATE SCHEMA", style) + ((" " + _kw("IF NOT EXISTS", style)) if ine else "") + ((" " + name) if name is not None else "")]
    exp = {"schema_name": name if name is not None else user}
    if ine:
        exp["if_not_exists"] = True
    if user is not None:
        clauses.append("%s %s" % (_kw("AUTHORIZATION", style), user))
        exp["authorization"] = user
    if comment is not None:
        clauses.append(_kw("COMMENT", style) + [" ", " = ", "="][comment_eq] + "'%s'" % comment)
        exp["comment"] = "'%s'" % comment
    defect = None
    if user is not None:
        if ine and name is None:
            defect = "c18:schema-if-not-exists-authorization-without-name"
        elif ine and style != "lower":
            defect = "c18:schema-if-not-exists-authorization-keyword-not-lower"
        elif not ine and style != "upper":
            defect = "c18:schema-authorization-keyword-not-upper"
    return dict(kind="schema", marker="schema_name", name=exp["schema_name"], ddl=_join(clauses, layout) + ";", exp=exp, defect=defect)


def st_database(name, style="upper", layout=0):
    ddl = _join([_kw("CREATE DATABASE", style), name], layout) + ";"
    return dict(kind="database", marker="database_name", name=name, ddl=ddl, exp={"database_name": name}, defect=None)


def st_tablespace(name, kind=None, temporary=False, props=(), style="upper", layout=0):
    words = [_kw("CREATE", style)] + ([_kw(kind, style)] if kind else []) + ([_kw("TEMPORARY", style)] if temporary else []) + [_kw("TABLESPACE", style), name]
    clauses = [" ".join(words)] + ["%s %s" % (_kw(k, style), v) for k, v in props]
    exp = dict(tablespace_name=name, type=kind, temporary=temporary, properties=({k: v for k, v in props} or None))
    return dict(kind="tablespace", marker="tablespace_name", name=name, ddl=_join(clauses, layout) + ";", exp=exp, defect=None)


def st_table(schema, name, cols, style="upper", layout=0):
    """cols: list of (col name, type text verbatim, size, not_null)"""
    items = ["%s %s%s" % (n, t, (" " + _kw("NOT NULL", style)) if nn else "") for n, t, s, nn in cols]
    ddl = "%s %s%s;" % (_kw("CREATE TABLE", style), _full(schema, name), (" " + _lst(items, layout)) if layout != 2 else _lst(items, layout))
    exp = dict(schema=schema, table_name=name, columns=[dict(name=n, type=(t[:t.index("(")] if s is not None else t), size=s, nullable=not nn) for n, t, s, nn in cols])
    defect = "c18:column-type-name-contains-upper-ARRAY" if any("ARRAY" in t for _, t, _, _ in cols) else None
    return dict(kind="table", marker="table_name", name=name, ddl=ddl, exp=exp, defect=defect)


# ------------------------------------------------------------------ comparison (oracle side)
def _sz(x):
    return tuple(x) if isinstance(x, (list, tuple)) else x


def _ci(a, b):
    """case-insensitive equality of keyword-valued fields (ENUM / OBJECT / BIGFILE / base type words), None only equals None"""
    if a is None or b is None:
        return a is None and b is None
    return isinstance(a, str) and isinstance(b, str) and a.upper() == b.upper()


def _schema_of(e, mode):
    """-> (schema value, stray keys): bigquery output calls the schema `dataset`"""
    if "schema" in e:
        return e["schema"], set()
    if mode == "bigquery" and "dataset" in e:
        return e["dataset"], {"dataset"}
    return ("<key missing>",), set()


def _cols_view(cols, keys):
    out = []
    for c in cols if isinstance(cols, list) else []:
        if not isinstance(c, dict):
            out.append(c)
            continue
        v = {k: c.get(k, "<key missing>") for k in keys}
        v["size"] = _sz(v.get("size"))
        out.append(v)
    return out


def compare(st, got, mode):
    """-> None | (field slug, observed, expected)"""
    exp, kind = st["exp"], st["kind"]
    if not isinstance(got, dict) or st["marker"] not in got:
        return ("kind", got, exp)
    if got[st["marker"]] != exp[st["marker"]]:
        return ("name", got[st["marker"]], exp[st["marker"]])
    if kind in ("type-enum", "type-object", "type-table", "domain", "table"):
        sch, alias = _schema_of(got, mode)
        if sch != exp["schema"]:
            return ("schema", sch, exp["schema"])
    if kind == "table":
        cv = _cols_view(got.get("columns"), ("name", "type", "size", "nullable"))
        ev = _cols_view(exp["columns"], ("name", "type", "size", "nullable"))
        if cv != ev:
            if [c.get("type") if isinstance(c, dict) else c for c in cv] != [c["type"] for c in ev] and len(cv) == len(ev):
                return ("column-type", cv, ev)
            return ("columns", cv, ev)
        return None
    if kind in ("type-enum", "type-object", "type-table", "domain"):
        allowed = {"schema", st["marker"], "base_type", "properties"} | alias
        if set(got) - allowed or not {"base_type", "properties"} <= set(got):
            return ("keys", sorted(got), sorted(allowed))
        props = got["properties"]
        if not isinstance(props, dict):
            return ("properties", props, exp["properties"])
        if kind == "type-table":
            if not (got["base_type"] is None or _ci(got["base_type"], "TABLE")):
                return ("base-type", got["base_type"], None)
            if set(props) != {"columns"}:
                return ("properties", props, exp["properties"])
            cv = _cols_view(props["columns"], ("name", "type", "size", "nullable"))
            ev = _cols_view(exp["properties"]["columns"], ("name", "type", "size", "nullable"))
            return None if cv == ev else ("columns", cv, ev)
        if not _ci(got["base_type"], exp["base_type"]):
            return ("base-type", got["base_type"], exp["base_type"])
        if kind == "type-object":
            if set(props) != {"attributes"}:
                return ("attributes", props, exp["properties"])
            cv = _cols_view(props["attributes"], ("name", "type", "size"))
            ev = _cols_view(exp["properties"]["attributes"], ("name", "type", "size"))
            return None if cv == ev else ("attributes", cv, ev)
        if kind == "type-enum" or exp["base_type"] == "ENUM":
            if props != exp["properties"]:
                return ("values", props, exp["properties"])
            return None
        if props != {}:
            return ("properties", props, {})
        return None
    if kind == "tablespace":
        if set(got) != {"tablespace_name", "type", "temporary", "properties"}:
            return ("keys", sorted(got), sorted(exp))
        if not _ci(got["type"], exp["type"]):
            return ("kind", got["type"], exp["type"])
        if got["temporary"] is not exp["temporary"]:
            return ("temporary", got["temporary"], exp["temporary"])
        gp = got["properties"]
        if exp["properties"] is None:
            if gp:
                return ("properties", gp, None)
        elif not isinstance(gp, dict) or {str(k).upper(): v for k, v in gp.items()} != exp["properties"]:
            return ("properties", gp, exp["properties"])
        return None
    # schema, database: the exact dict
    if got != exp:
        for k in ("if_not_exists", "authorization", "comment"):
            if got.get(k) != exp.get(k):
                return (k.replace("_", "-"), got, exp)
        return ("keys", got, exp)
    return None


def _marker(e):
    for m in MARKERS:
        if isinstance(e, dict) and m in e:
            return m
    return None


def run_script(ck, set_name, key, stmts, sep="\n", mode="sql", grouped=False):
    """parse the script, compare every entity to the generator's expectation, report"""
    ddl = sep.join(s["ddl"] for s in stmts)
    defect = next((s["defect"] for s in stmts if s["defect"]), None)
    run_kw = {}
    if mode != "sql":
        run_kw["output_mode"] = mode
    if grouped:
        run_kw["group_by_type"] = True
    info = dict(ddl=ddl)
    if run_kw:
        info["run"] = run_kw

    def fail(slug, **more):
        ck.fail(set_name, key, defect or ("c18:" + slug), dict(info, **more))

    r = parse(ddl, **run_kw)
    if r[0] != "ok":
        return fail("exception", observed=list(r), expected=[s["exp"] for s in stmts])
    if grouped:
        g = r[1]
        if not isinstance(g, dict):
            return fail("grouped-not-a-dict", observed=g)
        # rebuild the per-statement view: k-th expected entity of a kind <-> k-th item of its bucket
        used, obs = {}, []
        for s in stmts:
            b = BUCKETS[s["marker"]]
            i = used.get(b, 0)
            used[b] = i + 1
            lst = g.get(b, [])
            obs.append(lst[i] if i < len(lst) else None)
        for b in sorted(set(BUCKETS.values())):
            if len(g.get(b, [])) != used.get(b, 0):
                missing = next((s for s, o in zip(stmts, obs) if o is None and BUCKETS[s["marker"]] == b), None)
                if missing:
                    return fail("%s-entity-missing" % missing["kind"], observed=g, expected=[s["exp"] for s in stmts])
                return fail("unexpected-%s-entity" % b.rstrip("s"), observed=g.get(b), expected=[s["exp"] for s in stmts if BUCKETS[s["marker"]] == b])
        if g.get("ddl_properties"):
            return fail("unexpected-ddl-property", observed=g.get("ddl_properties"))
    else:
        obs, _ = entities(r[1])
        if len(obs) != len(stmts) or [_marker(e) for e in obs] != [s["marker"] for s in stmts]:
            have = [(_marker(e), e.get(_marker(e))) for e in obs if _marker(e)]
            for s in stmts:
                if (s["marker"], s["name"]) not in have:
                    return fail("%s-entity-missing" % s["kind"], observed=obs, expected=[x["exp"] for x in stmts])
            if len(obs) > len(stmts):
                want = [(s["marker"], s["name"]) for s in stmts]
                extra = next((e for e in obs if (_marker(e), e.get(_marker(e)) if _marker(e) else None) not in want), obs[-1])
                return fail("unexpected-%s-entity" % (BUCKETS.get(_marker(extra), "unknowns").rstrip("s")), observed=obs, expected=[x["exp"] for x in stmts])
            return fail("entity-order", observed=obs, expected=[x["exp"] for x in stmts])
    for s, o in zip(stmts, obs):
        d = compare(s, o, mode)
        if d:
            return fail("%s-%s" % (s["kind"], d[0]), statement=s["ddl"], observed=d[1], expected=d[2], entity=o)
    ck.ok(set_name, key, dict(ddl=ddl[:300]))


# ------------------------------------------------------------------ generator helpers
def _name_pairs(rnd, thorough):
    """(schema, name) forms: unqualified / qualified x plain / quoted / keyword-shaped"""
    out = []
    for sc, nc in itertools.product(["none", "plain", "quoted", "kw"], ["plain", "quoted", "kw"]):
        pick = {"plain": PLAIN, "quoted": QUOTED, "kw": KEYWORDS}
        for _ in range(3 if thorough else 1):
            out.append((None if sc == "none" else rnd.choice(pick[sc]), rnd.choice(pick[nc])))
    return out


def _attrs(rnd, n):
    names = rnd.sample(ATTR_NAMES, n)
    return [(nm, rnd.choice(ATTR_TYPES)) for nm in names]


def _values(rnd, n):
    return [rnd.choice(ENUM_VALUES) for _ in range(n)] if rnd.random() < 0.3 else rnd.sample(ENUM_VALUES, min(n, len(ENUM_VALUES)))


def _coltype_ok(schema, name):
    """the first word of a column type must not be one of the column-option words (C06 / C09 territory); after a dot anything goes"""
    first = schema if schema is not None else name
    return first.lower() not in {k.lower() for k in KEYWORDS} or first.lower() in KW_UNQUALIFIED_COLTYPE


def table_using(rnd, tname, refs, style="upper", layout=0, schema=None):
    """a table whose columns use the given (schema, name) types, mixed with built-in types"""
    cols = []
    pool = list(ATTR_NAMES)
    k = 0
    if rnd.random() < 0.6:
        cols.append(("id", "int", None, rnd.random() < 0.5))
    for sc, nm in refs:
        if not _coltype_ok(sc, nm):
            continue
        cols.append(("c%d" % k if rnd.random() < 0.5 else pool[k % len(pool)], _full(sc, nm), None, rnd.random() < 0.4))
        k += 1
        if rnd.random() < 0.3:
            t = rnd.choice(ATTR_TYPES)
            cols.append(("f%d" % k, t[0], t[2], rnd.random() < 0.3))
    if not cols:
        cols.append(("id", "int", None, False))
    # column names must be distinct
    seen, out = set(), []
    for c in cols:
        n = c[0]
        while n in seen:
            n += "_"
        seen.add(n)
        out.append((n,) + c[1:])
    return st_table(schema, tname, out, style=style, layout=layout)


def clean_random_stmt(rnd, i, thorough):
    """one random statement of a clean input class (no known-defect class), names made unique with the index i"""
    style = rnd.choice(["upper"] * 3 + ["lower"] + (["title"] if thorough else []))
    layout = rnd.randrange(3)
    sc = rnd.choice([None, None, rnd.choice(PLAIN), rnd.choice(QUOTED), rnd.choice(KEYWORDS)])
    base = rnd.choice(PLAIN + QUOTED[:1] + KEYWORDS[:13])
    nm = base if rnd.random() < 0.3 else (base[:-1] + "_%d%s" % (i, base[-1]) if base[0] in '"[`' else base + "_%d" % i)
    kind = rnd.choice(["type-enum", "type-enum", "type-object", "type-table", "domain", "domain", "schema", "schema", "database", "tablespace", "tablespace"])
    nmax = 7 if thorough else 4
    if kind == "type-enum":
        return st_type_enum(sc, nm, _values(rnd, rnd.randint(1, nmax)), style, layout, rnd.random() < 0.2)
    if kind == "type-object":
        return st_type_object(sc, nm, _attrs(rnd, rnd.randint(1, nmax)), "upper", layout, rnd.random() < 0.2)
    if kind == "type-table":
        return st_type_table(sc, nm, [(a, t, rnd.random() < 0.3) for a, t in _attrs(rnd, rnd.randint(1, nmax))], style, layout, rnd.random() < 0.2)
    if kind == "domain":
        if rnd.random() < 0.4:
            return st_domain(sc, nm, "ENUM", _values(rnd, rnd.randint(1, nmax)), "upper", layout)
        return st_domain(sc, nm, rnd.choice(DOMAIN_SIZED), None, style, layout)
    if kind == "schema":
        if nm[0] == "`":
            nm = nm.replace("`", '"')
        ine = rnd.random() < 0.5
        comment = rnd.choice([None, None] + COMMENTS)
        user = None
        if rnd.random() < 0.5:
            # AUTHORIZATION only in the clean combinations
            user = rnd.choice(USERS)
            style = "lower" if ine else "upper"
        name = nm
        if user is not None and not ine and rnd.random() < 0.25:
            name = None
        return st_schema(name, ine, user, comment, rnd.randrange(3), style, layout)
    if kind == "database":
        return st_database(nm, style, layout)
    props = [p for p in TS_PROPS if rnd.random() < 0.5]
    return st_tablespace(nm, rnd.choice([None, "BIGFILE", "SMALLFILE"]), rnd.random() < 0.5, props, style, layout)


def _neighbours(rnd, st):
    """two clean neighbours for the 'between' context: a table (using the type when the statement declares one) and another entity"""
    refs = []
    if st["marker"] in ("type_name", "domain_name"):
        refs = [(st["exp"]["schema"], st["name"])]
    refs.append((rnd.choice([None, "app"]), rnd.choice(["mood_t", "addr_t", "us_postal"])))
    before = table_using(rnd, "nb_items", refs, layout=rnd.randrange(3), schema=rnd.choice([None, "shop"]))
    other = [
        lambda: st_schema("nb_sc", True, None, "nb comment"),
        lambda: st_schema("nb_sc", False, "nb_user", None),
        lambda: st_tablespace("nb_ts", "BIGFILE", True, []),
        lambda: st_tablespace("nb_ts", None, False, TS_PROPS[:2]),
        lambda: st_type_enum("nb", "nb_enum", ["p", "q", "r"]),
        lambda: st_domain("nb", "nb_dom", "ENUM", ["u", "v"]),
        lambda: st_domain(None, "nb_dom", DOMAIN_SIZED[0]),
        lambda: st_database("nb_db"),
        lambda: st_type_object(None, "nb_obj", [("a", ATTR_TYPES[0]), ("b", ATTR_TYPES[1])]),
        lambda: st_type_table("nb", "nb_tt", [("a", ATTR_TYPES[1], True)]),
    ]
    after = rnd.choice(other)()
    if rnd.random() < 0.5:
        return [after, st, before]
    return [before, st, after]


# ------------------------------------------------------------------ the check
def check(ck):
    rnd = ck.rnd
    thorough = not ck.quick()
    counter = [0]

    def mode_for():
        """sql mostly; every 4th case one of the other output modes in rotation"""
        counter[0] += 1
        if counter[0] % 4 == 0:
            return MODES[(counter[0] // 4) % len(MODES)]
        return "sql"

    def both(set_name, key, st):
        """the statement alone (flat or grouped) and between two neighbours"""
        run_script(ck, set_name, key + ("alone",), [st], mode=mode_for(), grouped=(counter[0] % 3 == 0))
        run_script(ck, set_name, key + ("between",), _neighbours(rnd, st), sep=rnd.choice(["\n", "\n\n", " \n"]), mode=mode_for(), grouped=(counter[0] % 5 == 0))
        if thorough and counter[0] % 2 == 0:
            m = MODES[(counter[0] // 2) % len(MODES)]
            run_script(ck, set_name, key + ("alone", m), [st], mode=m)

    nmax = 7 if thorough else 4
    styles = STYLES if thorough else ["upper", "lower"]

    # (0) one plain statement per shape first, so that the first witness of every class is a minimal one
    canonical = [
        st_type_enum(None, "mood", ["sad", "ok"]), st_type_enum("shop", "mood", ["sad", "ok", "happy"], "lower"),
        st_type_object(None, "addr", [("zip", ATTR_TYPES[1])]), st_type_object(None, "addr", [("zip", ATTR_TYPES[1])], "lower"),
        st_type_table("dbo", "slips", [("id", ATTR_TYPES[7], False)]), st_type_table("dbo", "slips", [("id", ATTR_TYPES[7], False)], "lower"),
        st_domain(None, "dm", DOMAIN_SIZED[1]), st_domain(None, "dm", DOMAIN_UNSIZED[0]), st_domain("shop", "dm", "ENUM", ["a", "b"]),
        st_schema("sc"), st_schema("sc", True), st_schema("sc", False, "joe"), st_schema("sc", False, "joe", None, 0, "lower"),
        st_schema("sc", True, "joe"), st_schema("sc", True, "joe", None, 0, "lower"), st_schema(None, False, "joe"), st_schema(None, True, "joe"),
        st_schema("sc", False, None, "a comment"), st_schema("sc", True, "joe", "a comment", 1, "lower"),
        st_database("db"), st_database("db", "lower"),
        st_tablespace("ts"), st_tablespace("ts", "BIGFILE"), st_tablespace("ts", None, True), st_tablespace("ts", "SMALLFILE", True),
        st_tablespace("ts", "BIGFILE", True, TS_PROPS), st_tablespace("ts", "smallfile", True, [], "lower"),
        st_table(None, "t", [("c", "shop.mood", None, False)]), st_table("shop", "t", [("id", "int", None, True), ("c", "mood", None, True), ("d", '"Shop"."Mood"', None, False)]),
    ]
    for i, st in enumerate(canonical):
        run_script(ck, "canonical", (i, st["ddl"]), [st])

    # (1) types: form x list length x name forms, case / layout / OR REPLACE in rotation
    for form in ("enum", "object", "table"):
        for n in range(1, nmax + 1):
            for pi, (sc, nm) in enumerate(_name_pairs(rnd, thorough)):
                style = styles[1:][((pi + n) // 3) % (len(styles) - 1)] if (pi + n) % 3 == 0 else "upper"
                layout = (pi + n + (pi + n) // 3) % 3
                orr = (pi * 7 + n) % 5 == 0
                if form == "enum":
                    st = st_type_enum(sc, nm, _values(rnd, n), style, layout, orr)
                elif form == "object":
                    st = st_type_object(sc, nm, _attrs(rnd, n), style, layout, orr)
                else:
                    st = st_type_table(sc, nm, [(a, t, rnd.random() < 0.3) for a, t in _attrs(rnd, n)], style, layout, orr)
                both("types", (form, n, pi, sc, nm, style, layout, orr), st)

    # (2) domains: base type forms x name forms
    bases = [("sized", b) for b in DOMAIN_SIZED] + [("unsized", b) for b in DOMAIN_UNSIZED] + [("enum", n) for n in range(1, nmax + 1)]
    for bi, (bk, b) in enumerate(bases):
        for pi, (sc, nm) in enumerate(_name_pairs(rnd, thorough)):
            layout = (pi + bi) % 3
            if bk == "enum":
                st = st_domain(sc, nm, "ENUM", _values(rnd, b), "upper", layout)
                style = "upper"
            else:
                style = styles[1:][((pi + bi) // 3) % (len(styles) - 1)] if (pi + bi) % 3 == 0 else "upper"
                st = st_domain(sc, nm, b, None, style, layout)
            both("domains", (bk, b if bk == "enum" else b[0], pi, sc, nm, style, layout), st)

    # (3) schemas: every subset of {IF NOT EXISTS, name, AUTHORIZATION, COMMENT (3 spellings)} x keyword case x name form
    schema_names = PLAIN[:6] + ['"Mood"', '"my type"', "[mood]"] + KEYWORDS
    k = 0
    for ine, has_name, has_user, com in itertools.product([False, True], [True, False], [False, True], [None, 0, 1, 2]):
        if not has_name and not has_user:
            continue
        for style in styles:
            for rep in range(4 if thorough else 2):
                k += 1
                nm = schema_names[(k * 5 + rep) % len(schema_names)] if has_name else None
                user = USERS[(k + rep) % len(USERS)] if has_user else None
                if rep == 1 and has_name and has_user and nm not in KEYWORDS:
                    user = nm  # schema named like its owner
                comment = None if com is None else COMMENTS[(k + rep) % len(COMMENTS)]
                st = st_schema(nm, ine, user, comment, com or 0, style, layout=(k + rep) % 3 if (k % 2) else 0)
                both("schemas", (ine, has_name, has_user, com, style, rep, nm, user, comment), st)

    # (3b) a delimited schema name holding an apostrophe, with each spelling of the COMMENT option on the same line
    for com in (0, 1, 2):
        for ine in (False, True):
            both("schemas", ("apostrophe-in-delimited-name", com, ine), st_schema('"joe\'s"', ine, None, "sandbox", com, "upper"))

    # (4) databases: every name form x keyword case
    for ni, nm in enumerate(PLAIN + QUOTED + KEYWORDS):
        for style in styles:
            both("databases", (nm, style), st_database(nm, style, layout=ni % 2))

    # (5) tablespaces: kind x TEMPORARY x ordered property subsets x keyword case, names in rotation
    ts_names = PLAIN + QUOTED + KEYWORDS
    k = 0
    for kind, temp in itertools.product([None, "BIGFILE", "SMALLFILE"], [False, True]):
        for r in range(len(TS_PROPS) + 1):
            for props in itertools.combinations(TS_PROPS, r):
                for style in styles:
                    k += 1
                    nm = ts_names[(k * 3) % len(ts_names)]
                    both("tablespaces", (kind, temp, tuple(p[0] for p in props), style, nm), st_tablespace(nm, kind, temp, list(props), style, layout=k % 2))

    # (6) tables that use such types, with the declaration before / after / absent
    n_tab = 150 if not thorough else 1500
    for i in range(n_tab):
        refs = []
        for _ in range(rnd.randint(1, 4)):
            sc = rnd.choice([None, rnd.choice(PLAIN), rnd.choice(QUOTED), rnd.choice(KEYWORDS)])
            refs.append((sc, rnd.choice(PLAIN + QUOTED + KEYWORDS)))
        style = rnd.choice(styles)
        tab = table_using(rnd, rnd.choice(["items", "Orders", '"T 1"', "type", "domain"]), refs, style=style, layout=rnd.randrange(3), schema=rnd.choice([None, "app", '"App"']))
        decls = []
        for sc, nm in refs:
            c = rnd.randrange(4)
            if c == 0:
                decls.append(st_type_enum(sc, nm, _values(rnd, rnd.randint(1, 4)), layout=rnd.randrange(3)))
            elif c == 1:
                decls.append(st_domain(sc, nm, rnd.choice(DOMAIN_SIZED), layout=rnd.randrange(3)))
            elif c == 2:
                decls.append(st_type_object(sc, nm, _attrs(rnd, rnd.randint(1, 3)), layout=rnd.randrange(3)))
        where = i % 3
        script = decls + [tab] if where == 0 else ([tab] + decls if where == 1 else decls[: len(decls) // 2] + [tab] + decls[len(decls) // 2:])
        run_script(ck, "tables-using-types", (i, where, tuple(refs), style), script, sep=rnd.choice(["\n", "\n\n"]), mode=mode_for(), grouped=(i % 4 == 0))

    # (6b) columns typed with a user type whose name contains the upper-case word ARRAY (known-defect input class)
    for nm in ARRAY_NAMES:
        for sc in (None, "s", '"S"'):
            for nn in (False, True):
                tab = st_table(None, "phones", [("id", "int", None, True), ("p", _full(sc, nm), None, nn), ("q", "varchar(10)", 10, False)], layout=int(nn))
                run_script(ck, "tables-using-types", ("ARRAY", nm, sc, nn, "alone"), [tab])
                run_script(ck, "tables-using-types", ("ARRAY", nm, sc, nn, "declared"), [st_type_enum(sc, nm, ["a", "b"]), tab])
            # the declarations themselves are clean
            run_script(ck, "types", ("ARRAY-name", nm, sc), [st_type_enum(sc, nm, ["a", "b"]), st_domain(sc, nm, DOMAIN_SIZED[1]), st_type_object(sc, nm, _attrs(rnd, 2))])

    # (6c) long lists (thorough)
    if thorough:
        for n in (10, 20, 40):
            for rep in range(4):
                vals = ["v%d" % j if j % 3 else rnd.choice(ENUM_VALUES) for j in range(n)]
                attrs = [("a%d" % j, rnd.choice(ATTR_TYPES)) for j in range(n)]
                sc = rnd.choice([None, "s", '"S"'])
                for st in (st_type_enum(sc, "long_e", vals, layout=rep % 3), st_domain(sc, "long_d", "ENUM", vals, layout=rep % 3),
                           st_type_object(sc, "long_o", attrs, layout=rep % 3), st_type_table(sc, "long_t", [(a, t, j % 4 == 0) for j, (a, t) in enumerate(attrs)], layout=rep % 3)):
                    both("long-lists", (n, rep, st["kind"]), st)

    # (7) ordered pairs of one representative per statement shape (state carried from one statement into the next)
    reps = [
        lambda: st_type_enum("s1", "e1", ["a", "b", "c"]),
        lambda: st_type_enum(None, "e2", ["z"], "lower", 1, True),
        lambda: st_type_object(None, "o1", [("street", ATTR_TYPES[0]), ("zip", ATTR_TYPES[1])], "upper", 1),
        lambda: st_type_table("dbo", "tt1", [("hashKY", ATTR_TYPES[0], False), ("n", ATTR_TYPES[7], True)], "upper", 1),
        lambda: st_domain("s1", "d1", DOMAIN_SIZED[0]),
        lambda: st_domain(None, "d2", "ENUM", ["r", "g", "b"]),
        lambda: st_domain(None, "d3", DOMAIN_SIZED[3], None, "lower"),
        lambda: st_schema("sc1"),
        lambda: st_schema("sc2", True),
        lambda: st_schema("sc3", False, "joe"),
        lambda: st_schema(None, False, "joe2"),
        lambda: st_schema("sc4", True, "joe", None, 0, "lower"),
        lambda: st_schema("sc5", False, None, "the comment", 1),
        lambda: st_schema("sc6", True, None, "c", 0),
        lambda: st_schema("sc7", False, "bob", "c d", 2),
        lambda: st_database("db1"),
        lambda: st_database("database", "lower"),
        lambda: st_tablespace("ts1"),
        lambda: st_tablespace("ts2", "BIGFILE", True),
        lambda: st_tablespace("ts3", "SMALLFILE", False, TS_PROPS),
        lambda: st_tablespace("ts4", None, True, TS_PROPS[:1], "lower"),
        lambda: st_table("s1", "t1", [("id", "int", None, True), ("m", "s1.e1", None, False), ("d", "d2", None, True)]),
        lambda: st_table(None, "t2", [("a", '"S"."Mood"', None, False), ("b", "varchar(10)", 10, False)], "upper", 1),
    ]
    pairs = list(itertools.permutations(range(len(reps)), 2))
    for a, b in pairs:
        run_script(ck, "ordered-pairs", (a, b), [reps[a](), reps[b]()], sep="\n", mode="sql", grouped=((a + b) % 6 == 0))

    # (8) random mixed scripts of clean statements and tables using the declared types
    n_mixed = 300 if not thorough else 6000
    for i in range(n_mixed):
        stmts = []
        for j in range(rnd.randint(2, 7 if thorough else 6)):
            stmts.append(clean_random_stmt(rnd, j, thorough))
        declared = [(s["exp"]["schema"], s["name"]) for s in stmts if s["marker"] in ("type_name", "domain_name")]
        for t in range(rnd.randint(0, 2)):
            refs = rnd.sample(declared, min(len(declared), rnd.randint(1, 3))) + ([("ext", "other_t")] if rnd.random() < 0.3 else [])
            stmts.insert(rnd.randint(0, len(stmts)), table_using(rnd, "tab_%d" % t, refs, layout=rnd.randrange(3), schema=rnd.choice([None, "app"])))
        mode = "sql" if (not thorough and i % 3) else MODES[i % len(MODES)]
        run_script(ck, "mixed-scripts", (i, mode), stmts, sep=rnd.choice(["\n", "\n\n"]), mode=mode, grouped=(i % 4 == 1))

    rule = ("statements rendered from abstract descriptions: CREATE [OR REPLACE] TYPE AS ENUM / OBJECT / TABLE, CREATE DOMAIN (sized base type, size-less base type, ENUM), "
            "CREATE SCHEMA with every subset of IF NOT EXISTS / name / AUTHORIZATION / COMMENT (3 spellings), CREATE DATABASE, CREATE [BIGFILE|SMALLFILE] [TEMPORARY] TABLESPACE "
            "with ordered subsets of DATAFILE/SIZE/AUTOEXTEND; name forms unqualified / schema-qualified x plain / quoted / keyword-shaped; keyword case upper / lower (/ title); "
            "3 layouts; each alone (flat or grouped) and between a table using the type and another entity, plus tables using declared / undeclared types, ordered pairs of "
            "%d statement shapes and random mixed scripts, output modes in rotation. Contract: exactly one entity per statement, of the declared kind, in statement order, with "
            "schema and name verbatim, base type, enum values in order, attributes / columns (name, type, size[, nullable]), exact schema / database dicts "
            "(if_not_exists, authorization, comment), tablespace kind / temporary / properties; table columns report the type name verbatim" % len(reps))
    bound = ("value / attribute / column lists of length 1..%d; %d ordered pairs; %d tables-using-types scripts; %d mixed scripts of 2..%d statements (+0..2 tables); "
             "keyword case %s; modes: sql plus every 4th case one of the 15 modes%s"
             % (nmax, len(pairs), n_tab, n_mixed, 7 if thorough else 6, "/".join(styles),
                "" if not thorough else ", every 2nd single statement additionally in a rotating mode"))
    return rule, bound
