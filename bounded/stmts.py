"""Statement generators for the bounded stand-ins: abstract description -> DDL text (+ expected output)."""
import itertools

PLAIN_IDS = ["users", "Order_Items", "t1", "acct", "x", "created_at", "customerId", "a1b2"]
TYPES = [("int", None), ("bigint", None), ("varchar(10)", 10), ("varchar(255)", 255), ("decimal(10,2)", (10, 2)),
         ("numeric(5)", 5), ("timestamp", None), ("text", None), ("char(1)", 1), ("date", None)]
DEFAULTS = [("0", 0), ("42", 42), ("'abc'", "'abc'"), ("NULL", "NULL"), ("now()", "now()"), ("current_timestamp", "current_timestamp"),
            ("'2020-01-01'", "'2020-01-01'"), ("100500", 100500)]
OPTIONS = ["NOT NULL", "NULL", "DEFAULT", "PRIMARY KEY", "UNIQUE", "REFERENCES"]


def type_parts(t):
    if "(" in t:
        return t[: t.index("(")]
    return t


REF_TARGETS = [("other_t", "k"), ("array_items", "id"), ("Orders", "order_id"), ("index_cards", "k"), ("other_t", "k")]


def column(name, typ, opts, default=None, ref=None):
    """opts: ordered list of option words; returns (ddl text, expected column dict, is_pk).  The referenced table is taken in
    rotation from REF_TARGETS (names that merely BEGIN like a keyword included) - decided by the column name, not at random"""
    if ref is None:
        ref = REF_TARGETS[sum(map(ord, name)) % len(REF_TARGETS)]
    text, size = typ
    parts = [name, text]
    exp = dict(name=name, type=type_parts(text), size=size, nullable=True, default=None, unique=False, references=None, check=None)
    pk = False
    for o in opts:
        if o == "DEFAULT":
            parts.append("DEFAULT " + default[0])
            exp["default"] = default[1]
        elif o == "REFERENCES":
            parts.append("REFERENCES %s (%s)" % ref)
            exp["references"] = dict(table=ref[0], schema=None, on_delete=None, on_update=None, deferrable_initially=None, column=ref[1])
        else:
            parts.append(o)
            if o == "NOT NULL":
                exp["nullable"] = False
            elif o == "NULL":
                exp["nullable"] = True
            elif o == "PRIMARY KEY":
                pk = True
                exp["nullable"] = False
            elif o == "UNIQUE":
                exp["unique"] = True
    if pk:
        exp["nullable"] = False
    return " ".join(parts), exp, pk


def table(name, cols, layout=0, schema=None):
    """cols: list of (ddl, expected, pk); layout 0 multi-line, 1 single line, 2 leading commas"""
    full = "%s.%s" % (schema, name) if schema else name
    texts = [c[0] for c in cols]
    if layout == 0:
        ddl = "CREATE TABLE %s (\n    %s\n);" % (full, ",\n    ".join(texts))
    elif layout == 1:
        ddl = "CREATE TABLE %s (%s);" % (full, ", ".join(texts))
    else:
        ddl = "CREATE TABLE %s (\n    %s\n);" % (full, "\n  , ".join(texts))
    exp = dict(table_name=name, schema=schema, columns=[c[1] for c in cols], primary_key=[c[1]["name"] for c in cols if c[2]])
    return ddl, exp


def option_sequences(max_len=3):
    """all ordered selections of distinct options up to max_len, NULL and NOT NULL not together"""
    out = [()]
    for n in range(1, max_len + 1):
        for p in itertools.permutations(OPTIONS, n):
            if "NULL" in p and "NOT NULL" in p:
                continue
            out.append(p)
    return out


# ---- one representative statement per supported kind (used by C03 / C05 / C08 / C13 / C14 / C15 / C16)
SUPPORTED = {
    "table": "CREATE TABLE shop.orders (\n    id int PRIMARY KEY,\n    customer_id int NOT NULL,\n    note varchar(100) DEFAULT 'n/a'\n);",
    "table2": "CREATE TABLE customers (\n    id bigint NOT NULL,\n    name varchar(50),\n    PRIMARY KEY (id)\n);",
    "table_fk": "CREATE TABLE items (\n    id int,\n    order_id int REFERENCES shop.orders (id),\n    qty decimal(10,2) DEFAULT 1,\n    UNIQUE (order_id)\n);",
    "table_check": "CREATE TABLE persons (\n    pid int NOT NULL,\n    age int,\n    CONSTRAINT chk_age CHECK (age >= 18)\n);",
    "sequence": "CREATE SEQUENCE dev.ids\n    INCREMENT BY 5\n    START WITH 10\n    MINVALUE 1\n    NO MAXVALUE\n    CACHE 20;",
    "type_enum": "CREATE TYPE shop.mood AS ENUM ('sad', 'ok', 'happy');",
    "type_object": "CREATE TYPE addr AS OBJECT (\n    street varchar(30),\n    zip int\n);",
    "domain": "CREATE DOMAIN shop.us_postal AS varchar(5);",
    "schema": "CREATE SCHEMA IF NOT EXISTS analytics;",
    "schema_auth": "CREATE SCHEMA sales AUTHORIZATION joe;",
    "database": "CREATE DATABASE warehouse;",
    "tablespace": "CREATE TABLESPACE ts1 DATAFILE 'ts1.dbf' SIZE 10m;",
    "drop": "DROP TABLE old_stuff;",
    "set": "SET search_path = shop;",
    "hql_table": "CREATE EXTERNAL TABLE logs (\n    ts string,\n    msg string\n)\nSTORED AS PARQUET\nLOCATION 's3://bucket/logs';",
}
# statement groups that belong together (ALTER / INDEX need their table)
GROUPS = {
    "alter_add": ["CREATE TABLE emp (\n    id int,\n    dept int\n);", "ALTER TABLE emp ADD salary decimal(8,2);"],
    "alter_fk": ["CREATE TABLE emp2 (\n    id int,\n    dept int\n);", "ALTER TABLE emp2 ADD CONSTRAINT fk_d FOREIGN KEY (dept) REFERENCES depts (id);"],
    "alter_unique": ["CREATE TABLE emp3 (\n    id int,\n    code int\n);", "ALTER TABLE emp3 ADD UNIQUE (code);"],
    "alter_drop": ["CREATE TABLE emp4 (\n    id int,\n    tmp int\n);", "ALTER TABLE emp4 DROP COLUMN tmp;"],
    "index": ["CREATE TABLE emp5 (\n    id int,\n    name varchar(20)\n);", "CREATE UNIQUE INDEX emp5_ix ON emp5 (name DESC, id);"],
}

UNSUPPORTED = {
    "select": "SELECT a, b FROM orders WHERE id > 100;",
    "select_multi": "SELECT o.id,\n       c.name\nFROM orders o\nJOIN customers c ON c.id = o.customer_id;",
    "insert": "INSERT INTO orders (id, note) VALUES (1, 'x');",
    "update": "UPDATE orders SET note = 'y' WHERE id = 1;",
    "delete": "DELETE FROM orders WHERE id = 2;",
    "grant": "GRANT SELECT ON orders TO reporting;",
    "revoke": "REVOKE ALL ON orders FROM public;",
    "view": "CREATE VIEW v_orders AS SELECT id FROM orders;",
    "function": "CREATE FUNCTION f() RETURNS int AS 'select 1' LANGUAGE sql;",
    "commit": "COMMIT;",
    "begin": "BEGIN;",
    "use": "USE warehouse;",
    "go": "GO",
    "truncate": "TRUNCATE TABLE orders;",
    "comment_on": "COMMENT ON TABLE orders IS 'all orders';",
    "trigger": "CREATE TRIGGER trg AFTER INSERT ON orders EXECUTE PROCEDURE audit();",
    "caret": "SELECT a ^ b FROM orders;",
    # data statements whose literals hold an escaped / doubled quote (an odd number of quote characters in the statement)
    "insert_escaped_quote": "INSERT INTO customers (id, name) VALUES (1, 'O\\'Reilly');",
    "insert_doubled_quote": "INSERT INTO customers (id, name) VALUES (2, 'D''Arcy');",
}
