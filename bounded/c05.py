"""C05 BOUNDED stand-in: parsing is invariant under keyword case, whitespace and line layout.

Every input is an *abstract* statement: a list of tokens (keyword / identifier-type-value / number / string literal /
punctuation) produced by a generator that also knows the names, types and values it wrote.  A *rendering* chooses
  - a letter-case pattern for every keyword token (identifiers, type names, values are never touched),
  - a separator for every gap between two tokens (blank(s), tab(s), nothing where a gap touches , ( ) or ;),
  - a set of gaps that carry a line break (LF, CRLF, blank line, with / without indentation),
under the proviso of the statement: a line break is never placed in front of CREATE, ALTER, DROP, SET, GO, USE, INSERT,
GRANT, DELETE (whatever the token is) unless that token starts a statement; every statement starts on its own line.
Contract (metamorphic, from the statement): run(rendering) == run(canonical rendering) -- the canonical rendering is
one line per statement, upper-case keywords, single blanks -- plus: the canonical result carries every identifier,
type name and value exactly as the generator wrote it.
The regression corpus is re-rendered with the structure-blind subset of these moves (blank runs, blanks around , ( ),
line joins / extra breaks / blank lines, CRLF, case of unambiguous keyword phrases).

Failure classes that are decided from the INPUT (the string-literal defect families; a rendering belongs to the first one
that applies; the main sets are moved out of them by step_out, the families have sets of their own so that a repaired tree
is still exercised; a CRLF break counts as a line break):
  c05:line-starts-with-string-literal      a line break (LF or CRLF) is followed directly (column 0) by a string literal
  c05:comma-or-paren-glued-to-word-then-single-tab-then-string-literal
                                           ")WORD<TAB>'lit'" / ",WORD<TAB>'lit'": no blank after ) or , and exactly one tab before the literal
  c05:word-glued-to-comma-then-string-literal        "WORD,'lit'" / "WORD,<TAB>'lit'"   (fires only as c05:corpus-...)
  c05:comma-or-paren-directly-before-string-literal  ",'lit'" / ")'lit'" / ",<TAB>'lit'" otherwise   (does not fire)
corpus re-renderings use the same families with the prefix "c05:corpus-" (only families the move introduced).
Everything else - CRLF renderings, any case of ALTER's COLUMN / RENAME / MODIFY and of an index's ASC / DESC included - is an
ordinary asserted case: a failure gets "c05:<dimension>:<what differs>" (c05:corpus-<move>:<what differs>) from the observed
difference.  notes["string_family_inputs_fail_pass"] counts, per family, the inputs of the family sets that fail / pass."""
import hashlib
import re

from bounded.common import MODES, corpus, jdump, parse

PROVISO = {"CREATE", "ALTER", "DROP", "SET", "GO", "USE", "INSERT", "GRANT", "DELETE"}

# ------------------------------------------------------------------------------------------------ token model
K, I, N, S, P, E = "K", "I", "N", "S", "P", ";"   # keyword, identifier/type/value word, number, string, punctuation, end


def toks(spec):
    """'~CREATE ~TABLE t ( a int , b varchar ( 10 ) ~DEFAULT 'x_y' ) ;' -> [(text, kind)]; '~' marks a keyword,
    '_' inside a string literal written as '\\x01' stands for a blank"""
    out = []
    for w in spec.split():
        if w.startswith("~"):
            out.append((w[1:].upper(), K))
        elif w in ("(", ")", ","):
            out.append((w, P))
        elif w == ";":
            out.append((w, E))
        elif w.startswith("'"):
            out.append((w.replace("\x01", " "), S))
        elif re.fullmatch(r"-?[0-9]+", w):
            out.append((w, N))
        else:
            out.append((w, I))
    return out


def optional_gap(a, b):
    """may the gap between tokens a and b be empty?  only next to , ( ) and in front of ;"""
    return a[1] == P or b[1] == P or b[1] == E


def canon_sep(a, b):
    if b[1] == E or b[0] in (",", ")"):
        return ""
    if a[0] == "(":
        return ""
    return " "


class Stmt:
    def __init__(self, family, spec, facts=None):
        self.family = family          # table | alter | index | sequence
        self.tokens = toks(spec)
        self.facts = facts or {}
        assert self.tokens[-1][1] == E, spec
        assert self.tokens[0][1] == K and self.tokens[0][0] in ("CREATE", "ALTER"), spec

    def kw_idx(self):
        return [i for i, t in enumerate(self.tokens) if t[1] == K]

    def ngaps(self):
        return len(self.tokens) - 1

    def break_ok(self, g):
        """may gap g (between token g and g+1) carry a line break?  (the proviso of the statement)"""
        return self.tokens[g + 1][0].upper() not in PROVISO


class Layout:
    """texts[s][i]: text of token i of statement s; seps[s][g]: separator in gap g; between[s]: separator in front of
    statement s (between[0] = text before the first statement); tail: text after the last ';'"""

    def __init__(self, unit):
        self.unit = unit
        self.texts = [[t[0] for t in st.tokens] for st in unit]
        self.seps = [[canon_sep(st.tokens[g], st.tokens[g + 1]) for g in range(st.ngaps())] for st in unit]
        self.between = [""] + ["\n"] * (len(unit) - 1)
        self.tail = ""

    def text(self):
        out = []
        for s, st in enumerate(self.unit):
            out.append(self.between[s])
            for i, t in enumerate(self.texts[s]):
                out.append(t)
                if i < len(self.seps[s]):
                    out.append(self.seps[s][i])
        out.append(self.tail)
        return "".join(out)


def recase(word, style, rnd=None):
    if style == "U":
        return word.upper()
    if style == "l":
        return word.lower()
    if style == "T":
        return word.title()
    if style == "a":   # alternating, starts lower
        return "".join(c.upper() if i % 2 else c.lower() for i, c in enumerate(word))
    if style == "A":   # alternating, starts upper
        return "".join(c.lower() if i % 2 else c.upper() for i, c in enumerate(word))
    if style == "e":   # only the last letter lower
        return word[:-1].upper() + word[-1].lower()
    if style == "r":
        w = "".join(c.upper() if rnd.random() < 0.5 else c.lower() for c in word)
        return w
    raise ValueError(style)


# ------------------------------------------------------------------------------------------------ input classes (known defect families)
_STRLIKE = re.compile(r"\w*'")
STRING_FAMILIES = ["line-starts-with-string-literal",
                   "comma-or-paren-glued-to-word-then-single-tab-then-string-literal",
                   "word-glued-to-comma-then-string-literal",
                   "comma-or-paren-directly-before-string-literal"]


def string_family(texts, seps):
    """texts[i]: token texts of one statement / script, seps[i]: separator between texts[i] and texts[i+1].
    -> index into STRING_FAMILIES of the first family (in that order) the rendering belongs to, or None.
    All four are about a string literal whose left neighbourhood makes the pre-processor treat the preceding line break,
    comma or parenthesis as if it were inside the literal."""
    fams = string_family_positions(texts, seps)
    return min(fams.values()) if fams else None


def string_family_positions(texts, seps):
    """-> {index of the string literal: family index}"""
    out = {}
    for j in range(1, len(texts)):
        if not _STRLIKE.match(texts[j]):
            continue
        sep, prev = seps[j - 1], texts[j - 1]
        fam = None
        if sep.endswith("\n"):
            fam = 0
        elif prev in (",", ")") and sep in ("", "\t"):
            fam = 2 if (prev == "," and j >= 2 and seps[j - 2] == "" and re.search(r"\w$", texts[j - 2])) else 3
        elif sep == "\t" and re.fullmatch(r"\w+", prev) and j >= 2 and seps[j - 2] == "" and texts[j - 2] in (",", ")"):
            fam = 1
        if fam is not None:
            out[j] = fam
    return out


def input_class(lay):
    """known-defect class of a rendering, decided from the rendering alone (None: no known family applies)"""
    fams = [string_family(lay.texts[s], lay.seps[s]) for s in range(len(lay.unit))]
    fams = [f for f in fams if f is not None]
    if fams:
        return "c05:" + STRING_FAMILIES[min(fams)]
    return None


def step_out(lay):
    """smallest change of separators that takes a rendering out of the string-literal families (the main sets use it so
    that a known family does not hide anything else; the families have sets of their own)"""
    for s, st in enumerate(lay.unit):
        for j, t in enumerate(st.tokens):
            if t[1] != S or j == 0:
                continue
            sep, prev = lay.seps[s][j - 1], st.tokens[j - 1][0]
            if sep.endswith("\n"):
                lay.seps[s][j - 1] = sep + " "
            elif prev in (",", ")") and sep in ("", "\t"):
                lay.seps[s][j - 1] = " " if sep == "" else "\t\t"
            elif sep == "\t" and j >= 2 and lay.seps[s][j - 2] == "" and st.tokens[j - 2][0] in (",", ")"):
                lay.seps[s][j - 1] = "\t\t"
    assert all(string_family(lay.texts[s], lay.seps[s]) is None for s in range(len(lay.unit)))
    return lay


# ------------------------------------------------------------------------------------------------ statement generators
ID_POOL = ["id", "name", "qty", "Price", "created_at", "status", "ref_id", "note", "flag", "amount", "customerId", "Order_Items",
           # words that only *begin* like a statement-level word (allowed at a line start by the proviso)
           "settings", "user_id", "goal", "grants", "dropped_at", "altered", "deleted_flag", "inserted_by", "used", "creates",
           "go_live", "use_case", "set_id", "drop_ts", "GoTo", "SETTING",
           # keyword-shaped but plain identifiers in a column list
           "update_ts", "updated", "Key_", "ordering", "indexes", "checked", "uniq", "primary_", "nullable", "defaults"]
# keyword-shaped column names (accepted as column names inside the parenthesised column list)
KWISH_COLS = ["update", "Update", "Order", "key", "Index", "Comment", "type", "on", "No", "By", "start", "cache", "add", "Column"]
TYPES = [("int", None), ("INT", None), ("bigint", None), ("varchar ( 10 )", 10), ("VARCHAR ( 255 )", 255), ("decimal ( 10 , 2 )", (10, 2)),
         ("numeric ( 5 )", 5), ("timestamp", None), ("Text", None), ("char ( 1 )", 1), ("date", None)]
DEFAULTS = [("0", 0), ("42", 42), ("'abc'", "'abc'"), ("'Abc'", "'Abc'"), ("~NULL", "NULL"), ("now ( )", "now()"), ("Now ( )", "Now()"),
            ("current_timestamp", "current_timestamp"), ("CURRENT_TIMESTAMP", "CURRENT_TIMESTAMP"), ("'2020-01-01'", "'2020-01-01'"),
            ("'n\x01a'", "'n a'"), ("100500", 100500), ("'N/A'", "'N/A'")]
ACTIONS = ["CASCADE", "cascade", "Restrict", "RESTRICT"]
REF_TABLES = [("customers", None, "customers"), ("shop.Orders", "shop", "Orders"), ("Ref_T", None, "Ref_T")]


def gen_column(rnd, name, allow_pk=True):
    """-> (spec, facts) ; option order random"""
    t = rnd.choice(TYPES)
    spec = [name, t[0]]
    facts = dict(name=name, type=t[0].split()[0], default=None, ref=None)
    opts = []
    r = rnd.random()
    if r < 0.35:
        opts.append("nn")
    elif r < 0.45:
        opts.append("null")
    if rnd.random() < 0.4:
        opts.append("default")
    if allow_pk and rnd.random() < 0.12:
        opts.append("pk")
    if rnd.random() < 0.15:
        opts.append("unique")
    if rnd.random() < 0.3:
        opts.append("ref")
    if rnd.random() < 0.25 and name not in KWISH_COLS:
        opts.append("check")
    if rnd.random() < 0.12:
        opts.append("comment")
    rnd.shuffle(opts)
    for o in opts:
        if o == "nn":
            spec.append("~NOT ~NULL")
        elif o == "null":
            spec.append("~NULL")
        elif o == "default":
            d = rnd.choice(DEFAULTS)
            spec.append("~DEFAULT " + d[0])
            facts["default"] = d[1]
        elif o == "pk":
            spec.append("~PRIMARY ~KEY")
        elif o == "unique":
            spec.append("~UNIQUE")
        elif o == "ref":
            rt = rnd.choice(REF_TABLES)
            rc = rnd.choice(["id", "Code", "k"])
            s = "~REFERENCES %s ( %s )" % (rt[0], rc)
            acts = {}
            for which in rnd.sample(["DELETE", "UPDATE"], rnd.choice([0, 1, 1, 2])):
                a = rnd.choice(ACTIONS)
                s += " ~ON ~%s %s" % (which, a)
                acts[which] = a
            spec.append(s)
            facts["ref"] = dict(table=rt[2], schema=rt[1], column=rc, on_delete=acts.get("DELETE"), on_update=acts.get("UPDATE"))
        elif o == "check":
            spec.append("~CHECK ( %s %s %d )" % (name, rnd.choice([">", ">=", "<>"]), rnd.randint(0, 99)))
        elif o == "comment":
            spec.append("~COMMENT " + rnd.choice(["'c1'", "'Some\x01Text'"]))
    return " ".join(spec), facts


def gen_table(rnd, tname, schema=None, ncols=None, names=None):
    ncols = ncols or rnd.randint(1, 7)
    names = names or rnd.sample(ID_POOL, ncols)
    if rnd.random() < 0.35:
        names[rnd.randrange(len(names))] = rnd.choice(KWISH_COLS)
    cols = [gen_column(rnd, n) for n in names]
    full = "%s.%s" % (schema, tname) if schema else tname
    head = rnd.choice(["~CREATE ~TABLE", "~CREATE ~TABLE", "~CREATE ~TABLE ~IF ~NOT ~EXISTS", "~CREATE ~OR ~REPLACE ~TABLE", "~CREATE ~TEMPORARY ~TABLE"])
    parts = [c[0] for c in cols]
    # table-level clauses
    for _ in range(rnd.choice([0, 0, 1, 1, 2, 3])):
        kind = rnd.choice(["pk", "uq", "cpk", "cuq", "fk", "cfk", "chk", "cchk"])
        plain = [n for n in names if n not in KWISH_COLS]
        if not plain:
            break
        some = rnd.sample(plain, min(len(plain), rnd.randint(1, 2)))
        lst = " , ".join(some)
        if kind == "pk":
            parts.append("~PRIMARY ~KEY ( %s )" % lst)
        elif kind == "uq":
            parts.append("~UNIQUE ( %s )" % lst)
        elif kind == "cpk":
            parts.append("~CONSTRAINT pk_%s ~PRIMARY ~KEY ( %s )" % (tname, lst))
        elif kind == "cuq":
            parts.append("~CONSTRAINT Uq_%s ~UNIQUE ( %s )" % (tname, lst))
        elif kind in ("fk", "cfk"):
            rt = rnd.choice(REF_TABLES)
            s = ("~CONSTRAINT fk_%s " % tname if kind == "cfk" else "") + "~FOREIGN ~KEY ( %s ) ~REFERENCES %s ( %s )" % (some[0], rt[0], "id")
            for which in rnd.sample(["DELETE", "UPDATE"], rnd.choice([0, 1, 2])):
                s += " ~ON ~%s %s" % (which, rnd.choice(ACTIONS))
            parts.append(s)
            for c in cols:
                if c[1]["name"] == some[0]:
                    c[1]["ref"] = None      # a table-level FOREIGN KEY on the same column: which reference is reported is not C05's business
        else:
            s = ("~CONSTRAINT chk_%s " % tname if kind == "cchk" else "") + "~CHECK ( %s > %d )" % (some[0], rnd.randint(0, 9))
            parts.append(s)
    spec = "%s %s ( %s ) ;" % (head, full, " , ".join(parts))
    facts = dict(kind="table", table_name=tname, schema=schema, columns=[c[1] for c in cols])
    return Stmt("table", spec, facts)


def gen_alter(rnd, tname, schema, cols):
    full = "%s.%s" % (schema, tname) if schema else tname
    head = "~ALTER ~TABLE " + ("~IF ~EXISTS " if rnd.random() < 0.2 else "") + full
    c = rnd.choice(cols)
    new = rnd.choice(["created_at", "settings", "goal", "user_id", "dropped_at", "Extra", "updated", "grants", "deleted_flag", "inserted_by"])
    kind = rnd.choice(["add", "add_default", "drop", "rename", "modify_col", "modify", "alter_col", "pk", "cpk", "uq", "cuq", "fk", "cfk", "chk", "cchk", "cdefault"])
    facts = dict(kind="alter", alter_kind=kind)
    if kind == "add":
        t = rnd.choice(TYPES)
        body = "~ADD %s %s" % (new, t[0])
        facts.update(added=new, type=t[0].split()[0])
    elif kind == "add_default":
        t = rnd.choice(TYPES)
        d = rnd.choice([x for x in DEFAULTS if x[0].startswith("'") or x[0].isdigit()])
        body = "~ADD %s %s ~DEFAULT %s" % (new, t[0], d[0])
        facts.update(added=new, type=t[0].split()[0])
    elif kind == "drop":
        body = "~DROP ~COLUMN " + c
    elif kind == "rename":
        body = "~RENAME ~COLUMN %s ~TO %s" % (c, new)
    elif kind == "modify_col":
        body = "~MODIFY ~COLUMN %s %s" % (c, rnd.choice(TYPES)[0])
    elif kind == "modify":
        body = "~MODIFY %s %s" % (c, rnd.choice(TYPES)[0])
    elif kind == "alter_col":
        body = "~ALTER ~COLUMN %s %s" % (c, rnd.choice(TYPES)[0])
    elif kind == "pk":
        body = "~ADD ~PRIMARY ~KEY ( %s )" % c
    elif kind == "cpk":
        body = "~ADD ~CONSTRAINT Pk_1 ~PRIMARY ~KEY ( %s )" % " , ".join(rnd.sample(cols, min(2, len(cols))))
    elif kind == "uq":
        body = "~ADD ~UNIQUE ( %s )" % c
    elif kind == "cuq":
        body = "~ADD ~CONSTRAINT uq_X ~UNIQUE ( %s )" % " , ".join(rnd.sample(cols, min(2, len(cols))))
    elif kind in ("fk", "cfk"):
        rt = rnd.choice(REF_TABLES)
        body = "~ADD " + ("~CONSTRAINT Fk_a " if kind == "cfk" else "") + "~FOREIGN ~KEY ( %s ) ~REFERENCES %s ( %s )" % (c, rt[0], "id")
        for which in rnd.sample(["DELETE", "UPDATE"], rnd.choice([0, 1, 2])):
            body += " ~ON ~%s %s" % (which, rnd.choice(ACTIONS))
    elif kind == "chk":
        body = "~ADD ~CHECK ( %s > 0 )" % c
    elif kind == "cchk":
        body = "~ADD ~CONSTRAINT Ck_a ~CHECK ( %s >= 10 )" % c
    else:
        body = "~ADD ~CONSTRAINT df_A ~DEFAULT 0 ~FOR " + c
    return Stmt("alter", "%s %s ;" % (head, body), facts)


def gen_index(rnd, iname, tname, schema, cols):
    full = "%s.%s" % (schema, tname) if schema else tname
    head = rnd.choice(["~CREATE ~INDEX", "~CREATE ~UNIQUE ~INDEX", "~CREATE ~CLUSTERED ~INDEX"])
    some = rnd.sample(cols, min(len(cols), rnd.randint(1, 3)))
    lst = " , ".join(c + rnd.choice(["", "", " ~ASC", " ~DESC"]) for c in some)
    return Stmt("index", "%s %s ~ON %s ( %s ) ;" % (head, iname, full, lst), dict(kind="index", index_name=iname, columns=some, unique="UNIQUE" in head))


SEQ_OPTS = [("~INCREMENT %d", "increment"), ("~INCREMENT ~BY %d", "increment_by"), ("~START %d", "start"), ("~START ~WITH %d", "start_with"),
            ("~MINVALUE %d", "minvalue"), ("~MAXVALUE %d", "maxvalue"), ("~NO ~MINVALUE", "minvalue"), ("~NO ~MAXVALUE", "maxvalue"),
            ("~CACHE %d", "cache"), ("~CACHE", "cache"), ("~ORDER", "order"), ("~NOORDER", "noorder")]


def gen_sequence(rnd, name, schema=None):
    full = "%s.%s" % (schema, name) if schema else name
    chosen, keys = [], set()
    for o in rnd.sample(SEQ_OPTS, rnd.randint(0, 5)):
        if o[1] in keys or (o[1] in ("order", "noorder") and keys & {"order", "noorder"}):
            continue
        keys.add(o[1])
        chosen.append(o)
    parts, exp = [], {}
    for o in chosen:
        if "%d" in o[0]:
            v = rnd.choice([1, 5, 10, 20, 1000, 2 ** 31])
            parts.append(o[0] % v)
            exp[o[1]] = v
        else:
            parts.append(o[0])
            exp[o[1]] = False if o[0].startswith("~NO ") else True
    return Stmt("sequence", "~CREATE ~SEQUENCE %s %s ;" % (full, " ".join(parts)), dict(kind="sequence", sequence_name=name, schema=schema, options=exp))


def fixed_units():
    """hand-written units that together use every clause of the four families at least once"""
    u = {}
    u["table-core"] = [Stmt("table",
        "~CREATE ~TABLE shop.orders ( id int ~NOT ~NULL , customer_id bigint ~REFERENCES customers ( id ) ~ON ~DELETE CASCADE ~ON ~UPDATE restrict , "
        "note varchar ( 100 ) ~DEFAULT 'n/a' ~NOT ~NULL , qty decimal ( 10 , 2 ) ~DEFAULT 1 ~NULL , created_at timestamp ~DEFAULT now ( ) , "
        "code char ( 3 ) ~UNIQUE , ~PRIMARY ~KEY ( id ) ) ;",
        dict(kind="table", table_name="orders", schema="shop", columns=[
            dict(name="id", type="int", default=None, ref=None),
            dict(name="customer_id", type="bigint", default=None, ref=dict(table="customers", schema=None, column="id", on_delete="CASCADE", on_update="restrict")),
            dict(name="note", type="varchar", default="'n/a'", ref=None), dict(name="qty", type="decimal", default=1, ref=None),
            dict(name="created_at", type="timestamp", default="now()", ref=None), dict(name="code", type="char", default=None, ref=None)]))]
    u["table-constraints"] = [Stmt("table",
        "~CREATE ~TABLE ~IF ~NOT ~EXISTS Items ( id INT , order_id int , kind varchar ( 10 ) ~CHECK ( kind ~IN ( 'a' , 'b' ) ) , lvl int ~CHECK ( lvl ~IN ( 1 , 'x' , 3 ) ) , age int ~NOT ~NULL , "
        "update_ts date , ~CONSTRAINT pk_items ~PRIMARY ~KEY ( id , order_id ) , ~CONSTRAINT uq_kind ~UNIQUE ( kind ) , "
        "~CONSTRAINT fk_o ~FOREIGN ~KEY ( order_id ) ~REFERENCES shop.orders ( id ) ~ON ~UPDATE CASCADE ~ON ~DELETE Restrict , "
        "~CONSTRAINT chk_age ~CHECK ( age >= 18 ) ) ;",
        dict(kind="table", table_name="Items", schema=None, columns=[
            dict(name="id", type="INT", default=None, ref=None), dict(name="order_id", type="int", default=None, ref=None),
            dict(name="kind", type="varchar", default=None, ref=None), dict(name="lvl", type="int", default=None, ref=None),
            dict(name="age", type="int", default=None, ref=None), dict(name="update_ts", type="date", default=None, ref=None)]))]
    # the shape of seeded change 2: CHECK first, keyword-inspecting clauses later in the same statement
    u["table-check-then-ref"] = [Stmt("table",
        "~CREATE ~TABLE orders ( id INT ~NOT ~NULL , qty INT ~CHECK ( qty > 0 ) , customer_id INT ~REFERENCES customers ( id ) ~ON ~DELETE CASCADE "
        "~ON ~UPDATE Restrict , code VARCHAR ( 10 ) ~DEFAULT 'x' ~NOT ~NULL , flag int ~NULL , u int ~UNIQUE , ~PRIMARY ~KEY ( id ) ) ;",
        dict(kind="table", table_name="orders", schema=None, columns=[
            dict(name="id", type="INT", default=None, ref=None), dict(name="qty", type="INT", default=None, ref=None),
            dict(name="customer_id", type="INT", default=None, ref=dict(table="customers", schema=None, column="id", on_delete="CASCADE", on_update="Restrict")),
            dict(name="code", type="VARCHAR", default="'x'", ref=None), dict(name="flag", type="int", default=None, ref=None),
            dict(name="u", type="int", default=None, ref=None)]))]
    u["table-kwish-names"] = [Stmt("table",
        "~CREATE ~TABLE t_kw ( update int , Order int ~NOT ~NULL , key varchar ( 5 ) , settings int , goal int , user_id int , created_at date , "
        "grants int , dropped int , deleted int ~DEFAULT 0 , inserted int , altered int , used int , go_live int ) ;",
        dict(kind="table", table_name="t_kw", schema=None, columns=[dict(name=n, type=t, default=d, ref=None) for n, t, d in [
            ("update", "int", None), ("Order", "int", None), ("key", "varchar", None), ("settings", "int", None), ("goal", "int", None), ("user_id", "int", None),
            ("created_at", "date", None), ("grants", "int", None), ("dropped", "int", None), ("deleted", "int", 0), ("inserted", "int", None),
            ("altered", "int", None), ("used", "int", None), ("go_live", "int", None)]]))]
    # a literal with an escaped quote (MySQL style) before other literals and sized types: how much white space stands around the
    # commas / parentheses that follow it does not matter (the value of that one default is C07's business: not stated here)
    u["table-escaped-quote-first"] = [Stmt("table",
        "~CREATE ~TABLE esc_q ( note varchar ( 20 ) ~DEFAULT 'it\\'s' , price decimal ( 10 , 2 ) , code char ( 3 ) ~DEFAULT 'x' , b int ~NOT ~NULL ) ;",
        dict(kind="table", table_name="esc_q", schema=None, columns=[
            dict(name="note", type="varchar", default=None, ref=None), dict(name="price", type="decimal", default=None, ref=None),
            dict(name="code", type="char", default="'x'", ref=None), dict(name="b", type="int", default=None, ref=None)]))]
    # T-SQL IDENTITY: a column option keyword like any other (its letter case does not matter)
    u["table-identity"] = [Stmt("table",
        "~CREATE ~TABLE idn_t ( id int ~IDENTITY ( 1 , 1 ) ~NOT ~NULL , label varchar ( 20 ) ~NULL , seq_no bigint ~IDENTITY ( 100 , 5 ) ) ;",
        dict(kind="table", table_name="idn_t", schema=None, columns=[
            dict(name="id", type="int", default=None, ref=None), dict(name="label", type="varchar", default=None, ref=None),
            dict(name="seq_no", type="bigint", default=None, ref=None)]))]
    base = "~CREATE ~TABLE emp ( id int , dept int , code varchar ( 4 ) ) ;"
    bf = dict(kind="table", table_name="emp", schema=None, columns=[dict(name="id", type="int", default=None, ref=None), dict(name="dept", type="int", default=None, ref=None),
                                                                    dict(name="code", type="varchar", default=None, ref=None)])
    alters = {
        "alter-add": "~ALTER ~TABLE emp ~ADD created_at decimal ( 8 , 2 ) ;",
        "alter-add-default": "~ALTER ~TABLE ~IF ~EXISTS emp ~ADD settings varchar ( 10 ) ~DEFAULT 'Abc' ;",
        "alter-drop": "~ALTER ~TABLE emp ~DROP ~COLUMN dept ;",
        "alter-rename": "~ALTER ~TABLE emp ~RENAME ~COLUMN dept ~TO Dept_No ;",
        "alter-modify-column": "~ALTER ~TABLE emp ~MODIFY ~COLUMN code varchar ( 8 ) ;",
        "alter-modify": "~ALTER ~TABLE emp ~MODIFY code varchar ( 8 ) ;",
        "alter-alter-column": "~ALTER ~TABLE emp ~ALTER ~COLUMN code varchar ( 8 ) ;",
        "alter-pk": "~ALTER ~TABLE emp ~ADD ~PRIMARY ~KEY ( id , dept ) ;",
        "alter-cpk": "~ALTER ~TABLE emp ~ADD ~CONSTRAINT Pk_emp ~PRIMARY ~KEY ( id ) ;",
        "alter-unique": "~ALTER ~TABLE emp ~ADD ~UNIQUE ( code ) ;",
        "alter-cunique": "~ALTER ~TABLE emp ~ADD ~CONSTRAINT uq_emp ~UNIQUE ( code , dept ) ;",
        "alter-fk": "~ALTER ~TABLE emp ~ADD ~FOREIGN ~KEY ( dept ) ~REFERENCES depts ( id ) ~ON ~DELETE CASCADE ~ON ~UPDATE Restrict ;",
        "alter-cfk": "~ALTER ~TABLE emp ~ADD ~CONSTRAINT fk_d ~FOREIGN ~KEY ( dept , code ) ~REFERENCES hr.Depts ( id , code ) ~ON ~UPDATE CASCADE ;",
        "alter-check": "~ALTER ~TABLE emp ~ADD ~CHECK ( dept > 0 ) ;",
        "alter-ccheck": "~ALTER ~TABLE emp ~ADD ~CONSTRAINT ck_d ~CHECK ( dept >= 10 ) ;",
        "alter-cdefault": "~ALTER ~TABLE emp ~ADD ~CONSTRAINT df_d ~DEFAULT 0 ~FOR dept ;",
    }
    for k, a in alters.items():
        u[k] = [Stmt("table", base, bf), Stmt("alter", a, dict(kind="alter"))]
    u["index-unique"] = [Stmt("table", base, bf), Stmt("index", "~CREATE ~UNIQUE ~INDEX emp_ix ~ON emp ( code ~DESC , id ) ;", dict(kind="index", index_name="emp_ix", columns=["code", "id"], unique=True))]
    u["index-plain"] = [Stmt("table", base, bf), Stmt("index", "~CREATE ~INDEX Emp_Ix2 ~ON emp ( id ~ASC , dept ~DESC , code ) ;", dict(kind="index", index_name="Emp_Ix2", columns=["id", "dept", "code"], unique=False))]
    u["index-noorder"] = [Stmt("table", base, bf), Stmt("index", "~CREATE ~CLUSTERED ~INDEX ix3 ~ON emp ( dept , id ) ;", dict(kind="index", index_name="ix3", columns=["dept", "id"], unique=False))]
    u["sequence-all"] = [Stmt("sequence", "~CREATE ~SEQUENCE dev.Ids ~INCREMENT ~BY 5 ~START ~WITH 10 ~MINVALUE 1 ~NO ~MAXVALUE ~CACHE 20 ~NOORDER ;",
                              dict(kind="sequence", sequence_name="Ids", schema="dev", options=dict(increment_by=5, start_with=10, minvalue=1, maxvalue=False, cache=20, noorder=True)))]
    u["sequence-short"] = [Stmt("sequence", "~CREATE ~SEQUENCE seq_1 ~INCREMENT 2 ~START 7 ~MAXVALUE 1000 ~NO ~MINVALUE ~CACHE ~ORDER ;",
                                dict(kind="sequence", sequence_name="seq_1", schema=None, options=dict(increment=2, start=7, maxvalue=1000, minvalue=False, cache=True, order=True)))]
    # several statements in one script: state carried from one statement into the next would show here
    u["script-mixed"] = [u["table-check-then-ref"][0], u["sequence-all"][0], Stmt("table", base, bf), Stmt("alter", alters["alter-cfk"], dict(kind="alter")),
                         Stmt("index", "~CREATE ~INDEX i9 ~ON emp ( id ) ;", dict(kind="index", index_name="i9", columns=["id"], unique=False)),
                         Stmt("alter", alters["alter-add"], dict(kind="alter")), u["table-kwish-names"][0]]
    return u


def random_unit(rnd, n):
    """1-4 tables, each possibly followed by ALTERs / an index; sequences in between"""
    unit = []
    for ti in range(rnd.randint(1, 3)):
        tname = rnd.choice(["t", "Tab", "users", "Order_Items"]) + str(ti)
        schema = rnd.choice([None, None, "s1", "Dbo"])
        tb = gen_table(rnd, tname, schema)
        unit.append(tb)
        cols = [c["name"] for c in tb.facts["columns"] if c["name"] not in KWISH_COLS]
        r = rnd.random() if cols else 1.0
        if r < 0.45:
            unit.append(gen_alter(rnd, tname, schema, cols))
        if 0.3 < r < 0.7:
            unit.append(gen_index(rnd, "ix_%d" % ti, tname, schema, cols))
        if rnd.random() < 0.3:
            unit.append(gen_sequence(rnd, "Seq%d" % ti, rnd.choice([None, "dev"])))
    return unit


# ------------------------------------------------------------------------------------------------ facts (identifiers / types / values as written)
def check_facts(unit, res):
    """the canonical result carries the names, types and values the generator wrote -> list of problems"""
    probs = []
    tables = [e for e in res if isinstance(e, dict) and "table_name" in e]
    seqs = [e for e in res if isinstance(e, dict) and "sequence_name" in e]
    exp_t = [st for st in unit if st.family == "table"]
    exp_s = [st for st in unit if st.family == "sequence"]
    if len(tables) != len(exp_t):
        return ["%d tables reported, %d written" % (len(tables), len(exp_t))]
    if len(seqs) != len(exp_s):
        return ["%d sequences reported, %d written" % (len(seqs), len(exp_s))]
    for got, st in zip(tables, exp_t):
        f = st.facts
        if got.get("table_name") != f["table_name"] or got.get("schema") != f["schema"]:
            probs.append("table %r.%r reported as %r.%r" % (f["schema"], f["table_name"], got.get("schema"), got.get("table_name")))
    for got, st in zip(seqs, exp_s):
        f = st.facts
        if got.get("sequence_name") != f["sequence_name"] or got.get("schema") != f["schema"]:
            probs.append("sequence name %r reported as %r" % (f["sequence_name"], got.get("sequence_name")))
        for k, v in f["options"].items():
            if got.get(k) != v:
                probs.append("sequence option %s=%r reported as %r" % (k, v, got.get(k)))
    # columns of a table that no ALTER touches
    altered = set()
    cur = None
    for st in unit:
        if st.family == "table":
            cur = st
        elif st.family == "alter":
            altered.add(id(cur))
    for got, st in zip(tables, exp_t):
        if id(st) in altered:
            continue
        gc = got.get("columns", [])
        ec = st.facts["columns"]
        if [c.get("name") for c in gc] != [c["name"] for c in ec]:
            probs.append("columns of %s: written %r reported %r" % (st.facts["table_name"], [c["name"] for c in ec], [c.get("name") for c in gc]))
            continue
        for g, e in zip(gc, ec):
            if g.get("type") != e["type"]:
                probs.append("type of %s: written %r reported %r" % (e["name"], e["type"], g.get("type")))
            if e["default"] is not None and g.get("default") != e["default"]:
                probs.append("default of %s: written %r reported %r" % (e["name"], e["default"], g.get("default")))
            if e["ref"] is not None:
                r = g.get("references") or {}
                for k in ("table", "schema", "on_delete", "on_update"):
                    if r.get(k) != e["ref"][k]:
                        probs.append("references.%s of %s: written %r reported %r" % (k, e["name"], e["ref"][k], r.get(k)))
    # index names / columns
    idx = [i for t in tables for i in (t.get("index") or [])]
    exp_i = [st for st in unit if st.family == "index"]
    if len(idx) != len(exp_i):
        probs.append("%d indexes reported, %d written" % (len(idx), len(exp_i)))
    else:
        for g, st in zip(idx, exp_i):
            if g.get("index_name") != st.facts["index_name"] or g.get("columns") != st.facts["columns"] or g.get("unique") != st.facts["unique"]:
                probs.append("index %r %r reported as %r %r" % (st.facts["index_name"], st.facts["columns"], g.get("index_name"), g.get("columns")))
    # every ALTER leaves a non-empty alter record on its table
    n_alt = sum(1 for st in unit if st.family == "alter")
    if n_alt and not any(t.get("alter") for t in tables):
        probs.append("no alter record although %d ALTER statements were written" % n_alt)
    return probs


# ------------------------------------------------------------------------------------------------ difference description
def first_diff(a, b, path=""):
    """path of the first difference between two JSON-like values, list indices dropped"""
    if type(a) is not type(b):
        return path or "value"
    if isinstance(a, dict):
        for k in sorted(set(a) | set(b), key=str):
            if k not in b:
                return (path + "." if path else "") + "unexpected-key"       # a: observed, b: expected
            if k not in a:
                return (path + "." if path else "") + str(k) + "-missing"
            d = first_diff(a[k], b[k], (path + "." if path else "") + str(k))
            if d:
                return d
        return None
    if isinstance(a, list):
        if len(a) != len(b):
            return (path or "list") + ".length"
        for x, y in zip(a, b):
            d = first_diff(x, y, path)
            if d:
                return d
        return None
    return None if a == b else (path or "value")


def describe(got, exp):
    """observed-difference part of a witness class"""
    if got[0] != "ok":
        return "exception-" + got[1]
    g, e = got[1], exp
    if not isinstance(g, list):
        return "result-not-a-list"
    if len(g) < len(e):
        return "entity-lost"
    if len(g) > len(e):
        return "extra-entity"
    for x, y in zip(g, e):
        if isinstance(x, dict) and isinstance(y, dict) and "columns" in x and "columns" in y and isinstance(x["columns"], list) and isinstance(y["columns"], list):
            if len(x["columns"]) < len(y["columns"]):
                return "column-lost"
            if len(x["columns"]) > len(y["columns"]):
                return "extra-column"
    d = first_diff(g, e) or "unknown"
    return "differs-at-" + d


# ------------------------------------------------------------------------------------------------ the check
INLINE_MAND = [" ", "  ", "\t", " \t ", "     "]
INLINE_OPT = ["", " ", "  ", "\t"]
BREAKS = ["\n", "\n    ", "\n\t", " \n  ", "\n\n", "\n \n  ", "\t\n ", "\r\n", "\r\n  "]
BETWEEN = ["\n", "\n\n", "\n  ", "\n\n\n\t", " \n", "\n \n"]
BREAK_FORMS = ["\n", "\n    ", " \n\t", "\r\n"]


def _digest(txt):
    return hashlib.md5(txt.encode("utf-8")).hexdigest()[:12]


class _Run:
    def __init__(self, ck):
        self.ck = ck
        self.canon = {}

    def canonical(self, uid, unit, mode="sql"):
        k = (uid, mode)
        if k not in self.canon:
            lay = Layout(unit)
            self.canon[k] = (lay.text(), parse(lay.text(), output_mode=mode))
        return self.canon[k]

    def one(self, set_name, dim, uid, unit, lay, known_only=False, mode="sql"):
        """known_only: the set is dedicated to the known families - renderings outside them are skipped;
        otherwise the rendering is first moved out of the string-literal families (step_out)"""
        ctext, cres = self.canonical(uid, unit, mode)
        if cres[0] != "ok":
            return
        if known_only:
            if input_class(lay) is None:
                return
        else:
            step_out(lay)
        txt = lay.text()
        if txt == ctext:
            return
        key = (uid, _digest(txt)) if mode == "sql" else (uid, _digest(txt), mode)
        if (set_name, key) in self.ck.distinct:
            return
        got = parse(txt, output_mode=mode)
        same = got[0] == "ok" and jdump(got[1]) == jdump(cres[1])
        if known_only:
            tally = self.ck.notes.setdefault("string_family_inputs_fail_pass", {}).setdefault(input_class(lay), [0, 0])
            tally[1 if same else 0] += 1
        if same:
            self.ck.ok(set_name, key, dict(ddl=txt[:300]))
            return
        cls = input_class(lay)
        if cls is None:
            cls = "c05:%s:%s" % (dim, describe(got, cres[1]))
        info = dict(ddl=txt, canonical_ddl=ctext, observed=got[1] if got[0] == "ok" else list(got), expected=cres[1])
        if mode != "sql":
            info["run"] = dict(output_mode=mode)
        self.ck.fail(set_name, key, cls, info)


def layouts_case(rnd, unit, level):
    """keyword-case renderings, canonical spacing.  level 0: small, 1: medium, 2: exhaustive single flips"""
    out = []

    def mk(fn):
        lay = Layout(unit)
        for s, st in enumerate(unit):
            for i in st.kw_idx():
                lay.texts[s][i] = recase(st.tokens[i][0], fn(s, i), rnd)
        return lay
    for style in ("l", "T", "a", "A", "e"):
        out.append(mk(lambda s, i, style=style: style))
    for k in range([1, 2, 6][level]):
        out.append(mk(lambda s, i: "r"))
        out.append(mk(lambda s, i: rnd.choice("UlTaAe")))
    all_kw = [(s, i) for s, st in enumerate(unit) for i in st.kw_idx()]
    # one keyword at a time lower-case (rest upper), and one keyword at a time upper-case (rest lower)
    for (s0, i0) in (all_kw if level else rnd.sample(all_kw, min(len(all_kw), 10))):
        out.append(mk(lambda s, i: "l" if (s, i) == (s0, i0) else "U"))
    for (s0, i0) in (all_kw if level == 2 else rnd.sample(all_kw, min(len(all_kw), 5))):
        out.append(mk(lambda s, i: "U" if (s, i) == (s0, i0) else "l"))
    # everything lower-case from keyword k on (a flag set by an earlier keyword changes how later ones are treated)
    for (s0, i0) in (all_kw if level == 2 else all_kw[::3] if level else all_kw[::7]):
        out.append(mk(lambda s, i: "l" if (s, i) >= (s0, i0) else "U"))
    return out


def layouts_space(rnd, unit, level):
    """blank / tab renderings on one line per statement, canonical case"""
    out = []

    def mk(mand, opt):
        lay = Layout(unit)
        for s, st in enumerate(unit):
            for g in range(st.ngaps()):
                o = optional_gap(st.tokens[g], st.tokens[g + 1])
                lay.seps[s][g] = (opt(s, g) if o else mand(s, g))
        return lay
    out.append(mk(lambda s, g: " ", lambda s, g: ""))       # tight
    out.append(mk(lambda s, g: " ", lambda s, g: " "))      # loose
    out.append(mk(lambda s, g: "  ", lambda s, g: "  "))    # double
    out.append(mk(lambda s, g: "\t", lambda s, g: "\t"))    # tabs
    out.append(mk(lambda s, g: "\t", lambda s, g: ""))      # tabs, tight
    out.append(mk(lambda s, g: " \t ", lambda s, g: "   "))
    for k in range([2, 3, 12][level]):
        out.append(mk(lambda s, g: rnd.choice(INLINE_MAND), lambda s, g: rnd.choice(INLINE_OPT)))
    # one optional gap at a time: glued while everything else is canonical, and the reverse
    gaps = [(s, g) for s, st in enumerate(unit) for g in range(st.ngaps()) if optional_gap(st.tokens[g], st.tokens[g + 1])]
    for (s0, g0) in (gaps if level == 2 else rnd.sample(gaps, min(len(gaps), [6, 12][level]))):
        lay = Layout(unit)
        lay.seps[s0][g0] = "" if lay.seps[s0][g0] else " "
        out.append(lay)
    return out


def layouts_break(rnd, unit, level):
    """one line break at a time at every gap the proviso allows, then breaks at whole classes of gaps"""
    out = []
    gaps = [(s, g) for s, st in enumerate(unit) for g in range(st.ngaps()) if st.break_ok(g)]
    if level == 0:
        gaps = rnd.sample(gaps, min(len(gaps), 24))
    for (s, g) in gaps:
        forms = BREAK_FORMS if level == 2 else [BREAK_FORMS[(s + g) % len(BREAK_FORMS)]]
        for b in forms:
            lay = Layout(unit)
            lay.seps[s][g] = b
            out.append(lay)
    for b in ("\n", "\n  "):
        lay = Layout(unit)
        for s, st in enumerate(unit):
            for g in range(st.ngaps()):
                if st.break_ok(g):
                    lay.seps[s][g] = b
        out.append(lay)
    for pred in (lambda a, b: a[0] == ",", lambda a, b: b[0] == ",", lambda a, b: a[0] == "(" or b[0] == ")", lambda a, b: b[1] == K, lambda a, b: a[1] == K,
                 lambda a, b: b[1] in (I, N, S)):
        lay = Layout(unit)
        for s, st in enumerate(unit):
            for g in range(st.ngaps()):
                if st.break_ok(g) and pred(st.tokens[g], st.tokens[g + 1]):
                    lay.seps[s][g] = "\n"
        out.append(lay)
    return out


def layouts_blank(rnd, unit, level):
    """blank lines inside and between statements, leading / trailing blank lines and indentation of statement starts"""
    out = []
    for k, (lead, btw, tail) in enumerate([("\n", "\n\n", "\n"), ("\n\n  ", "\n   \n\t", "\n\n"), ("  ", "\n  ", " "), ("", " \n", "\n"), ("\t", "\n\n\n", "\t\n")]):
        lay = Layout(unit)
        lay.between = [lead] + [btw] * (len(unit) - 1)
        lay.tail = tail
        out.append(lay)
    for k in range([2, 3, 10][level]):
        lay = Layout(unit)
        for s, st in enumerate(unit):
            for g in range(st.ngaps()):
                if st.break_ok(g) and rnd.random() < 0.3:
                    lay.seps[s][g] = rnd.choice(["\n\n", "\n \n  ", "\n\n\n", "\n\t\n "])
        lay.between = [rnd.choice(["", "\n", "  "])] + [rnd.choice(BETWEEN) for _ in unit[1:]]
        lay.tail = rnd.choice(["", "\n", "\n\n", " "])
        out.append(lay)
    return out


def layout_random(rnd, unit, crlf=False, p_break=0.25):
    lay = Layout(unit)
    mode = rnd.choice(["r", "style", "l", "T", "U"])
    for s, st in enumerate(unit):
        for i in st.kw_idx():
            style = "r" if mode == "r" else rnd.choice("UlTaAe") if mode == "style" else mode
            lay.texts[s][i] = recase(st.tokens[i][0], style, rnd)
        for g in range(st.ngaps()):
            o = optional_gap(st.tokens[g], st.tokens[g + 1])
            if st.break_ok(g) and rnd.random() < p_break:
                lay.seps[s][g] = rnd.choice(BREAKS)
            else:
                lay.seps[s][g] = rnd.choice(INLINE_OPT if o else INLINE_MAND)
    lay.between = [rnd.choice(["", "", "\n", "  "])] + [rnd.choice(BETWEEN) for _ in unit[1:]]
    lay.tail = rnd.choice(["", "\n", " ", "\n\n"])
    if crlf:
        def crlf_(x):
            return x.replace("\r\n", "\n").replace("\n", "\r\n")
        lay.seps = [[crlf_(x) for x in row] for row in lay.seps]
        lay.between = [crlf_(x) for x in lay.between]
        lay.tail = crlf_(lay.tail)
    return lay


def pretty(unit, nl="\n", indent="    "):
    """the usual hand-written layout: one column / clause per line"""
    lay = Layout(unit)
    for s, st in enumerate(unit):
        depth = 0
        for g in range(st.ngaps()):
            a, b = st.tokens[g], st.tokens[g + 1]
            if a[0] == "(":
                depth += 1
            if b[0] == ")":
                depth -= 1
            if st.family == "table" and ((a[0] == "(" and depth == 1) or (a[0] == "," and depth == 1)) and st.break_ok(g):
                lay.seps[s][g] = nl + indent
            elif st.family == "table" and b[0] == ")" and depth == 0:
                lay.seps[s][g] = nl
            elif st.family in ("alter", "sequence") and b[1] == K and g > 2 and st.break_ok(g) and a[1] != K:
                lay.seps[s][g] = nl + indent
    lay.between = [""] + [nl + nl] * (len(unit) - 1)
    lay.tail = nl
    return lay


def layouts_string_families(rnd, unit):
    """renderings inside the string-literal families, one string literal at a time, everything else canonical"""
    out = []
    for s, st in enumerate(unit):
        for j, t in enumerate(st.tokens):
            if t[1] != S or j == 0:
                continue
            prev = st.tokens[j - 1]
            variants = []
            if st.break_ok(j - 1):
                variants += [{j - 1: "\n"}, {j - 1: "\r\n"}]
            if prev[0] in (",", ")"):
                variants += [{j - 1: ""}, {j - 1: "\t"}]
                if j >= 2:
                    variants += [{j - 1: "", j - 2: ""}, {j - 1: "\t", j - 2: ""}]
            elif j >= 2 and st.tokens[j - 2][0] in (",", ")"):
                variants.append({j - 1: "\t", j - 2: ""})
            for v in variants:
                lay = Layout(unit)
                for g, sep in v.items():
                    lay.seps[s][g] = sep
                out.append(lay)
    return out


# ------------------------------------------------------------------------------------------------ corpus re-rendering
_FOUR = re.compile(r"^\s*(CREATE\s+(OR\s+REPLACE\s+)?((TEMPORARY|TEMP|EXTERNAL|TRANSIENT|GLOBAL\s+TEMPORARY)\s+)?TABLE\b|ALTER\s+TABLE\b|"
                   r"CREATE\s+(UNIQUE\s+)?(CLUSTERED\s+)?INDEX\b|CREATE\s+SEQUENCE\b)", re.I)
_STMT_WORD = re.compile(r"^(CREATE|ALTER|DROP|SET|GO|USE|INSERT|GRANT|DELETE)\b", re.I)


def corpus_tokens(ddl):
    """structure-blind scan: -> list of (text, kind) with kind in {'w' word, 'q' quoted region, 'p' one of ( ) ,} and the
    list of gaps (whitespace runs, possibly empty) between them; None when the text leaves the fragment this scan is
    safe for (comments, escapes, angle-bracket types, unbalanced quotes, CR)"""
    if any(x in ddl for x in ("--", "/*", "*/", "#", "\\", "''", "\r", "<", ">", "$$", "\x0b", "\x0c")) or not ddl.isascii():
        return None
    toks_, gaps = [], []
    i, n = 0, len(ddl)
    lead = ""
    cur_gap = ""
    first = True
    closers = {"'": "'", '"': '"', "`": "`", "[": "]"}
    while i < n:
        c = ddl[i]
        if c in " \t\n":
            j = i
            while j < n and ddl[j] in " \t\n":
                j += 1
            cur_gap += ddl[i:j]
            i = j
            continue
        if first:
            lead = cur_gap
            first = False
        else:
            gaps.append(cur_gap)
        cur_gap = ""
        if c in "(),":
            toks_.append((c, "p"))
            i += 1
            continue
        # a chunk: up to whitespace or ( ) , outside quotes; quoted regions are swallowed whole
        j = i
        quoted = False
        while j < n and ddl[j] not in " \t\n(),":
            if ddl[j] in closers:
                k = ddl.find(closers[ddl[j]], j + 1)
                if k < 0:
                    return None
                if "\n" in ddl[j:k]:
                    return None
                quoted = True
                j = k + 1
            else:
                j += 1
        toks_.append((ddl[i:j], "q" if quoted else "w"))
        i = j
    if not toks_:
        return None
    return toks_, gaps, lead, cur_gap


def corpus_eligible(ddl):
    """scripts made only of ;-terminated statements of the four families, each starting on its own line, no line that
    starts with a statement-level word inside a statement"""
    sc = corpus_tokens(ddl)
    if sc is None:
        return None
    lines = [ln.strip() for ln in ddl.split("\n")]
    lines = [ln for ln in lines if ln]
    if not lines or not lines[-1].endswith(";"):
        return None
    prev_closed = True
    n_stmt = 0
    for ln in lines:
        if _STMT_WORD.match(ln):
            if not prev_closed or not _FOUR.match(ln):
                return None
            n_stmt += 1
        elif prev_closed:
            return None          # something else starts here
        prev_closed = ln.endswith(";")
        if ";" in ln[:-1]:
            return None          # two statements on one line
    return sc if n_stmt else None


_PHRASES = [("NOT", "NULL"), ("PRIMARY", "KEY"), ("FOREIGN", "KEY"), ("IF", "NOT", "EXISTS"), ("IF", "EXISTS"), ("CREATE", "TABLE"), ("ALTER", "TABLE"),
            ("CREATE", "INDEX"), ("CREATE", "UNIQUE", "INDEX"), ("CREATE", "SEQUENCE"), ("CREATE", "OR", "REPLACE", "TABLE")]


def corpus_render(sc, rnd, move):
    toks_, gaps, lead, tail = sc
    toks_ = list(toks_)
    gaps = list(gaps)

    def stmt_start(k):
        return toks_[k][1] == "w" and toks_[k][0].upper().rstrip(";") in PROVISO

    def col0_risk(k):
        return re.match(r"\w*'", toks_[k][0]) is not None
    if move == "case":
        style = rnd.choice(["l", "T", "a"])
        words = [t[0].upper() if t[1] == "w" else None for t in toks_]
        for ph in _PHRASES:
            for k in range(len(toks_) - len(ph) + 1):
                if tuple(words[k:k + len(ph)]) == ph:
                    if ph[0] in ("CREATE", "ALTER") and not (k == 0 or "\n" in gaps[k - 1]):
                        continue
                    for m in range(len(ph)):
                        toks_[k + m] = (recase(ph[m], style), "w")
    elif move in ("tight", "loose", "tight-bare"):
        for g in range(len(gaps)):
            if (toks_[g][1] == "p" or toks_[g + 1][1] == "p") and "\n" not in gaps[g]:
                if move == "tight" and col0_risk(g + 1) and toks_[g][0] in (",", ")"):
                    continue        # stays outside the string-literal families
                gaps[g] = " " if move == "loose" else ""
    elif move in ("tabs", "double"):
        for g in range(len(gaps)):
            if gaps[g] and "\n" not in gaps[g]:
                gaps[g] = ("\t\t" if col0_risk(g + 1) else "\t") if move == "tabs" else "  "
            elif "\n" in gaps[g]:
                gaps[g] = gaps[g].replace(" ", "\t") if move == "tabs" else gaps[g].replace(" ", "  ")
    elif move == "join":
        for g in range(len(gaps)):
            if "\n" in gaps[g] and not stmt_start(g + 1):
                gaps[g] = " "
    elif move == "blank-lines":
        for g in range(len(gaps)):
            if "\n" in gaps[g]:
                gaps[g] = gaps[g].replace("\n", "\n\n", 1)
        lead, tail = "\n\n" + lead, tail + "\n\n"
    elif move == "break-every":
        for g in range(len(gaps)):
            if gaps[g] and not stmt_start(g + 1) and "\n" not in gaps[g]:
                gaps[g] = "\n  " if col0_risk(g + 1) else rnd.choice(["\n", "\n  "])
    elif move == "break-some":
        for g in range(len(gaps)):
            if gaps[g] and not stmt_start(g + 1) and "\n" not in gaps[g] and rnd.random() < 0.25:
                gaps[g] = "\n  " if col0_risk(g + 1) else rnd.choice(["\n", "\n  ", " \n\t"])
    elif move == "tabs-bare":
        for g in range(len(gaps)):
            if gaps[g] and "\n" not in gaps[g]:
                gaps[g] = "\t"
    elif move == "break-bare":
        for g in range(len(gaps)):
            if gaps[g] and not stmt_start(g + 1) and "\n" not in gaps[g] and col0_risk(g + 1):
                gaps[g] = "\n"
    elif move == "crlf":
        gaps = [g.replace("\n", "\r\n") for g in gaps]
        lead, tail = lead.replace("\n", "\r\n"), tail.replace("\n", "\r\n")
    out = [lead]
    for k, t in enumerate(toks_):
        out.append(t[0])
        if k < len(gaps):
            out.append(gaps[k])
    out.append(tail)
    return "".join(out), [t[0] for t in toks_], gaps


def corpus_class(txt, texts, gaps, orig):
    """known family of a moved corpus script (only families the move introduced: the original is the reference)"""
    f, f0 = string_family_positions(texts, gaps), string_family_positions([t[0] for t in orig[0]], orig[1])
    new = [fam for j, fam in f.items() if f0.get(j) != fam]
    if new:
        return "c05:corpus-" + STRING_FAMILIES[min(new)]
    return None


# ------------------------------------------------------------------------------------------------ entry point
def check(ck):
    rnd = ck.rnd
    quick = ck.quick()
    run = _Run(ck)
    fixed = fixed_units()
    units = dict(fixed)
    n_rand_units = 10 if quick else 90
    for k in range(n_rand_units):
        units["random-%d" % k] = random_unit(rnd, k)
    skipped = 0
    # canonical results + facts
    for uid, unit in list(units.items()):
        ctext, cres = run.canonical(uid, unit)
        if cres[0] != "ok":
            if uid.startswith("random-"):
                skipped += 1
                ck.notes.setdefault("random_units_outside_fragment", []).append(dict(ddl=ctext[:400], problems=list(cres[1:])))
            else:
                ck.fail("canonical-facts", uid, "c05:canonical-rendering-raises", dict(ddl=ctext, observed=list(cres)))
            del units[uid]
            continue
        probs = check_facts(unit, cres[1])
        if probs:
            if uid.startswith("random-"):
                # the generator left the fragment (e.g. a keyword-shaped name in a position where it is not accepted): not C05's business
                skipped += 1
                ck.notes.setdefault("random_units_outside_fragment", []).append(dict(ddl=ctext[:400], problems=probs[:3]))
                del units[uid]
            else:
                ck.fail("canonical-facts", uid, "c05:identifier-type-or-value-not-as-written", dict(ddl=ctext, observed=cres[1], expected=probs))
        else:
            ck.ok("canonical-facts", uid, dict(ddl=ctext[:300]))
    ck.notes["random_units_skipped"] = skipped

    for uid, unit in units.items():
        big = uid.startswith("script-") or uid.startswith("random-")
        level = (0 if big else 1) if quick else (1 if big else 2)
        # (1) keyword case
        for lay in layouts_case(rnd, unit, level):
            run.one("keyword-case", "case", uid, unit, lay)
        # (2) blanks and tabs
        for lay in layouts_space(rnd, unit, level):
            run.one("blanks-tabs", "space", uid, unit, lay)
        # (3) line breaks
        for lay in layouts_break(rnd, unit, level):
            run.one("line-breaks", "break", uid, unit, lay)
        for nl_ind in (("\n", "    "), ("\n", "\t"), ("\n", "")):
            run.one("line-breaks", "break", uid, unit, pretty(unit, *nl_ind))
        for lay in layouts_string_families(rnd, unit):
            run.one("string-literal-after-break-or-tab", "break", uid, unit, lay, known_only=True)
        # (4) blank lines, indentation, leading / trailing text
        for lay in layouts_blank(rnd, unit, level):
            run.one("blank-lines", "blank", uid, unit, lay)
        # (5) everything at once
        for k in range((10 if big else 14) if quick else (80 if big else 150)):
            # thorough: the output mode rotates over all 15 (the reference is the canonical rendering in the same mode)
            run.one("mixed", "mixed", uid, unit, layout_random(rnd, unit, p_break=rnd.choice([0.1, 0.25, 0.5])), mode="sql" if (quick or k % 3) else MODES[(k // 3) % len(MODES)])
        for k in range(1 if quick else 6):
            run.one("mixed-string-families", "mixed", uid, unit, layout_random(rnd, unit, crlf=bool(k % 2)), known_only=True)
        # (6) CRLF everywhere (single CRLF breaks among LF ones are part of the line-break and mixed sets)
        run.one("crlf", "crlf", uid, unit, pretty(unit, "\r\n", "    "))
        run.one("crlf", "crlf", uid, unit, pretty(unit, "\r\n", ""))
        lay = Layout(unit)
        lay.between = [""] + ["\r\n"] * (len(unit) - 1)
        lay.tail = "\r\n"
        run.one("crlf", "crlf", uid, unit, lay)
        for k in range(3 if quick else 10):
            run.one("crlf", "crlf", uid, unit, layout_random(rnd, unit, crlf=True, p_break=rnd.choice([0.1, 0.25, 0.5])))

    # (7) regression corpus, structure-blind moves
    cp = corpus()
    elig = []
    for cid, ddl in cp:
        sc = corpus_eligible(ddl)
        if sc is None:
            continue
        base = parse(ddl)
        if base[0] != "ok" or not base[1]:
            continue
        elig.append((cid, ddl, sc, base[1]))
    ck.notes["corpus_scripts"] = len(cp)
    ck.notes["corpus_scripts_in_fragment"] = len(elig)
    moves = ["case", "tight", "loose", "tabs", "double", "join", "blank-lines", "break-every", "break-some", "crlf", "tabs-bare", "break-bare", "tight-bare"]
    sets = {"case": "corpus-case", "crlf": "corpus-crlf", "tabs-bare": "corpus-string-literal-after-break-or-tab", "break-bare": "corpus-string-literal-after-break-or-tab", "tight-bare": "corpus-string-literal-after-break-or-tab",
            "join": "corpus-breaks", "blank-lines": "corpus-breaks", "break-every": "corpus-breaks", "break-some": "corpus-breaks"}
    for n, (cid, ddl, sc, base) in enumerate(elig):
        todo = moves if not quick else [moves[(n + 5 * j) % len(moves)] for j in range(4)]
        for mv in todo:
            for rep in range(1 if (quick or mv not in ("break-some", "case")) else 4):
                txt, texts, gaps = corpus_render(sc, rnd, mv)
                if txt == ddl:
                    continue
                set_name = sets.get(mv, "corpus-blanks")
                key = (cid, _digest(txt))
                if (set_name, key) in ck.distinct:
                    continue
                got = parse(txt)
                same = got[0] == "ok" and jdump(got[1]) == jdump(base)
                fam = corpus_class(txt, texts, gaps, sc)
                if fam:
                    tally = ck.notes.setdefault("string_family_inputs_fail_pass", {}).setdefault(fam, [0, 0])
                    tally[1 if same else 0] += 1
                if same:
                    ck.ok(set_name, key)
                    continue
                cls = fam or "c05:corpus-%s:%s" % (mv, describe(got, base))
                ck.fail(set_name, key, cls, dict(ddl=txt, original_ddl=ddl, move=mv, observed=got[1] if got[0] == "ok" else list(got), expected=base))

    rule = ("abstract statements of the four families (CREATE TABLE with every core column option / table constraint, 16 ALTER TABLE kinds, CREATE [UNIQUE|CLUSTERED] INDEX, "
            "CREATE SEQUENCE; %d hand-written units + %d random scripts of 1-10 statements) rendered with per-keyword case patterns x per-gap separators "
            "(blank, blanks, tab, none next to , ( ) ;) x line-break sets (LF, indented, blank lines, CRLF) under the proviso that no break precedes "
            "CREATE/ALTER/DROP/SET/GO/USE/INSERT/GRANT/DELETE; contract: run(rendering) == run(canonical one-line upper-case rendering), and the canonical result "
            "carries every identifier, type name, default value and referential action exactly as written; regression corpus (%d of %d scripts inside the fragment) "
            "under %d structure-blind moves, contract: run(moved) == run(original)" % (len(fixed), len(units) - len(fixed), len(elig), len(cp), len(moves)))
    bound = ("per unit: 5 uniform case patterns + random ones + every keyword flipped alone + lower-case-from-keyword-k; 6 uniform separator styles + random + single-gap flips; "
             "a single break at every allowed gap (%s) + break-everywhere / per-token-class patterns + 3 pretty layouts; blank-line patterns; %s random all-dimension renderings "
             "(LF and CRLF breaks mixed); all-CRLF renderings (3 fixed + %s random); corpus: %s moves per script" % ("1 of 4 forms; 24 sampled gaps for multi-statement scripts" if quick else "4 forms incl. CRLF; 1 form for multi-statement scripts",
                                                              "10-14" if quick else "80-150", "3" if quick else "10", "4 of 13" if quick else "all 13"))
    return rule, bound
