"""C02 bounded stand-in: keys, uniqueness, checks and foreign keys land on the right columns.

Tables are generated from an abstract model (columns with ordered inline options + table-level declarations placed anywhere
among the columns); the expected key / nullable / unique / references / check / named-constraint facets are computed from the
model (never from the library) and compared facet by facet with DDLParser(...).run(...).

Witness classes
  generic:  c02:exception, c02:table-count, c02:table-name, c02:column-list, c02:primary-key-list, c02:pk-column-nullable,
            c02:non-key-column-nullable-changed, c02:unique-flag-missing, c02:unique-flag-spurious,
            c02:multi-column-unique-member-flagged, c02:reference-missing, c02:reference-spurious, c02:reference-wrong,
            c02:column-check, c02:column-check-spurious, c02:table-checks, c02:named-<kind>-constraint, c02:phantom-constraint
  narrow classes of inputs on which the current tree violates the statement (decided from the generated input):
            c02:early-single-column-unique-clause-followed-by-another-unique-clause  (un-named UNIQUE (c) written before the
                definition of c, c not unique by any other declaration, and a later table-level UNIQUE clause in the same table),
            c02:inline-single-equality-check-followed-by-option  (column CHECK (<col> = <value>), named or not, with a further option after it),
            c02:lowercase-sort-direction-in-pk-clause, c02:two-word-referential-action
  accepted either way: a REFERENCES option directly followed by NULL / NOT NULL reports the referenced column as `columns: [k]`
  (pinned by the repository's own test_reference_not_null) instead of `column: k`
"""
import itertools
import random

from bounded.common import MODES, entities, parse

# identifiers that are plain IDs for the lexer but collide with keys / words the implementation uses internally
COL_POOL = ["id", "name", "desc", "asc", "Desc", "columns", "constraint_name", "table", "schema", "type", "value", "status",
            "unique_statement", "primary_key", "ref_columns", "constraints", "Order_Items", "a1b2", "nullable", "size",
            "statement", "data", "checks", "uniques", "primary_keys", "alter", "action", "cascade", "restrict", "column",
            "project", "dataset", "first", "properties", "val", "VAL", "x", "created_at", "customerId", "k"]
REF_TABLES = ["other_t", "r", "parents", "name", "table", "columns", "Orders", "t9"]
REF_SCHEMAS = [None, None, "s", "shop", "schema", "dbo"]
REF_COLS = ["k", "id", "x", "y", "name", "column", "columns", "code", "pid", "z"]
ACTIONS = ["CASCADE", "RESTRICT", "cascade", "Restrict"]
TWO_WORD_ACTIONS = ["SET NULL", "SET DEFAULT", "NO ACTION"]
TYPES = [("int", "int", None), ("bigint", "bigint", None), ("varchar(10)", "varchar", 10), ("decimal(10,2)", "decimal", (10, 2)),
         ("text", "text", None), ("timestamp", "timestamp", None), ("date", "date", None), ("char(1)", "char", 1)]
DEFAULTS = [("0", 0), ("42", 42), ("'abc'", "'abc'"), ("now()", "now()")]
OPS = [">", "<", ">=", "<=", "<>", "!="]
OPS_EQ = OPS + ["=", "="]

D_EARLY_UNIQUE = "c02:early-single-column-unique-clause-followed-by-another-unique-clause"
D_LOWER_DIR = "c02:lowercase-sort-direction-in-pk-clause"
D_TWO_WORD = "c02:two-word-referential-action"
D_CHECK_EQ = "c02:inline-single-equality-check-followed-by-option"


# ------------------------------------------------------------------ abstract model
def mk_ref(table, cols, schema=None, acts=()):
    return dict(table=table, cols=None if cols is None else list(cols), schema=schema, acts=list(acts))


def mk_col(name, typ=TYPES[0], opts=()):
    return dict(name=name, typ=typ, opts=list(opts))


def mk_clause(kind, cols=(), name=None, ref=None, expr=None, dirs=None):
    """kind: pk | uniq | fk | check"""
    return dict(kind=kind, cols=list(cols), name=name, ref=ref, expr=expr, dirs=list(dirs) if dirs else [None] * len(cols))


def mk_table(name, elements, schema=None, layout=0, lower=False, tight=False):
    """elements: ordered list of ('col', col) | ('clause', clause); the first one is a column"""
    assert elements and elements[0][0] == "col"
    return dict(name=name, schema=schema, elements=list(elements), layout=layout, lower=lower, tight=tight)


def expr_text(e):
    return " ".join(str(x) for x in e)


def _norm(s):
    """check text is compared up to white space (the statement promises where a CHECK is reported, not its spelling)"""
    return "".join(s.split()) if isinstance(s, str) else s


# ------------------------------------------------------------------ rendering
def _kw(t, s):
    return s.lower() if t["lower"] else s


def _plist(t, items):
    return ("(" if t["tight"] else " (") + ("," if t["tight"] else ", ").join(items) + ")"


def render_ref(t, ref):
    s = _kw(t, "REFERENCES") + " " + ((ref["schema"] + ".") if ref["schema"] else "") + ref["table"]
    if ref["cols"] is not None:
        s += _plist(t, ref["cols"])
    for ev, act in ref["acts"]:
        s += " %s %s %s" % (_kw(t, "ON"), _kw(t, ev), act)
    return s


def render_col(t, c):
    parts = [c["name"], c["typ"][0]]
    for o in c["opts"]:
        k = o[0]
        if k == "nn":
            parts.append(_kw(t, "NOT NULL"))
        elif k == "null":
            parts.append(_kw(t, "NULL"))
        elif k == "pk":
            parts.append(_kw(t, "PRIMARY KEY"))
        elif k == "uniq":
            parts.append(_kw(t, "UNIQUE"))
        elif k == "uniqkey":
            parts.append(_kw(t, "UNIQUE KEY"))
        elif k == "default":
            parts.append(_kw(t, "DEFAULT") + " " + o[1])
        elif k == "ref":
            parts.append(render_ref(t, o[1]))
        elif k == "check":
            parts.append(((_kw(t, "CONSTRAINT") + " " + o[1] + " ") if o[1] else "") + _kw(t, "CHECK") + " (" + expr_text(o[2]) + ")")
        else:
            raise AssertionError(k)
    return " ".join(parts)


def render_clause(t, cl):
    head = (_kw(t, "CONSTRAINT") + " " + cl["name"] + " ") if cl["name"] else ""
    if cl["kind"] == "pk":
        return head + _kw(t, "PRIMARY KEY") + _plist(t, [c + (" " + d if d else "") for c, d in zip(cl["cols"], cl["dirs"])])
    if cl["kind"] == "uniq":
        return head + _kw(t, "UNIQUE") + _plist(t, cl["cols"])
    if cl["kind"] == "fk":
        return head + _kw(t, "FOREIGN KEY") + _plist(t, cl["cols"]) + " " + render_ref(t, cl["ref"])
    if cl["kind"] == "check":
        return head + _kw(t, "CHECK") + " (" + expr_text(cl["expr"]) + ")"
    raise AssertionError(cl["kind"])


def render_table(t):
    texts = [render_col(t, e) if k == "col" else render_clause(t, e) for k, e in t["elements"]]
    full = (t["schema"] + "." if t["schema"] else "") + t["name"]
    head = _kw(t, "CREATE TABLE") + " " + full
    if t["layout"] == 0:
        return "%s (\n    %s\n);" % (head, ",\n    ".join(texts))
    if t["layout"] == 1:
        return "%s (%s);" % (head, ("," if t["tight"] else ", ").join(texts))
    return "%s (\n    %s\n);" % (head, "\n  , ".join(texts))


# ------------------------------------------------------------------ oracle (from the statement)
def _acts(ref):
    d = dict(on_delete=None, on_update=None)
    for ev, act in ref["acts"]:
        d["on_delete" if ev == "DELETE" else "on_update"] = act
    return d


def _col_ref(ref, i):
    return dict(table=ref["table"], schema=ref["schema"], column=None if ref["cols"] is None else ref["cols"][i], **_acts(ref))


def expect(t):
    cols = [e for k, e in t["elements"] if k == "col"]
    pos = {e["name"]: i for i, (k, e) in enumerate(t["elements"]) if k == "col"}
    clauses = [(i, e) for i, (k, e) in enumerate(t["elements"]) if k == "clause"]
    pkc = [e for _, e in clauses if e["kind"] == "pk"]
    inline_pk = [c["name"] for c in cols if any(o[0] == "pk" for o in c["opts"])]
    assert len(pkc) <= 1 and not (pkc and inline_pk), "one source of primary key per table"
    pk = list(pkc[0]["cols"]) if pkc else inline_pk
    E = dict(pk=pk, pk_leaky=None, cols={}, checks=[], cons=dict(primary_keys=[], uniques=[], references=[], checks=[]), anon_multi=[],
             features=set())
    if pkc:
        leaky = []
        for c, d in zip(pkc[0]["cols"], pkc[0]["dirs"]):
            leaky.append(c)
            if d and d not in ("ASC", "DESC"):
                leaky.append(d)
        if leaky != pk:
            E["pk_leaky"] = leaky
    for c in cols:
        kinds = [o[0] for o in c["opts"]]
        assert not ("nn" in kinds and "null" in kinds) and kinds.count("check") <= 1 and kinds.count("ref") <= 1
        ref, ref_then_null, chk = None, False, None
        for i, o in enumerate(c["opts"]):
            if o[0] == "ref":
                ref = _col_ref(o[1], 0)
                ref_then_null = i + 1 < len(c["opts"]) and c["opts"][i + 1][0] in ("nn", "null")
                if any(a in TWO_WORD_ACTIONS for _, a in o[1]["acts"]):
                    E["features"].add(D_TWO_WORD)
            elif o[0] == "check":
                chk = (o[1], expr_text(o[2]))
                if len(o[2]) == 3 and o[2][1] == "=" and i + 1 < len(c["opts"]):
                    E["features"].add(D_CHECK_EQ)
        E["cols"][c["name"]] = dict(nullable=not ("nn" in kinds or c["name"] in pk), reasons={"inline"} if ("uniq" in kinds or "uniqkey" in kinds) else set(),
                                    ref=ref, ref_then_null=ref_then_null, check=chk, multi_member=False)
    uniq_idx = [i for i, cl in clauses if cl["kind"] == "uniq"]
    for idx, cl in clauses:
        assert cl["cols"] or cl["kind"] == "check"
        assert all(c in E["cols"] for c in cl["cols"]) and len(set(cl["cols"])) == len(cl["cols"])
        if cl["kind"] == "uniq":
            if len(cl["cols"]) == 1:
                c = cl["cols"][0]
                if cl["name"]:
                    why = "named"
                elif pos[c] < idx:
                    why = "clause-after"
                else:  # written before the column definition: is there a later table-level UNIQUE clause (named or not, any arity)?
                    why = "clause-before-last" if idx == uniq_idx[-1] else "clause-before-followed"
                E["cols"][c]["reasons"].add(why)
            else:
                for c in cl["cols"]:
                    E["cols"][c]["multi_member"] = True
                if not cl["name"]:
                    E["anon_multi"].append(list(cl["cols"]))
            if cl["name"]:
                E["cons"]["uniques"].append(dict(constraint_name=cl["name"], columns=list(cl["cols"])))
        elif cl["kind"] == "pk":
            if cl["name"]:
                E["cons"]["primary_keys"].append(dict(constraint_name=cl["name"], columns=list(cl["cols"])))
        elif cl["kind"] == "fk":
            ref = cl["ref"]
            assert (ref["cols"] is None and len(cl["cols"]) == 1) or len(ref["cols"]) == len(cl["cols"])
            if any(a in TWO_WORD_ACTIONS for _, a in ref["acts"]):
                E["features"].add(D_TWO_WORD)
            if cl["name"]:
                E["cons"]["references"].append(dict(constraint_name=cl["name"], name=list(cl["cols"]), table=ref["table"], schema=ref["schema"],
                                                    columns=[None] if ref["cols"] is None else list(ref["cols"]), **_acts(ref)))
            else:
                for i, c in enumerate(cl["cols"]):
                    assert E["cols"][c]["ref"] is None, "a column carries at most one un-named reference"
                    E["cols"][c]["ref"] = _col_ref(ref, i)
        elif cl["kind"] == "check":
            E["checks"].append((cl["name"], expr_text(cl["expr"])))
            if cl["name"]:
                E["cons"]["checks"].append(dict(constraint_name=cl["name"], statement=expr_text(cl["expr"])))
    return E


def _as_list(x):
    return list(x) if isinstance(x, (list, tuple)) else [x]


def _proj_cons(typ, e):
    if not isinstance(e, dict):
        return {"?": str(e)}
    if typ in ("primary_keys", "uniques"):
        return dict(constraint_name=e.get("constraint_name"), columns=e.get("columns"))
    if typ == "references":
        return dict(constraint_name=e.get("constraint_name"), name=_as_list(e.get("name")), table=e.get("table"), schema=e.get("schema"),
                    columns=e.get("columns"), on_delete=e.get("on_delete"), on_update=e.get("on_update"))
    return dict(constraint_name=e.get("constraint_name"), statement=_norm(e.get("statement")))


def _key(d):
    return sorted((k, str(v)) for k, v in d.items())


def judge(t, E, got, mode=None):
    """-> list of (witness class, detail) ; empty when every facet the statement talks about is as declared"""
    P = []
    if got.get("table_name") != t["name"] or (mode is None and got.get("schema") != t["schema"]):
        return [("c02:table-name", dict(observed=[got.get("schema"), got.get("table_name")], expected=[t["schema"], t["name"]]))]
    gcols = got.get("columns") or []
    names = list(E["cols"])
    if [c.get("name") for c in gcols] != names:
        return [("c02:column-list", dict(observed=[c.get("name") for c in gcols], expected=names))]
    # --- primary key
    gpk = got.get("primary_key")
    if gpk != E["pk"]:
        cls = D_LOWER_DIR if (E["pk_leaky"] is not None and gpk == E["pk_leaky"]) else "c02:primary-key-list"
        P.append((cls, dict(facet="primary_key", observed=gpk, expected=E["pk"])))
    for c in gcols:
        e = E["cols"][c["name"]]
        n = c["name"]
        # --- nullable
        if c.get("nullable") is not e["nullable"]:
            P.append(("c02:pk-column-nullable" if n in E["pk"] else "c02:non-key-column-nullable-changed",
                      dict(facet="nullable", column=n, observed=c.get("nullable"), expected=e["nullable"])))
        # --- unique
        exp_u, obs_u = bool(e["reasons"]), c.get("unique")
        if exp_u and obs_u is not True:
            if e["reasons"] == {"clause-before-followed"}:
                cls = D_EARLY_UNIQUE
            else:
                cls = "c02:unique-flag-missing"
            P.append((cls, dict(facet="unique", column=n, observed=obs_u, expected=True, declared_by=sorted(e["reasons"]))))
        elif not exp_u and obs_u is not False:
            if e["multi_member"]:
                cls = "c02:multi-column-unique-member-flagged"
            else:
                cls = "c02:unique-flag-spurious"
            P.append((cls, dict(facet="unique", column=n, observed=obs_u, expected=False)))
        # --- references
        gref = c.get("references")
        if e["ref"] is None:
            if gref is not None:
                P.append(("c02:reference-spurious", dict(facet="references", column=n, observed=gref, expected=None)))
        elif not isinstance(gref, dict):
            P.append(("c02:reference-missing", dict(facet="references", column=n, observed=gref, expected=e["ref"])))
        else:
            obs = {k: gref.get(k) for k in ("table", "schema", "column", "on_delete", "on_update")}
            if e["ref_then_null"] and "column" not in gref and isinstance(gref.get("columns"), list) and len(gref["columns"]) == 1:
                obs["column"] = gref["columns"][0]  # REFERENCES ... directly followed by [NOT] NULL: either shape is accepted
            if obs != e["ref"]:
                P.append(("c02:reference-wrong", dict(facet="references", column=n, observed=gref, expected=e["ref"])))
        # --- inline check
        gchk = c.get("check")
        if e["check"] is None:
            if gchk:
                P.append(("c02:column-check-spurious", dict(facet="check", column=n, observed=gchk, expected=None)))
        else:
            cname, text = e["check"]
            if isinstance(gchk, dict):
                ok = gchk.get("constraint_name") == cname and _norm(gchk.get("statement")) == _norm(text)
            else:
                ok = cname is None and _norm(gchk) == _norm(text)
            if not ok:
                P.append(("c02:column-check", dict(facet="check", column=n, observed=gchk, expected=dict(constraint_name=cname, statement=text))))
    # --- table-level checks: every declaration exactly once
    gchecks = got.get("checks") or []
    obs = sorted([(str(x.get("constraint_name")), str(_norm(x.get("statement")))) if isinstance(x, dict) else ("?", str(x)) for x in gchecks])
    exp = sorted((str(n), _norm(s)) for n, s in E["checks"])
    if obs != exp:
        P.append(("c02:table-checks", dict(facet="checks", observed=gchecks, expected=[dict(constraint_name=n, statement=s) for n, s in E["checks"]])))
    # --- named constraints
    gcons = got.get("constraints") or {}
    for typ in ("primary_keys", "uniques", "references", "checks"):
        glist = [_proj_cons(typ, x) for x in (gcons.get(typ) or [])]
        elist = [dict(x, statement=_norm(x["statement"])) for x in E["cons"][typ]] if typ == "checks" else E["cons"][typ]
        if typ == "uniques":
            declared = {x["constraint_name"] for x in elist}
            anon = [list(a) for a in E["anon_multi"]]
            rest = []
            for g in glist:
                if g.get("constraint_name") not in declared and g.get("columns") in anon:
                    anon.remove(g.get("columns"))  # the record of an un-named multi-column UNIQUE clause (generated name)
                else:
                    rest.append(g)
            glist = rest
        if sorted(map(_key, glist)) != sorted(map(_key, elist)):
            declared = {x["constraint_name"] for x in elist}
            cls = "c02:named-%s-constraint" % {"primary_keys": "pk", "uniques": "unique", "references": "fk", "checks": "check"}[typ]
            if any(g.get("constraint_name") not in declared for g in glist) and [g for g in glist if g.get("constraint_name") in declared] == elist:
                cls = "c02:phantom-constraint"
            if typ == "primary_keys" and E["pk_leaky"] is not None and len(glist) == 1 and len(elist) == 1 \
                    and glist[0] == dict(elist[0], columns=E["pk_leaky"]):
                cls = D_LOWER_DIR
            P.append((cls, dict(facet="constraints." + typ, observed=gcons.get(typ), expected=elist)))
    return P


def expected_view(E):
    return dict(primary_key=E["pk"],
                columns=[dict(name=n, nullable=e["nullable"], unique=bool(e["reasons"]), references=e["ref"],
                              check=None if e["check"] is None else dict(constraint_name=e["check"][0], statement=e["check"][1])) for n, e in E["cols"].items()],
                checks=[dict(constraint_name=n, statement=s) for n, s in E["checks"]], constraints={k: v for k, v in E["cons"].items() if v})


def observed_view(got):
    if not isinstance(got, dict):
        return got
    return dict(primary_key=got.get("primary_key"), checks=got.get("checks"), constraints=got.get("constraints"),
                columns=[{k: c.get(k) for k in ("name", "nullable", "unique", "references", "check")} for c in got.get("columns") or []])


def run_case(ck, set_name, key, tables, mode=None):
    ddl = "\n\n".join(render_table(t) for t in tables)
    exps = [expect(t) for t in tables]
    run_kw = dict(output_mode=mode) if mode else {}
    r = parse(ddl, **run_kw)
    problems = []
    observed = None
    if r[0] != "ok":
        problems.append(("c02:exception", dict(observed=list(r))))
    else:
        ents, _ = entities(r[1])
        observed = [observed_view(e) for e in ents]
        if len(ents) != len(tables) or any(not isinstance(e, dict) or "table_name" not in e for e in ents):
            problems.append(("c02:table-count", dict(observed=len(ents), expected=len(tables))))
        else:
            for t, E, got in zip(tables, exps, ents):
                for cls, d in judge(t, E, got, mode):
                    problems.append((cls, dict(d, table=t["name"])))
    feats = sorted(set().union(*[E["features"] for E in exps]))
    if feats and problems:  # inputs of a class on which the whole statement is lost: everything maps to that class
        problems = [("+".join(feats), d) for _, d in problems]
    # bookkeeping: how many inputs belong to each narrow class (decided from the input alone) and how many of them fail under it
    member = set(["+".join(feats)] if feats else [])
    for E in exps:
        if E["pk_leaky"] is not None:
            member.add(D_LOWER_DIR)
        if any(e["reasons"] == {"clause-before-followed"} for e in E["cols"].values()):
            member.add(D_EARLY_UNIQUE)
    for m in sorted(member):
        st = ck.notes.setdefault("inputs_in_narrow_classes", {}).setdefault(m, dict(inputs=0, failing_under_that_class=0))
        st["inputs"] += 1
        st["failing_under_that_class"] += 1 if any(c == m for c, _ in problems) else 0
    if not problems:
        ck.ok(set_name, key, dict(ddl=ddl[:300]))
        return True
    seen = []
    for cls, d in problems:
        if cls in seen:
            continue
        info = dict(ddl=ddl, observed=observed if observed is not None else d.get("observed"), expected=[expected_view(E) for E in exps],
                    first_difference=d, all_differences=[[c, x.get("facet"), x.get("column")] for c, x in problems][:20])
        if run_kw:
            info["run"] = run_kw
        ck.fail(set_name, key if not seen else (key, cls), cls, info)
        seen.append(cls)
    return False


# ------------------------------------------------------------------ generators
class Names:
    """rotating supply of identifiers so that every pool word shows up in every role"""

    def __init__(self, pool, start=0):
        self.pool, self.i = pool, start

    def take(self, n):
        out = []
        while len(out) < n:
            w = self.pool[self.i % len(self.pool)]
            self.i += 1
            if w not in out:
                out.append(w)
        return out


def some_ref(rnd, n, acts=None, allow_bare=True):
    cols = rnd.sample(REF_COLS, n)
    if n == 1 and allow_bare and rnd.random() < 0.12:
        cols = None
    if acts is None:
        evs = rnd.choice([[], [], ["DELETE"], ["UPDATE"], ["DELETE", "UPDATE"], ["UPDATE", "DELETE"]])
        acts = [(ev, rnd.choice(ACTIONS)) for ev in evs]
    return mk_ref(rnd.choice(REF_TABLES), cols, rnd.choice(REF_SCHEMAS), acts)


def some_expr(rnd, cols, k):
    """comparison fragment (table-level CHECK): col op number | col op col | comparison AND comparison, op incl. '='"""
    c = rnd.choice(cols)
    form = rnd.randrange(6)
    if form == 4:
        # a function call inside the condition: its parentheses nest inside the CHECK's own
        return ("%s(%s)" % (rnd.choice(["length", "abs", "upper"]), c), rnd.choice(OPS_EQ[:4]), 2 + k)
    if form == 5 and len(cols) > 1:
        return ("coalesce(%s, 0)" % c, rnd.choice(OPS_EQ[:4]), rnd.choice([x for x in cols if x != c]))
    if form == 0 and len(cols) > 1:
        return (c, rnd.choice(OPS_EQ), rnd.choice([x for x in cols if x != c]))
    if form == 1:
        return (c, rnd.choice(OPS_EQ[:4] + ["="]), 100 + k, "AND", rnd.choice(cols), rnd.choice(OPS_EQ[:4] + ["="]), 1000 + k)
    return (c, rnd.choice(OPS_EQ), 100 + k)


def eq_check_last(opts):
    """an inline CHECK (<col> = <value>) is only generated as the LAST option of its column outside the dedicated set (see D_CHECK_EQ)"""
    for i, o in enumerate(opts):
        if o[0] == "check" and len(o[2]) == 3 and o[2][1] == "=" and i + 1 < len(opts):
            opts.append(opts.pop(i))
            break
    return opts


def gen_grid(ck):
    """(A) one table-level declaration: kind x arity x which columns (ordered) x position among the columns x number of columns"""
    rnd = ck.rnd
    names = Names(COL_POOL)
    cn = Names(["pk_t", "uq1", "fk_name", "c1", "name", "columns", "constraint", "k9"][:6] + ["chk", "Key_1"])
    max_cols, max_ar = (4, 3) if ck.quick() else (5, 4)
    k = 0
    for n in range(2, max_cols + 1):
        for kind, named in itertools.product(["pk", "uniq", "fk", "check"], [False, True]):
            arities = [1] if kind == "check" else range(1, min(n, max_ar) + 1)
            for ar in arities:
                perms = list(itertools.permutations(range(n), ar))
                if ck.quick() and len(perms) > 3:
                    perms = [perms[0], perms[-1]] + rnd.sample(perms[1:-1], 1)
                for sel in perms:
                    for posn in range(1, n + 1):  # the clause follows `posn` columns
                        k += 1
                        cols = names.take(n)
                        if k % 7 == 0 and "columns" not in cols:
                            cols[k % n] = "columns"
                        picked = [cols[i] for i in sel]
                        cname = cn.take(1)[0] if named else None
                        if kind == "pk":
                            dirs = [None] * ar if k % 3 else [rnd.choice([None, "ASC", "DESC"]) for _ in range(ar)]
                            cl = mk_clause("pk", picked, cname, dirs=dirs)
                        elif kind == "uniq":
                            cl = mk_clause("uniq", picked, cname)
                        elif kind == "fk":
                            cl = mk_clause("fk", picked, cname, ref=some_ref(rnd, ar))
                        else:
                            cl = mk_clause("check", [], cname, expr=some_expr(rnd, cols, k))
                        els = [("col", mk_col(c, TYPES[(k + i) % len(TYPES)], [("nn",)] if (k + i) % 5 == 0 else [])) for i, c in enumerate(cols)]
                        els.insert(posn, ("clause", cl))
                        t = mk_table("tbl", els, layout=k % 3, tight=(k % 11 == 0))
                        run_case(ck, "one-declaration-grid", (n, kind, named, sel, posn), [t])


def _pk_forms():
    return [("none",), ("inline", [0]), ("inline", [1, 3]), ("clause", [2], False), ("clause", [3, 0], False), ("clause", [1, 2], True), ("clause", [2, 0, 3], True)]


def _uq_forms():
    return [("none",), ("inline", 1), ("clause", [0], False), ("clause", [3, 1], False), ("clause", [1, 0, 2], False), ("clause", [2], True),
            ("clause", [0, 3], True), ("clause", [3, 2, 1], True)]


def _fk_forms():
    return [("none",), ("inline", False), ("inline", True), ("clause", [1], False), ("clause", [3, 0], False), ("clause", [2], True), ("clause", [0, 2, 1], True)]


def _ck_forms():
    return [("none",), ("inline", False), ("inline", True), ("clause", False), ("clause", True)]


def gen_combos(ck):
    """(B) every combination of a PRIMARY KEY form, a UNIQUE form, a FOREIGN KEY form and a CHECK form over four columns"""
    rnd = ck.rnd
    names = Names(COL_POOL, 5)
    combos = list(itertools.product(range(len(_pk_forms())), range(len(_uq_forms())), range(len(_fk_forms())), range(len(_ck_forms()))))
    if ck.quick():
        combos = rnd.sample(combos, 450)
    variants = (0,) if ck.quick() else (0, 1)
    for ci, (a, b, c, d) in enumerate(combos):
        for var in variants:
            pkf, uqf, fkf, ckf = _pk_forms()[a], _uq_forms()[b], _fk_forms()[c], _ck_forms()[d]
            cols = names.take(4)
            opts = {i: [] for i in range(4)}
            clauses = []
            if pkf[0] == "inline":
                for i in pkf[1]:
                    opts[i].append(("pk",))
            elif pkf[0] == "clause":
                clauses.append(mk_clause("pk", [cols[i] for i in pkf[1]], "pk_c" if pkf[2] else None))
            if uqf[0] == "inline":
                opts[uqf[1]].append(("uniq",))
            elif uqf[0] == "clause":
                clauses.append(mk_clause("uniq", [cols[i] for i in uqf[1]], "uq_c" if uqf[2] else None))
            if fkf[0] == "inline":
                opts[2].append(("ref", some_ref(rnd, 1, acts=None if fkf[1] else [])))
            elif fkf[0] == "clause":
                clauses.append(mk_clause("fk", [cols[i] for i in fkf[1]], "fk_c" if fkf[2] else None, ref=some_ref(rnd, len(fkf[1]))))
            if ckf[0] == "inline":
                opts[3].append(("check", "ck_i" if ckf[1] else None, (cols[3], rnd.choice(OPS_EQ), 7)))
            elif ckf[0] == "clause":
                clauses.append(mk_clause("check", [], "ck_c" if ckf[1] else None, expr=some_expr(rnd, cols, ci)))
            for i in range(4):
                if rnd.random() < 0.25 and not any(o[0] in ("pk",) for o in opts[i]):
                    opts[i].append(("nn",))
                rnd.shuffle(opts[i])
                eq_check_last(opts[i])
            rnd.shuffle(clauses)
            els = [("col", mk_col(cols[i], TYPES[(ci + i) % len(TYPES)], opts[i])) for i in range(4)]
            for cl in clauses:
                els.insert(len(els) if var == 0 else rnd.randint(1, len(els)), ("clause", cl))
            t = mk_table("combo", els, schema=[None, "s1"][ci % 2], layout=ci % 3, lower=(ci % 13 == 0))
            run_case(ck, "declaration-combinations", (a, b, c, d, var), [t])


def gen_option_orders(ck):
    """(C) ordered inline option lists on one column (REFERENCES / CHECK / UNIQUE / PRIMARY KEY / NULL / DEFAULT), three positions"""
    rnd = ck.rnd
    kinds = ["nn", "null", "pk", "uniq", "default", "ref", "refact", "check", "ncheck"]
    seqs = [()]
    for n in (1, 2, 3):
        for p in itertools.permutations(kinds, n):
            if ("nn" in p and "null" in p) or ("ref" in p and "refact" in p) or ("check" in p and "ncheck" in p):
                continue
            seqs.append(p)
    if ck.quick():
        seqs = [s for s in seqs if len(s) <= 2] + rnd.sample([s for s in seqs if len(s) == 3], 220)
    else:
        four = [p for p in itertools.permutations(kinds, 4)
                if not (("nn" in p and "null" in p) or ("ref" in p and "refact" in p) or ("check" in p and "ncheck" in p))]
        seqs = seqs + rnd.sample(four, 1200)
    names = Names(COL_POOL, 11)
    for si, seq in enumerate(seqs):
        for posn in ((si % 3,) if ck.quick() and len(seq) == 3 else range(3)):
            tname, o1, o2 = names.take(3)
            opts = []
            for ki, kd in enumerate(seq):
                if kd in ("nn", "null", "pk", "uniq"):
                    opts.append((kd,) if not (kd == "uniq" and si % 9 == 0) else ("uniqkey",))
                elif kd == "default":
                    d = DEFAULTS[si % len(DEFAULTS)]
                    opts.append(("default", d[0], d[1]))
                elif kd == "ref":
                    opts.append(("ref", some_ref(rnd, 1, acts=[])))
                elif kd == "refact":
                    opts.append(("ref", some_ref(rnd, 1, acts=[(ev, rnd.choice(ACTIONS)) for ev in rnd.choice([["DELETE"], ["UPDATE"], ["DELETE", "UPDATE"], ["UPDATE", "DELETE"]])], allow_bare=False)))
                else:
                    opts.append(("check", "ck_%d" % si if kd == "ncheck" else None, (tname, rnd.choice(OPS_EQ if ki == len(seq) - 1 else OPS), 3 + si)))
            target = mk_col(tname, TYPES[(si + posn) % len(TYPES)], opts)
            others = [mk_col(o1, TYPES[0], []), mk_col(o2, TYPES[2], [("nn",)])]
            cs = others[:posn] + [target] + others[posn:]
            t = mk_table("opt_t", [("col", c) for c in cs], layout=si % 3, lower=(si % 17 == 0))
            run_case(ck, "inline-option-orders", (seq, posn), [t])


def rand_table(rnd, tname, big, clean=False):
    n = rnd.randint(2, 10 if big else 7)
    cols = rnd.sample(COL_POOL, n)
    pk_mode = rnd.choice(["none", "inline", "inline1", "clause", "named"])
    opts = {c: [] for c in cols}
    ck_id = [0]

    def cname(prefix):
        ck_id[0] += 1
        return "%s_%s_%d" % (prefix, tname, ck_id[0])
    if pk_mode == "inline":
        for c in rnd.sample(cols, rnd.randint(1, min(3, n))):
            opts[c].append(("pk",))
    elif pk_mode == "inline1":
        opts[rnd.choice(cols)].append(("pk",))
    has_ref = set()
    for c in cols:
        o = opts[c]
        r = rnd.random()
        if r < 0.25:
            o.append(("nn",))
        elif r < 0.35:
            o.append(("null",))
        if rnd.random() < 0.2:
            o.append(("uniq",))
        if rnd.random() < 0.2:
            d = rnd.choice(DEFAULTS)
            o.append(("default", d[0], d[1]))
        if rnd.random() < 0.25:
            o.append(("ref", some_ref(rnd, 1)))
            has_ref.add(c)
        if rnd.random() < 0.2:
            o.append(("check", cname("ic") if rnd.random() < 0.4 else None, (c, rnd.choice(OPS_EQ), rnd.randint(1, 99))))
        rnd.shuffle(o)
        eq_check_last(o)
    clauses = []
    if pk_mode in ("clause", "named"):
        sel = rnd.sample(cols, rnd.randint(1, min(5, n)))
        dirs = [rnd.choice([None, None, "ASC", "DESC"]) for _ in sel]
        clauses.append(mk_clause("pk", sel, cname("pk") if pk_mode == "named" else None, dirs=dirs))
    seen_anon = []
    for _ in range(rnd.randint(0, 6 if big else 4)):
        kind = rnd.choice(["uniq", "uniq", "fk", "fk", "check"])
        named = rnd.random() < 0.5
        if kind == "uniq":
            sel = rnd.sample(cols, rnd.randint(1, min(5, n)))
            if not named and len(sel) > 1:
                if sel in seen_anon:
                    continue
                seen_anon.append(sel)
            clauses.append(mk_clause("uniq", sel, cname("uq") if named else None))
        elif kind == "fk":
            free = cols if named else [c for c in cols if c not in has_ref]
            if not free:
                continue
            sel = rnd.sample(free, rnd.randint(1, min(4, len(free))))
            if not named:
                has_ref.update(sel)
            clauses.append(mk_clause("fk", sel, cname("fk") if named else None, ref=some_ref(rnd, len(sel))))
        else:
            clauses.append(mk_clause("check", [], cname("ck") if named else None, expr=some_expr(rnd, cols, rnd.randint(1, 50))))
    els = [("col", mk_col(c, rnd.choice(TYPES), opts[c])) for c in cols]
    at_end = clean or rnd.random() < 0.4  # clean: every declaration after the columns (outside D_EARLY_UNIQUE by construction)
    for cl in clauses:
        els.insert(len(els) if at_end else rnd.randint(1, len(els)), ("clause", cl))
    return mk_table(tname, els, schema=rnd.choice([None, None, "s1", "Sch"]), layout=rnd.randrange(3), lower=rnd.random() < 0.15, tight=rnd.random() < 0.15)


def gen_random(ck):
    """(D) random scripts of 1-3 tables; (D') the same restricted to inputs outside every narrow defect class; thorough: random output modes"""
    rnd = ck.rnd
    n = 500 if ck.quick() else 16000
    for i in range(n):
        tables = [rand_table(rnd, "t%d_%d" % (i, j), not ck.quick()) for j in range(rnd.choice([1, 1, 2, 3]))]
        mode = None
        if i % 5 == 4:
            mode = rnd.choice(MODES)
        run_case(ck, "random-scripts", i, tables, mode)
    for i in range(n // 2):
        tables = [rand_table(rnd, "u%d_%d" % (i, j), not ck.quick(), clean=True) for j in range(rnd.choice([1, 2, 3]))]
        run_case(ck, "random-scripts-outside-known-classes", i, tables, rnd.choice(MODES) if i % 4 == 3 else None)


def gen_neighbours(ck):
    """(E) a constrained table between two plain tables that reuse its column names: nothing may carry over"""
    rnd = ck.rnd
    for i in range(60 if ck.quick() else 1500):
        mid = rand_table(rnd, "mid%d" % i, not ck.quick(), clean=True)
        names = [e["name"] for k, e in mid["elements"] if k == "col"]
        before = mk_table("bef%d" % i, [("col", mk_col(c, TYPES[0], [])) for c in names], layout=1)
        after = mk_table("aft%d" % i, [("col", mk_col(c, TYPES[2], [])) for c in reversed(names)], layout=0)
        run_case(ck, "constrained-table-between-plain-tables", i, [before, mid, after])


def gen_special(ck):
    """(F) the narrow input classes: keyword-shaped key columns, sort directions, two-word actions, CHECK with '=' , early / named single UNIQUE"""
    rnd = ck.rnd
    k = 0
    # key columns literally named asc / desc (any case but the exact upper-case direction words), with and without directions on the others
    for nm in ["desc", "asc", "Desc", "Asc", "dEsC"]:
        for named in (False, True):
            for ar in (1, 2, 3):
                for where in range(ar):
                    for dirs_on in (False, True):
                        others = [w for w in ["id", "grp", "seq"]][: ar - 1]
                        sel = others[:where] + [nm] + others[where:]
                        dirs = [None] * ar
                        if dirs_on:
                            dirs = [None if c == nm else rnd.choice(["ASC", "DESC"]) for c in sel]
                        allc = ["z0"] + sorted(sel) + ["z1"]
                        els = [("col", mk_col(c)) for c in allc]
                        els.insert(rnd.randint(1, len(els)), ("clause", mk_clause("pk", sel, "pk_rules" if named else None, dirs=dirs)))
                        run_case(ck, "keyword-shaped-key-columns", (nm, named, ar, where, dirs_on), [mk_table("rules", els, layout=k % 3)])
                        k += 1
    # lower / mixed case sort directions in a PRIMARY KEY clause
    for d in ["desc", "asc", "Desc"]:
        for named in (False, True):
            for ar in (1, 2, 3):
                sel = ["b", "a", "c"][:ar]
                for where in range(ar):
                    dirs = [d if i == where else None for i in range(ar)]
                    els = [("col", mk_col(c)) for c in ["a", "b", "c", "d"]]
                    els.append(("clause", mk_clause("pk", sel, "pk_n" if named else None, dirs=dirs)))
                    run_case(ck, "lowercase-sort-direction", (d, named, ar, where), [mk_table("srt", els, layout=1)])
    # two-word referential actions
    for act in TWO_WORD_ACTIONS:
        for ev in ("DELETE", "UPDATE"):
            for form in ("inline", "clause", "named"):
                ref = mk_ref("r", ["x"], None, [(ev, act)])
                if form == "inline":
                    els = [("col", mk_col("a", opts=[("ref", ref)])), ("col", mk_col("b"))]
                else:
                    els = [("col", mk_col("a")), ("col", mk_col("b")), ("clause", mk_clause("fk", ["a"], "fk_a" if form == "named" else None, ref=ref))]
                run_case(ck, "two-word-referential-actions", (act, ev, form), [mk_table("tw", els, layout=1)])
    # CHECK (<col> = <value>): table-level / named / last inline option must be reported; a further option after the inline form is D_CHECK_EQ
    follow = {"nn": ("nn",), "null": ("null",), "uniq": ("uniq",), "pk": ("pk",), "default": ("default", "0", 0), "ref": ("ref", mk_ref("r", ["x"]))}
    for rhs in (4, "b", "'x'"):
        for named in (False, True):
            nm = "ck_e" if named else None
            for posn in (1, 2):
                els = [("col", mk_col("a")), ("col", mk_col("b"))]
                els.insert(posn, ("clause", mk_clause("check", [], nm, expr=("a", "=", rhs))))
                run_case(ck, "check-with-equality", (rhs, named, "clause", posn), [mk_table("ceq", els, layout=posn)])
            for fk, fo in follow.items():
                for order in ("check-then-option", "option-then-check", "compound-check-then-option"):
                    chk = ("check", nm, ("a", "=", rhs) if order != "compound-check-then-option" else ("a", "=", rhs, "AND", "b", ">", 5))
                    opts = [fo, chk] if order == "option-then-check" else [chk, fo]
                    els = [("col", mk_col("a", opts=opts)), ("col", mk_col("b"))]
                    run_case(ck, "check-with-equality", (rhs, named, order, fk), [mk_table("ceq", els, layout=1)])
    # an un-named UNIQUE (c) written before the definition of c: flagged when it is the table's last UNIQUE clause, D_EARLY_UNIQUE when another follows
    for later in (None, ("uniq", 1, False), ("uniq", 2, False), ("uniq", 1, True), ("uniq", 3, True), ("pk", 1, False), ("fk", 1, False), ("check", 0, True)):
        for lpos in ("adjacent", "end"):
            for rescue in (None, "inline", "named", "clause-after"):
                if later is None and lpos == "end":
                    continue
                cols = ["a", "b", "c", "d"]
                els = [("col", mk_col("a")), ("clause", mk_clause("uniq", ["b"])), ("col", mk_col("b", opts=[("uniq",)] if rescue == "inline" else [])),
                       ("col", mk_col("c")), ("col", mk_col("d"))]
                if later is not None:
                    kind, ar, named = later
                    sel = ["a", "c", "d"][:ar]
                    if kind == "fk":
                        cl = mk_clause("fk", sel, None, ref=mk_ref("r", ["x"]))
                    elif kind == "check":
                        cl = mk_clause("check", [], "ck_l", expr=("a", ">", 1))
                    else:
                        cl = mk_clause(kind, sel, ("%s_l" % kind) if named else None)
                    els.insert(2 if lpos == "adjacent" else len(els), ("clause", cl))
                if rescue == "named":
                    els.append(("clause", mk_clause("uniq", ["b"], "u_b")))
                elif rescue == "clause-after":
                    els.append(("clause", mk_clause("uniq", ["b"])))
                run_case(ck, "early-single-column-unique-clause", (later, lpos, rescue), [mk_table("eu", els, layout=0)])
    # single-column UNIQUE: named, and un-named at every position relative to its column; a column named `columns` next to UNIQUE clauses
    for n in (2, 3, 4):
        cols = ["a", "b", "c", "d"][:n]
        for target in range(n):
            for posn in range(1, n + 1):
                for named in (False, True):
                    els = [("col", mk_col(c)) for c in cols]
                    els.insert(posn, ("clause", mk_clause("uniq", [cols[target]], "u_one" if named else None)))
                    run_case(ck, "single-column-unique-clause", (n, target, posn, named), [mk_table("su", els, layout=posn % 3)])
    for ar in (1, 2, 3):
        for named in (False, True):
            for member in (False, True):
                cols = ["columns", "b", "c", "d"]
                sel = (["columns"] if member else []) + ["b", "c", "d"][: ar - (1 if member else 0)]
                if not sel:
                    continue
                els = [("col", mk_col(c)) for c in cols] + [("clause", mk_clause("uniq", sel, "u_c" if named else None))]
                run_case(ck, "column-named-columns", (ar, named, member), [mk_table("cn", els, layout=1)])
    # columns whose names differ only in case, or where one name is a prefix / substring of another: a declaration on one leaves the others alone
    for fam in (["val", "VAL", "Val"], ["name", "constraint_name", "nam"], ["column", "columns_x", "col"], ["primary_key", "primary_keys", "key_primary"]):
        for target in range(3):
            for form in ("inline-pk", "pk", "named-pk", "inline-unique", "unique", "fk", "named-fk", "inline-ref", "inline-check", "unique-2", "fk-2"):
                tgt = fam[target]
                two = [fam[target], fam[(target + 1) % 3]]
                opts = {c: [] for c in fam}
                cl = None
                if form == "inline-pk":
                    opts[tgt].append(("pk",))
                elif form == "inline-unique":
                    opts[tgt].append(("uniq",))
                elif form == "inline-ref":
                    opts[tgt].append(("ref", some_ref(rnd, 1, allow_bare=False)))
                elif form == "inline-check":
                    opts[tgt].append(("check", None, (tgt, ">", 5)))
                elif form in ("pk", "named-pk"):
                    cl = mk_clause("pk", [tgt], "pk_tw" if form == "named-pk" else None)
                elif form == "unique":
                    cl = mk_clause("uniq", [tgt])
                elif form == "unique-2":
                    cl = mk_clause("uniq", two)
                elif form in ("fk", "named-fk"):
                    cl = mk_clause("fk", [tgt], "fk_tw" if form == "named-fk" else None, ref=some_ref(rnd, 1, allow_bare=False))
                else:
                    cl = mk_clause("fk", two, None, ref=some_ref(rnd, 2))
                els = [("col", mk_col(c, opts=opts[c])) for c in fam] + ([("clause", cl)] if cl else [])
                run_case(ck, "look-alike-column-names", (fam[0], target, form), [mk_table("twins", els, layout=target)])
    # 3+ column UNIQUE / PK / FK over up to 8 columns, every rotation (list length and index sensitivity)
    big = 6 if ck.quick() else 8
    cols = ["c%d" % i for i in range(big)]
    for ar in range(2, big + 1):
        for rot in range(ar if not ck.quick() else min(ar, 2)):
            sel = list(reversed(cols[:ar]))
            sel = sel[rot:] + sel[:rot]
            for kind, named in itertools.product(("pk", "uniq", "fk"), (False, True)):
                if kind == "fk":
                    cl = mk_clause("fk", sel, "fk_w" if named else None, ref=mk_ref("wide", ["r%d" % i for i in range(ar)], "s", [("DELETE", "CASCADE"), ("UPDATE", "RESTRICT")]))
                else:
                    cl = mk_clause(kind, sel, ("%s_w" % kind) if named else None)
                els = [("col", mk_col(c)) for c in cols] + [("clause", cl)]
                run_case(ck, "wide-declarations", (kind, named, ar, rot), [mk_table("wide_t", els, layout=0)])


class _Ck:
    """the harness checker with a private generator seeded from ck.rnd: Checker.ok draws from ck.rnd while it collects samples, which
    would make the generated inputs depend on earlier verdicts; with this the inputs depend on VERIF_SEED only"""

    def __init__(self, ck):
        self._ck, self.notes = ck, ck.notes
        self.rnd = random.Random(ck.rnd.getrandbits(64))
        self.quick, self.ok, self.fail = ck.quick, ck.ok, ck.fail


def check(ck):
    ck = _Ck(ck)
    gen_grid(ck)
    gen_combos(ck)
    gen_option_orders(ck)
    gen_special(ck)
    gen_neighbours(ck)
    gen_random(ck)
    q = ck.quick()
    rule = ("CREATE TABLE statements rendered from an abstract model (columns with ordered inline NOT NULL / NULL / PRIMARY KEY / UNIQUE / DEFAULT / REFERENCES [ON DELETE|UPDATE] / "
            "[CONSTRAINT n] CHECK options; table-level [CONSTRAINT n] PRIMARY KEY / UNIQUE / FOREIGN KEY ... REFERENCES / CHECK declarations of 1..k columns at any position among the columns; "
            "identifiers that collide with internal keys (columns, name, desc, asc, ...); 3 layouts, lower-case keywords, tight lists). Contract (oracle computed from the model): primary_key == declared "
            "ordered list; key columns non-nullable and no other column's nullability changes; unique flag <=> inline UNIQUE or sole column of a UNIQUE clause (never for members of multi-column clauses); "
            "every named constraint once under its name with its exact column list; every REFERENCES / un-named FOREIGN KEY once on each of its own columns with table, schema, column, on_delete, on_update as written; "
            "named FOREIGN KEY once under its name; every CHECK once (column check on its column, table checks in `checks`, named ones also under constraints.checks); nothing carries over to neighbouring tables")
    bound = ("one-declaration grid: 2..%d columns x 8 declaration kinds x arity <= %d x %s ordered column selections x every position; %s of 1960 PK x UNIQUE x FK x CHECK form combinations over four columns%s; "
             "inline option sequences of length <= %s at 3 positions; narrow-class probes (asc/desc key columns, sort directions, two-word actions, CHECK with '=', single-column UNIQUE at every position, "
             "column named `columns`, declarations over up to %d columns); %d constrained tables between plain neighbours; %d + %d random scripts of 1-3 tables x 2..%d columns x 0..%d declarations (every 4th/5th in a random output mode)"
             % (4 if q else 5, 3 if q else 4, "3 sampled" if q else "all", "450 sampled" if q else "all", "" if q else " x 2 placements",
                "2 (+220 sampled of length 3)" if q else "3 (+1200 sampled of length 4)", 6 if q else 8, 60 if q else 1500, 500 if q else 16000, 250 if q else 8000, 7 if q else 10, 4 if q else 6))
    return rule, bound
