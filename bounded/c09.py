"""C09 BOUNDED stand-in: parameterised and nested column types stay whole and leave their neighbours intact.

Inputs are generated from an abstract type expression (a small AST over the constructors the statement lists:
plain atom, size forms (n) (p,s) (max) (n CHAR) (*,s), array suffixes [], two-word types, ARRAY<T>, MAP<K,V>,
STRUCT<a:T,...> / STRUCT<a T,...>) rendered with an explicit spacing profile, placed at a column position of a
generated table, followed by an ordered list of options (NOT NULL, DEFAULT v, COMMENT 's').

Oracle (computed by the generator, never read back from the library):
  * the table is reported, with exactly the declared column names in order;
  * the target column's `type`, after removing optional white space around < > , : [ ], equals the written
    type (same words, same case, same brackets) and its brackets are balanced;
  * `size` is the one written (int / (p, s) / 'max' / 'n CHAR' / ('*', s)) or None, and no `type_parameters`;
  * nullable / default / comment are the ones written after the type;
  * metamorphic frame: the whole result equals the result of the CONTROL script (the same script with every
    generated type replaced by plain `int`) once type/size of the target columns are patched - so neighbouring
    columns, table level keys and neighbouring statements are exactly what they are next to a plain type.

Witness classes are `c09:<symptom>` unless the INPUT belongs to a known-defect input class (see _input_class / _case_class);
the one such class on the unchanged tree is `c09:angle-type-with-inner-comma-after-check-column`
(CREATE TABLE t (a int CHECK (a > 0), b MAP<STRING,INT>, c int)  ->  table lost: lexer.check stays set to the end of the statement).
Things that are evaluated but deliberately NOT asserted are counted in ck.notes (see NOT_ASSERTED)."""
import itertools
import re

from bounded.common import MODES, entities, jdump, parse

# ------------------------------------------------------------------ switches for input classes the statement may or may not promise
# (evaluated and counted in ck.notes either way; asserted only when the flag is True)
ASSERT_SIZED_INSIDE_ANGLE = False   # ARRAY<VARCHAR(10)>, MAP<STRING,DECIMAL(10,2)>  (unchanged tree: table silently lost)
ASSERT_MAX_ANY_CASE = False         # VARCHAR(MAX) / (Max)                           (unchanged tree: size None)
ASSERT_CASE_AFTER_CHECK = False     # a, ... CHECK (...), b ARRAY<double>  ->  'ARRAY<DOUBLE>' (unchanged tree: letter case of the type changes)
NOT_ASSERTED = "not_asserted"

# ------------------------------------------------------------------ vocabulary (no keyword-shaped words: that is C06's subject)
ATOMS = ["INT", "STRING", "BIGINT", "int", "string", "double", "BOOLEAN", "DATE", "timestamp", "float", "INT64", "BOOL",
         "binary", "tinyint", "text", "Varchar"]
FIELDS = ["a", "b", "c1", "year", "place", "details", "x_y", "Id", "f", "g2", "lat", "lon", "array_len", "arrays", "map_id", "struct_no"]
TWO_WORD = [("double", "precision"), ("character", "varying"), ("long", "varchar"), ("long", "raw"), ("national", "character"),
            ("bigint", "unsigned"), ("int", "unsigned"), ("DOUBLE", "PRECISION"), ("CHARACTER", "VARYING")]
SIZED_BASES = ["varchar", "VARCHAR", "char", "numeric", "decimal", "DECIMAL", "number", "NUMBER", "varchar2", "VARCHAR2", "nvarchar",
               "int", "TIMESTAMP", "time", "Nvarchar2"]


# ------------------------------------------------------------------ type AST
def atom(n):
    return ("atom", n)


def sized(base, form, args):
    """form: n | ps | max | nchar | stars ; base: one word or a (w1, w2) pair"""
    return ("sized", base, form, tuple(args))


def suffix(inner, n=1):
    return ("suffix", inner, n)


def two(w1, w2):
    return ("two", w1, w2)


def array(t, word="ARRAY"):
    return ("array", t, word)


def map_(k, v, word="MAP"):
    return ("map", k, v, word)


def struct(fields, style=":", word="STRUCT"):
    """style ':' -> a:T (hive)   ' ' -> a T (bigquery)"""
    return ("struct", tuple(fields), style, word)


def depth(t):
    k = t[0]
    if k == "array":
        return 1 + depth(t[1])
    if k == "map":
        return 1 + max(depth(t[1]), depth(t[2]))
    if k == "struct":
        return 1 + max(depth(ft) for _, ft in t[1])
    if k == "suffix":
        return depth(t[1])
    return 0


def has_kind(t, kinds, inside_angle=False, want_inside=False):
    """does the expression contain a node of one of `kinds` (optionally: only below an angle bracket)?"""
    k = t[0]
    if k in kinds and (inside_angle or not want_inside):
        return True
    if k == "array":
        return has_kind(t[1], kinds, True, want_inside)
    if k == "map":
        return has_kind(t[1], kinds, True, want_inside) or has_kind(t[2], kinds, True, want_inside)
    if k == "struct":
        return any(has_kind(ft, kinds, True, want_inside) for _, ft in t[1])
    if k == "suffix":
        return has_kind(t[1], kinds, inside_angle, want_inside)
    return False


def is_angle(t):
    return t[0] in ("array", "map", "struct")


def has_inner_comma(t):
    """an angle-bracket type with at least one comma inside its brackets (MAP, or STRUCT with two or more fields), at any depth"""
    k = t[0]
    if k == "map":
        return True
    if k == "struct":
        return len(t[1]) > 1 or any(has_inner_comma(ft) for _, ft in t[1])
    if k == "array":
        return has_inner_comma(t[1])
    return False


# ------------------------------------------------------------------ spacing profiles
# keys: ca (after inner comma), cb (before inner comma), lb (before <), la (after <), gb (before >), col (after ':'), colb (before ':'),
#       pb (before '(' of a size), pi (inside size parens, both ends), pc (after the comma of (p,s)), sb (before '[')
TIGHT = dict(ca="", cb="", lb="", la="", gb="", col="", colb="", pb="", pi="", pc="", sb="")
PROFILES = {
    "tight": {},
    "comma-space": dict(ca=" "),
    "space-before-comma": dict(cb=" "),
    "space-both-comma": dict(ca=" ", cb=" "),
    "pad-inside": dict(la=" ", gb=" "),
    "space-before-lt": dict(lb=" "),
    "space-after-lt": dict(la=" "),
    "space-before-gt": dict(gb=" "),
    "colon-space": dict(col=" ", ca=" "),
    "colon-both": dict(col=" ", colb=" "),
    "all-spaces": dict(ca=" ", cb=" ", lb=" ", la=" ", gb=" ", col=" "),
    "newline-after-comma": dict(ca="\n        "),
    "newline-inside": dict(la="\n        ", gb="\n    ", ca="\n        "),
    "two-spaces": dict(ca="  ", la="  "),
}
SIZE_PROFILES = {
    "tight": {},
    "space-before-paren": dict(pb=" "),
    "pad-paren": dict(pi=" "),
    "comma-space": dict(pc=" "),
    "all": dict(pb=" ", pi=" ", pc=" "),
    "space-before-bracket": dict(sb=" "),
}


class Spacing:
    """one value per key, or (with rnd) an independent choice per occurrence"""

    def __init__(self, fixed=None, rnd=None, choices=None):
        self.fixed = dict(TIGHT, **(fixed or {}))
        self.rnd, self.choices = rnd, choices or {}
        self.used = set()

    def __call__(self, key):
        if self.rnd is not None and key in self.choices:
            v = self.rnd.choice(self.choices[key])
        else:
            v = self.fixed[key]
        if v:
            self.used.add(key)
        return v


RANDOM_CHOICES = dict(ca=["", " ", " ", "\n      "], cb=["", "", " "], lb=["", "", " "], la=["", "", " "], gb=["", "", " "], col=["", "", " "],
                      colb=["", "", "", " "], pb=["", " "], pi=["", " "], pc=["", " "], sb=["", "", " "])


def render(t, sp):
    k = t[0]
    if k == "atom":
        return t[1]
    if k == "two":
        return t[1] + " " + t[2]
    if k == "sized":
        base = t[1] if isinstance(t[1], str) else " ".join(t[1])
        form, a = t[2], t[3]
        if form == "n":
            inner = str(a[0])
        elif form == "ps":
            inner = "%d,%s%d" % (a[0], sp("pc"), a[1])
        elif form == "max":
            inner = a[0]
        elif form == "nchar":
            inner = "%d %s" % (a[0], a[1])
        else:  # stars
            inner = "*,%s%d" % (sp("pc"), a[0])
        pi = sp("pi")
        return "%s%s(%s%s%s)" % (base, sp("pb"), pi, inner, pi)
    if k == "suffix":
        return render(t[1], sp) + sp("sb") + "[]" * t[2]
    if k == "array":
        return "%s%s<%s%s%s>" % (t[2], sp("lb"), sp("la"), render(t[1], sp), sp("gb"))
    if k == "map":
        return "%s%s<%s%s%s,%s%s%s>" % (t[3], sp("lb"), sp("la"), render(t[1], sp), sp("cb"), sp("ca"), render(t[2], sp), sp("gb"))
    if k == "struct":
        parts = []
        for name, ft in t[1]:
            if t[2] == ":":
                parts.append("%s%s:%s%s" % (name, sp("colb"), sp("col"), render(ft, sp)))
            else:
                parts.append("%s %s" % (name, render(ft, sp)))
        body = ""
        for i, p_ in enumerate(parts):
            body += p_ if i == 0 else "%s,%s%s" % (sp("cb"), sp("ca"), p_)
        return "%s%s<%s%s%s>" % (t[3], sp("lb"), sp("la"), body, sp("gb"))
    raise ValueError(k)


def expected_of(t):
    """-> (type text as written without optional spaces, size)"""
    k = t[0]
    if k == "sized":
        base = t[1] if isinstance(t[1], str) else " ".join(t[1])
        form, a = t[2], t[3]
        size = {"n": lambda: a[0], "ps": lambda: (a[0], a[1]), "max": lambda: a[0], "nchar": lambda: "%d %s" % (a[0], a[1]),
                "stars": lambda: ("*", a[0])}[form]()
        return base, size
    if k == "suffix":
        b, s = expected_of(t[1])
        return b + "[]" * t[2], s
    return render(t, Spacing()), None


def canon(s):
    """remove the white space the statement leaves open (around < > , : [ ] and runs of blanks); the word ARRAY is reported upper-case"""
    s = re.sub(r"\s+", " ", str(s).strip())
    s = re.sub(r"\s*([<>,:\[\]])\s*", r"\1", s)
    return re.sub(r"(?i)\barray\b", "ARRAY", s)


def balanced(s):
    pairs = {">": "<", "]": "[", ")": "("}
    st = []
    for ch in s:
        if ch in "<[(":
            st.append(ch)
        elif ch in pairs:
            if not st or st.pop() != pairs[ch]:
                return False
    return not st


# ------------------------------------------------------------------ options, neighbours, tables
DEFAULT_VALUES = [("1", 1), ("'abc'", "'abc'"), ("42", 42), ("0", 0), ("'<x>'", "'<x>'")]
COMMENTS = ["'x y'", "'note'", "'n<1'", "'a>b'"]
OPTION_SETS = [()] + [p for n in (1, 2, 3) for p in itertools.permutations(("NOT NULL", "DEFAULT", "COMMENT"), n)]
OPTION_SUBSETS = [(), ("NOT NULL",), ("DEFAULT",), ("COMMENT",), ("NOT NULL", "DEFAULT"), ("DEFAULT", "NOT NULL"), ("NOT NULL", "COMMENT"),
                  ("DEFAULT", "COMMENT"), ("NOT NULL", "DEFAULT", "COMMENT"), ("DEFAULT", "NOT NULL", "COMMENT")]


def option_text(opts, dv, cm):
    parts, exp = [], dict(nullable=True, default=None)
    for o in opts:
        if o == "NOT NULL":
            parts.append("NOT NULL")
            exp["nullable"] = False
        elif o == "DEFAULT":
            parts.append("DEFAULT " + dv[0])
            exp["default"] = dv[1]
        else:
            parts.append("COMMENT " + cm)
            exp["comment"] = cm
    return (" " + " ".join(parts)) if parts else "", exp


# plain neighbours: (ddl, expected view)
NEIGHBOURS = [
    ("a int", dict(name="a", type="int", size=None, nullable=True, default=None)),
    ("id bigint NOT NULL", dict(name="id", type="bigint", size=None, nullable=False, default=None)),
    ("k varchar(10) DEFAULT 'k'", dict(name="k", type="varchar", size=10, nullable=True, default="'k'")),
    ("amount decimal(10,2)", dict(name="amount", type="decimal", size=(10, 2), nullable=True, default=None)),
    ("c varchar(5) NOT NULL", dict(name="c", type="varchar", size=5, nullable=False, default=None)),
    ("note text COMMENT 'n'", dict(name="note", type="text", size=None, nullable=True, default=None)),
    ("flag boolean DEFAULT 0 NOT NULL", dict(name="flag", type="boolean", size=None, nullable=False, default=0)),
    ("ts timestamp", dict(name="ts", type="timestamp", size=None, nullable=True, default=None)),
    # keyword-shaped neighbour names (legal column names next to a plain type; they rely on the separating comma being typed COMMA)
    ("comment varchar(20)", dict(name="comment", type="varchar", size=20, nullable=True, default=None)),
    ("key int", dict(name="key", type="int", size=None, nullable=True, default=None)),
    ("options text", dict(name="options", type="text", size=None, nullable=True, default=None)),
    ("tag int NOT NULL", dict(name="tag", type="int", size=None, nullable=False, default=None)),
    ("order int", dict(name="order", type="int", size=None, nullable=True, default=None)),
    ("type varchar(3)", dict(name="type", type="varchar", size=3, nullable=True, default=None)),
    ("array_col int DEFAULT 7", dict(name="array_col", type="int", size=None, nullable=True, default=7)),
    # neighbours carrying a column-level CHECK (the lexer's `check` flag switches the bracket counter off)
    ("age int CHECK (age > 0)", dict(name="age", type="int", size=None, nullable=True, default=None)),
    ("lvl int NOT NULL CHECK (lvl < 10)", dict(name="lvl", type="int", size=None, nullable=False, default=None)),
]
N_PLAIN = len(NEIGHBOURS) - 2          # NEIGHBOURS[:N_PLAIN] carry no CHECK
CHECK_NEIGHBOURS = (N_PLAIN, N_PLAIN + 1)
BEFORE_STMTS = {
    "table": ("CREATE TABLE t0 (p int, q varchar(3) NOT NULL);", 1),
    "complex-table": ("CREATE TABLE t0 (\n    p MAP<STRING,ARRAY<INT>>,\n    q varchar(3) NOT NULL\n);", 1),
    # an unsupported statement with an unbalanced '<': yields nothing, and must not leave the bracket counter dirty
    "select-lt": ("SELECT p FROM t0 WHERE p < 3;", 0),
    # earlier text of the script with an odd number of apostrophes (a comment, an escaped quote in a literal): what stands before a
    # statement does not change how its types are read
    "comment-with-apostrophe": ("-- the customer's orders", 0),
    "table-with-escaped-quote": ("CREATE TABLE t0 (p int, q varchar(8) DEFAULT 'it\\'s');", 1),
}
AFTER_STMTS = {
    "table": ("CREATE TABLE t9 (\n    u int NOT NULL,\n    v varchar(7),\n    w decimal(4,1) DEFAULT 0\n);", 1),
    "complex-table": ("CREATE TABLE t9 (\n    u STRUCT<a:INT,b:ARRAY<STRING>> NOT NULL,\n    v varchar(7),\n    w decimal(4,1) DEFAULT 0\n);", 1),
}
TARGET_NAMES = ["b", "col_x", "payload", "items", "Tags", "m1", "vals", "attrs", "geo", "props", "hist", "Nested_1"]


def _view(col):
    return {k: col.get(k) for k in ("name", "type", "size", "nullable", "default")}


class Case:
    """one script: table `t` whose columns are plain neighbours and targets, optional tail clause, optional neighbouring statements"""

    def __init__(self):
        self.cols = []      # ("plain", ddl, view) | ("target", name, type_ast, spacing, opts, dv, cm)
        self.layout = 0
        self.tail = None    # None | "pk"
        self.before_stmt = None   # None | key of BEFORE_STMTS
        self.after_stmt = None    # None | key of AFTER_STMTS
        self.table = "t"

    def script(self, control=False):
        texts = []
        for c in self.cols:
            if c[0] == "plain":
                texts.append(c[1])
            else:
                _, name, t, sp, opts, dv, cm, text = c
                typ = "int" if control else text
                texts.append(name + " " + typ + option_text(opts, dv, cm)[0])
        if self.tail == "pk":
            texts.append("PRIMARY KEY (%s)" % self.first_name())
        if self.layout == 0:
            ddl = "CREATE TABLE %s (\n    %s\n);" % (self.table, ",\n    ".join(texts))
        elif self.layout == 1:
            ddl = "CREATE TABLE %s (%s);" % (self.table, ", ".join(texts))
        elif self.layout == 2:
            ddl = "CREATE TABLE %s (\n    %s\n);" % (self.table, "\n  , ".join(texts))
        else:
            ddl = "CREATE TABLE %s (%s);" % (self.table, ",".join(texts))
        parts = []
        if self.before_stmt:
            parts.append(BEFORE_STMTS[self.before_stmt][0])
        parts.append(ddl)
        if self.after_stmt:
            parts.append(AFTER_STMTS[self.after_stmt][0])
        return "\n\n".join(parts)

    def n_entities(self):
        return 1 + (BEFORE_STMTS[self.before_stmt][1] if self.before_stmt else 0) + (AFTER_STMTS[self.after_stmt][1] if self.after_stmt else 0)

    def first_name(self):
        c = self.cols[0]
        return c[2]["name"] if c[0] == "plain" else c[1]

    def add_plain(self, i):
        self.cols.append(("plain",) + NEIGHBOURS[i % N_PLAIN])

    def add_check_neighbour(self, i):
        self.cols.append(("plain",) + NEIGHBOURS[CHECK_NEIGHBOURS[i % len(CHECK_NEIGHBOURS)]])

    def add_target(self, name, t, sp, opts=(), dv=DEFAULT_VALUES[0], cm=COMMENTS[0]):
        text = render(t, sp)
        self.cols.append(("target", name, t, sp, tuple(opts), dv, cm, text))

    def targets(self):
        return [(i, c) for i, c in enumerate(self.cols) if c[0] == "target"]


# ------------------------------------------------------------------ known-defect / not-asserted input classes (decided from the INPUT)
def _input_class(t):
    """-> (slug or None, asserted?)"""
    if has_kind(t, ("sized",), want_inside=True):
        return "sized-type-inside-angle-brackets", ASSERT_SIZED_INSIDE_ANGLE
    if has_kind(t, ("sized",)):
        node = t
        while node[0] == "suffix":
            node = node[1]
        if node[0] == "sized" and node[2] == "max" and node[3][0] != "max":
            return "size-max-not-lower-case", ASSERT_MAX_ANY_CASE
    return None, True


def _case_class(case):
    slug, asserted = None, True
    for _, c in case.targets():
        s, a = _input_class(c[2])
        if s and (slug is None or not a):
            slug, asserted = s, a
    if slug is None:
        # KNOWN DEFECT (unchanged tree): the lexer's `check` flag stays set from a column-level CHECK to the end of the statement and
        # switches the < > counter off, so an angle-bracket type written in a LATER column of the same table is not tracked
        seen_check = False
        for c in case.cols:
            if c[0] == "plain" and " CHECK " in c[1]:
                seen_check = True
            elif c[0] == "target" and seen_check and has_inner_comma(c[2]):
                return "angle-type-with-inner-comma-after-check-column", True
            elif c[0] == "target" and seen_check and is_angle(c[2]) and any(
                    tok.startswith("ARRAY") and tok != tok.upper() for tok in c[7].replace(",", " , ").split()):
                # same root cause, milder symptom: a white-space delimited token ARRAY<...> is lexed as the keyword ARRAY and upper-cased
                return "array-token-with-lower-case-letters-after-check-column", ASSERT_CASE_AFTER_CHECK
    return slug, asserted


# ------------------------------------------------------------------ the contract
_control_cache = {}


def _parse_cached(ddl, run_kw):
    key = (ddl, tuple(sorted(run_kw.items())))
    if key not in _control_cache:
        if len(_control_cache) > 20000:
            _control_cache.clear()
        _control_cache[key] = parse(ddl, **run_kw)
    return _control_cache[key]


def check_case(ck, set_name, key, case, run_kw=None):
    run_kw = run_kw or {}
    ddl = case.script()
    slug, asserted = _case_class(case)
    info = dict(ddl=ddl)
    if run_kw:
        info["run"] = run_kw

    def fail(symptom, **kw):
        if not asserted:
            ck.notes.setdefault(NOT_ASSERTED, {}).setdefault(slug, dict(evaluated=0, deviating=0, first=None))
            n = ck.notes[NOT_ASSERTED][slug]
            n["deviating"] += 1
            if n["first"] is None:
                n["first"] = dict(ddl=ddl, symptom=symptom, **{k: str(v)[:300] for k, v in kw.items()})
            return
        cls = "c09:" + (slug if slug else symptom)
        ck.fail(set_name, key, cls, dict(info, symptom=symptom, **kw))

    if not asserted:
        ck.notes.setdefault(NOT_ASSERTED, {}).setdefault(slug, dict(evaluated=0, deviating=0, first=None))["evaluated"] += 1

    r = parse(ddl, **run_kw)
    if r[0] != "ok":
        return fail("exception", observed=r, expected="no exception")
    ents, _ = entities(r[1])
    n_stmts = case.n_entities()
    tabs = [e for e in ents if isinstance(e, dict) and e.get("table_name") == case.table]
    if len(tabs) != 1:
        return fail("table-lost", observed=[e.get("table_name") for e in ents if isinstance(e, dict)],
                    expected="%d entities incl. table %s" % (n_stmts, case.table))
    if len(ents) != n_stmts:
        return fail("neighbour-statement-changed", observed=[e.get("table_name") for e in ents if isinstance(e, dict)],
                    expected="%d entities incl. table %s" % (n_stmts, case.table))
    tab = tabs[0]
    names = [c[2]["name"] if c[0] == "plain" else c[1] for c in case.cols]
    got_names = [c.get("name") for c in tab.get("columns", [])]
    if got_names != names:
        return fail("column-lost" if len(got_names) < len(names) else "column-list-differs",
                    observed=[(c.get("name"), c.get("type"), c.get("size")) for c in tab.get("columns", [])], expected=names)
    # --- generator-computed expectations
    for i, c in enumerate(case.cols):
        got = tab["columns"][i]
        in_pk = case.tail == "pk" and i == 0   # a column named in the PRIMARY KEY clause is not nullable
        if c[0] == "plain":
            ev = dict(c[2], nullable=False) if in_pk else c[2]
            if _view(got) != ev:
                return fail("neighbour-changed", observed=_view(got), expected=ev, column=c[2]["name"])
            continue
        _, name, t, sp, opts, dv, cm, text = c
        etype, esize = expected_of(t)
        gtype = got.get("type")
        if not isinstance(gtype, str) or canon(gtype) != canon(etype):
            return fail("type-text", observed=gtype, expected=etype, column=name, written=text)
        if not balanced(gtype):
            return fail("unbalanced-type", observed=gtype, expected=etype, column=name)
        if got.get("size") != esize or type(got.get("size")) is not type(esize):
            return fail("size", observed=got.get("size"), expected=esize, column=name, written=text)
        if "type_parameters" in got:
            return fail("size-as-type-parameters", observed=got.get("type_parameters"), expected="no type_parameters key", column=name)
        eopt = option_text(opts, dv, cm)[1]
        if in_pk:
            eopt["nullable"] = False
        gopt = {k: got.get(k) for k in eopt}
        if gopt != eopt:
            return fail("option-lost", observed=gopt, expected=eopt, column=name, written=text + option_text(opts, dv, cm)[0])
    # --- metamorphic frame: everything else equals the control (every generated type replaced by int)
    ctl = _parse_cached(case.script(control=True), run_kw)
    if ctl[0] != "ok":
        return fail("control-not-parsed", observed=ctl, expected="the script with plain int types parses")
    patched = [dict(e) if isinstance(e, dict) else e for e in r[1]]
    for e in patched:
        if isinstance(e, dict) and e.get("table_name") == case.table and isinstance(e.get("columns"), list):
            cols = [dict(c) for c in e["columns"]]
            for i, c in case.targets():
                if i < len(cols):
                    cols[i]["type"], cols[i]["size"] = "int", None
            e["columns"] = cols
    if jdump(patched) != jdump(ctl[1]):
        where = "target-column-extra-difference"
        try:
            pt = [e for e in patched if isinstance(e, dict) and e.get("table_name") == case.table][0]
            ct = [e for e in ctl[1] if isinstance(e, dict) and e.get("table_name") == case.table][0]
            tidx = set(i for i, _ in case.targets())
            same_targets = all(jdump(pt["columns"][i]) == jdump(ct["columns"][i]) for i in tidx)
            if same_targets:
                where = "neighbour-changed"
        except Exception:
            where = "neighbour-changed"
        return fail(where, observed=r[1], expected=ctl[1])
    ck.ok(set_name, key, dict(ddl=ddl[:300]))


def _check_partition(ck, key, t, sp, pos, layout):
    text = render(t, sp)
    etype, esize = expected_of(t)

    def script(typ):
        parts = ["e STRING"]
        parts.insert(pos, "d " + typ)
        sep = "\n" if layout else " "
        return "CREATE TABLE t (a int, k varchar(10) NOT NULL)%sPARTITIONED BY (%s)%sSTORED AS PARQUET;" % (sep, ", ".join(parts), sep)
    ddl = script(text)
    run_kw = dict(output_mode="hql")
    info = dict(ddl=ddl, run=run_kw)
    r, ctl = parse(ddl, **run_kw), _parse_cached(script("int"), run_kw)
    if r[0] != "ok" or ctl[0] != "ok" or len(entities(r[1])[0]) != 1 or len(entities(ctl[1])[0]) != 1:
        return ck.fail("partition-columns", key, "c09:table-lost", dict(info, observed=r, expected="one table"))
    tab, ctab = dict(entities(r[1])[0][0]), entities(ctl[1])[0][0]
    pcols = [dict(c) for c in (tab.get("partitioned_by") or [])]
    if [c.get("name") for c in pcols] != [c.get("name") for c in ctab.get("partitioned_by") or []] or len(pcols) != 2:
        return ck.fail("partition-columns", key, "c09:column-lost", dict(info, observed=pcols, expected=ctab.get("partitioned_by")))
    got = pcols[pos]
    if not isinstance(got.get("type"), str) or canon(got["type"]) != canon(etype) or not balanced(got["type"]):
        return ck.fail("partition-columns", key, "c09:type-text", dict(info, observed=got.get("type"), expected=etype))
    if got.get("size") != esize or "type_parameters" in got:
        return ck.fail("partition-columns", key, "c09:size", dict(info, observed=got, expected=esize))
    got["type"], got["size"] = "int", None
    tab["partitioned_by"] = pcols
    if jdump(tab) != jdump(ctab):
        return ck.fail("partition-columns", key, "c09:neighbour-changed", dict(info, observed=r[1], expected=ctl[1]))
    ck.ok("partition-columns", key, dict(ddl=ddl))


# ------------------------------------------------------------------ enumerated type shapes
def shapes(max_depth):
    """representative expressions of every constructor at depth 0..max_depth (token shapes: single token with < and >,
    last token closing more than it opens, commas at depth 1/2/3, >> and >>> runs)"""
    A, M, S = array, map_, struct
    i, s, b, d = atom("INT"), atom("STRING"), atom("bigint"), atom("double")
    d0 = [
        ("sized-n", sized("varchar", "n", [10])), ("sized-n-upper", sized("VARCHAR", "n", [255])), ("sized-ps", sized("decimal", "ps", [10, 2])),
        ("sized-ps-38-0", sized("DECIMAL", "ps", [38, 0])), ("sized-max", sized("varchar", "max", ["max"])),
        ("sized-nchar", sized("varchar2", "nchar", [30, "CHAR"])), ("sized-nchar-lower", sized("varchar2", "nchar", [30, "char"])),
        ("sized-nchar-upper-base", sized("VARCHAR2", "nchar", [4000, "CHAR"])), ("sized-stars", sized("number", "stars", [2])),
        ("sized-stars-0", sized("NUMBER", "stars", [0])), ("suffix", suffix(atom("int"))), ("suffix2", suffix(atom("text"), 2)),
        ("suffix-sized", suffix(sized("varchar", "n", [10]))), ("suffix-sized-ps", suffix(sized("decimal", "ps", [10, 2]))),
        ("suffix2-sized", suffix(sized("varchar", "n", [10]), 2)), ("two", two("double", "precision")), ("two-cv", two("character", "varying")),
        ("two-sized", sized(("character", "varying"), "n", [10])), ("two-suffix", suffix(two("double", "precision"))),
        ("two-sized-suffix", suffix(sized(("character", "varying"), "n", [10]))), ("two-unsigned", two("bigint", "unsigned")),
        ("two-long", two("long", "varchar")),
    ]
    d1 = [
        ("A", A(s)), ("A-lower", A(atom("int"), "array")), ("M", M(s, i)), ("M-lower", M(atom("string"), atom("int"), "map")),
        ("S1", S([("a", i)])), ("S2", S([("a", i), ("b", s)])), ("S3", S([("year", i), ("place", s), ("details", s)])),
        ("S2-space", S([("a", atom("INT64")), ("b", atom("BOOL"))], " ")), ("S1-lower", S([("x_y", atom("double"))], ":", "struct")),
    ]
    d2 = [
        ("A<A>", A(A(i))), ("A<M>", A(M(s, i))), ("A<S>", A(S([("a", i), ("b", s)]))), ("M<_,A>", M(s, A(i))), ("M<_,M>", M(s, M(s, i))),
        ("M<_,S>", M(s, S([("year", i), ("place", s), ("details", s)]))), ("S<A,M>", S([("a", A(i)), ("b", M(s, s))])),
        ("S<_,A>", S([("a", i), ("b", A(i))])), ("S<A,_>", S([("a", A(i)), ("b", s)])), ("S<S>", S([("a", S([("b", i)]))])),
        ("S<A,A,A>", S([("a", A(i)), ("b", A(s)), ("c1", A(d))])), ("S-space<A>", S([("a", A(s)), ("b", atom("BOOL"))], " ")),
        ("A<S-space>", A(S([("a", atom("INT64")), ("b", s)], " "))), ("M<A,_>", M(A(i), s)),
    ]
    d3 = [
        ("A<M<_,A>>", A(M(s, A(i)))), ("M<_,A<S>>", M(s, A(S([("a", i), ("b", s)])))), ("S<S<S>>", S([("a", S([("b", S([("c1", i)]))]))])),
        ("A<A<A>>", A(A(A(i)))), ("S<_,M<_,A>>", S([("a", i), ("b", M(s, A(i)))])), ("M<_,M<_,M>>", M(s, M(b, M(s, d)))),
        ("S<M<_,S>,A>", S([("a", M(s, S([("f", i), ("g2", s)]))), ("b", A(i))])),
        ("A<S-space<S-space<A>>>", A(S([("a", atom("INT64")), ("b", S([("c1", A(i))], " "))], " "))),
        ("S<A<S>,A<S>>", S([("a", A(S([("f", i), ("g2", s)]))), ("b", A(S([("lat", d), ("lon", d)])))])),
    ]
    d4 = [
        ("A<M<_,S<_,A>>>", A(M(s, S([("a", i), ("b", A(s))])))), ("S<S<S<S>>>", S([("a", S([("b", S([("c1", S([("f", i), ("g2", s)]))]))]))])),
        ("M<_,M<_,M<_,A>>>", M(s, M(s, M(s, A(i))))), ("A<A<A<A>>>", A(A(A(A(d))))),
    ]
    out = list(d0)
    for dd, lst in ((1, d1), (2, d2), (3, d3), (4, d4)):
        if dd <= max_depth:
            out += lst
    return out


def random_type(rnd, d, angle_only=False):
    """random expression of nesting depth <= d"""
    if d <= 0 or (not angle_only and rnd.random() < 0.25):
        return atom(rnd.choice(ATOMS))
    k = rnd.choice(["array", "map", "struct", "struct", "map"])
    if k == "array":
        return array(random_type(rnd, d - 1), rnd.choice(["ARRAY", "ARRAY", "ARRAY", "array"]))
    if k == "map":
        return map_(atom(rnd.choice(ATOMS)) if rnd.random() < 0.8 else random_type(rnd, d - 1), random_type(rnd, d - 1), rnd.choice(["MAP", "MAP", "map"]))
    n = rnd.choice([1, 2, 2, 3, 4])
    names = rnd.sample(FIELDS, n)
    return struct([(nm, random_type(rnd, d - 1)) for nm in names], rnd.choice([":", ":", " "]), rnd.choice(["STRUCT", "STRUCT", "struct"]))


def random_depth0(rnd):
    form = rnd.choice(["n", "ps", "max", "nchar", "stars", "suffix", "two", "two-sized", "suffix-sized"])
    if form == "n":
        return sized(rnd.choice(SIZED_BASES), "n", [rnd.choice([1, 5, 10, 11, 255, 4000, 65535])])
    if form == "ps":
        return sized(rnd.choice(["decimal", "DECIMAL", "numeric", "number", "NUMBER"]), "ps", [rnd.choice([5, 10, 18, 38]), rnd.choice([0, 1, 2, 10])])
    if form == "max":
        return sized(rnd.choice(["varchar", "VARCHAR", "nvarchar", "varbinary"]), "max", ["max"])
    if form == "nchar":
        return sized(rnd.choice(["varchar2", "VARCHAR2", "char", "Nvarchar2"]), "nchar", [rnd.choice([1, 30, 4000]), rnd.choice(["CHAR", "char", "Char"])])
    if form == "stars":
        return sized(rnd.choice(["number", "NUMBER"]), "stars", [rnd.choice([0, 2, 10])])
    if form == "suffix":
        return suffix(atom(rnd.choice(["int", "text", "varchar", "bigint", "INT"])), rnd.choice([1, 1, 2]))
    if form == "two":
        return two(*rnd.choice(TWO_WORD))
    if form == "two-sized":
        return sized(rnd.choice([("character", "varying"), ("CHARACTER", "VARYING"), ("national", "character")]), "n", [rnd.choice([1, 10, 255])])
    return suffix(sized(rnd.choice(["varchar", "char", "numeric"]), "n", [rnd.choice([1, 10, 255])]), rnd.choice([1, 1, 2]))


# ------------------------------------------------------------------ the check
def check(ck):
    rnd = ck.rnd
    quick = ck.quick()
    max_d = 3 if quick else 4
    shp = shapes(max_d)

    # (1) every shape x 3 positions x following options (ordered subsets), both inner-comma spacings, layouts rotating
    opt_sets = OPTION_SUBSETS if quick else OPTION_SETS
    n = 0
    for si, (sname, t) in enumerate(shp):
        for pos in range(3):
            for oi, opts in enumerate(opt_sets):
                if quick and (si + pos + oi) % 2 and len(opts) > 1:
                    continue
                for comma in (("tight", "comma-space") if is_angle(t) and (not quick or (oi + pos) % 3 == 0) else ("tight" if (si + oi + pos) % 2 else "comma-space",)):
                    n += 1
                    case = Case()
                    case.layout = (si + pos + oi) % 4
                    case.tail = "pk" if (si + oi) % 5 == 0 else None
                    case.after_stmt = [None, "table", None, "complex-table", None, None][(si + pos + oi) % 6]
                    case.before_stmt = [None, None, "table", None, "comment-with-apostrophe", "select-lt", None, None, "complex-table", None, "table-with-escaped-quote"][(si + 2 * oi + pos) % 11]
                    prof = dict(PROFILES[comma])
                    if comma == "comma-space":
                        prof["pc"] = " "
                    others = [(si + pos) % N_PLAIN, (si + pos + 3) % N_PLAIN]
                    order = [("p", others[0]), ("p", others[1])]
                    order.insert(pos, ("t", None))
                    for kind, idx in order:
                        if kind == "p":
                            case.add_plain(idx)
                        else:
                            case.add_target("b", t, Spacing(prof), opts, DEFAULT_VALUES[(si + oi) % len(DEFAULT_VALUES)], COMMENTS[(si + pos) % len(COMMENTS)])
                    check_case(ck, "shape-position-options", (sname, pos, opts, comma), case)

    # (2) every angle shape x every spacing profile (middle position, option rotating); size shapes x size spacing profiles
    for si, (sname, t) in enumerate(shp):
        profs = PROFILES if is_angle(t) else SIZE_PROFILES
        for pi, (pname, prof) in enumerate(sorted(profs.items())):
            if pname == "tight":
                continue
            if not is_angle(t) and not (has_kind(t, ("sized", "suffix"))):
                continue
            for pos in ((1,) if quick else (0, 1, 2)):
                case = Case()
                case.layout = (si + pi) % 3   # layouts 0-2; newline profiles need no particular layout
                case.after_stmt = "table" if (si + pi) % 4 == 0 else None
                opts = OPTION_SUBSETS[(si + pi + pos) % len(OPTION_SUBSETS)]
                order = [("p", si % N_PLAIN), ("p", (si + 4) % N_PLAIN)]
                order.insert(pos, ("t", None))
                for kind, idx in order:
                    if kind == "p":
                        case.add_plain(idx)
                    else:
                        case.add_target("col_x", t, Spacing(prof), opts, DEFAULT_VALUES[(si + pi) % len(DEFAULT_VALUES)], COMMENTS[(si + pi) % len(COMMENTS)])
                check_case(ck, "spacing-profiles", (sname, pname, pos), case)

    # (3) random scripts: 1-8 columns, 1-3 generated types at random positions (adjacent ones included), random depth / spacing per occurrence
    n_rand = 700 if quick else 20000
    for i in range(n_rand):
        case = Case()
        case.layout = rnd.randrange(4)
        case.tail = rnd.choice([None, None, "pk"])
        case.before_stmt = rnd.choice([None, None, None, None, "table", "complex-table", "select-lt"])
        case.after_stmt = rnd.choice([None, None, None, "table", "complex-table"])
        ncols = rnd.randint(1, 8) if quick or rnd.random() < 0.7 else rnd.randint(9, 15)
        ntargets = min(ncols, rnd.choice([1, 1, 2, 3] if ncols < 9 else [2, 4, 6]))
        tpos = set(rnd.sample(range(ncols), ntargets))
        plain = rnd.sample(range(N_PLAIN), min(N_PLAIN, ncols))
        names = rnd.sample(TARGET_NAMES, ntargets)
        for ci in range(ncols):
            if ci in tpos:
                if rnd.random() < 0.7:
                    t = random_type(rnd, rnd.randint(1, 3 if quick else 5), angle_only=True)
                else:
                    t = random_depth0(rnd)
                sp = Spacing(rnd=rnd, choices=RANDOM_CHOICES) if rnd.random() < 0.6 else Spacing(PROFILES[rnd.choice(["tight", "comma-space"])])
                case.add_target(names.pop(), t, sp, rnd.choice(OPTION_SETS), rnd.choice(DEFAULT_VALUES), rnd.choice(COMMENTS))
            else:
                case.add_plain(plain[ci % len(plain)] if ci < len(plain) else ci)
        # plain neighbour names must be distinct
        seen, okc = set(), True
        for c in case.cols:
            nm = c[2]["name"] if c[0] == "plain" else c[1]
            okc = okc and nm not in seen
            seen.add(nm)
        if not okc:
            continue
        check_case(ck, "random-scripts", i, case)

    # (4) output modes: the reported type/size do not depend on the mode; frame against the control in the same mode
    mode_shapes = [x for x in shp if x[0] in ("sized-ps", "sized-nchar", "suffix-sized", "two-sized", "A", "M", "S2", "M<_,A>", "S<A,M>", "A<M<_,A>>", "S<_,M<_,A>>")]
    for si, (sname, t) in enumerate(mode_shapes if not quick else mode_shapes[::2]):
        for mi, mode in enumerate(MODES):
            if quick and (si + mi) % 3:
                continue
            case = Case()
            case.layout = mi % 3
            case.add_plain(si)
            case.add_target("payload", t, Spacing(PROFILES["tight" if mi % 2 else "comma-space"]), OPTION_SUBSETS[(si + mi) % len(OPTION_SUBSETS)])
            case.add_plain(si + 4)
            check_case(ck, "output-modes", (sname, mode), case, dict(output_mode=mode))

    # (6) a neighbour carrying a column-level CHECK, before / after the generated type (before + angle type = known-defect input class)
    chk_shapes = [x for x in shp if not quick or x[0] in ("sized-ps", "sized-nchar", "suffix-sized", "two-sized", "sized-stars", "A", "A-lower", "M", "S1", "S2", "S2-space",
                                                            "A<A>", "M<_,A>", "S<A,M>", "A<M<_,A>>")]
    for si, (sname, t) in enumerate(chk_shapes):
        for where in ("check-before", "check-after", "check-first-target-last"):
            for comma in ("tight", "comma-space"):
                case = Case()
                case.layout = (si + len(where)) % 4
                opts = OPTION_SUBSETS[(si + len(where)) % len(OPTION_SUBSETS)]
                prof = dict(PROFILES[comma], pc=" " if comma == "comma-space" else "")
                if where == "check-before":
                    case.add_check_neighbour(si)
                    case.add_target("b", t, Spacing(prof), opts)
                    case.add_plain(si)
                elif where == "check-after":
                    case.add_plain(si)
                    case.add_target("b", t, Spacing(prof), opts)
                    case.add_check_neighbour(si)
                else:
                    case.add_check_neighbour(si)
                    case.add_plain(si + 1)
                    case.add_plain(si + 5)
                    case.add_target("b", t, Spacing(prof), opts)
                check_case(ck, "check-neighbour", (sname, where, comma), case)

    # (7) the same types as HQL partition columns (PARTITIONED BY (...) after the column list: the lexer is in its after-columns state)
    part_shapes = [x for x in shp if not quick or x[0] in ("sized-n", "sized-ps", "A", "M", "S2", "A<A>", "M<_,A>", "S<A,M>", "S<_,A>", "A<M<_,A>>", "S<_,M<_,A>>")]
    for si, (sname, t) in enumerate(part_shapes):
        if has_kind(t, ("suffix", "two")) or (t[0] == "sized" and t[2] not in ("n", "ps")):
            continue   # hive partition columns: plain, (n), (p,s) and angle-bracket types only
        for pos in (0, 1):
            for comma in ("tight", "comma-space"):
                _check_partition(ck, (sname, pos, comma), t, Spacing(dict(PROFILES[comma], pc=" " if comma == "comma-space" else "")), pos, (si + pos) % 2)

    # (5) input classes that are evaluated but only asserted when the corresponding switch is on
    extra = [sized("varchar", "max", ["MAX"]), sized("VARCHAR", "max", ["MAX"]), sized("nvarchar", "max", ["Max"]),
             array(sized("VARCHAR", "n", [10])), array(sized("DECIMAL", "ps", [10, 2])), map_(atom("STRING"), sized("DECIMAL", "ps", [10, 2])),
             struct([("a", sized("varchar", "n", [10])), ("b", atom("INT"))]), array(map_(atom("STRING"), sized("char", "n", [1])))]
    for ei, t in enumerate(extra):
        for pos in range(3):
            for opts in ((), ("NOT NULL",), ("DEFAULT", "COMMENT")):
                case = Case()
                order = [("p", 0), ("p", 4)]
                order.insert(pos, ("t", None))
                for kind, idx in order:
                    if kind == "p":
                        case.add_plain(idx)
                    else:
                        case.add_target("b", t, Spacing(), opts)
                check_case(ck, "optional-input-classes", (ei, pos, opts), case)

    rule = ("type expressions generated from the recursive type grammar {atom, (n) (p,s) (max) (n CHAR) (*,s), [] suffixes, two-word types, ARRAY<T>, MAP<K,V>, "
            "STRUCT<a:T,...> / STRUCT<a T,...>} rendered under explicit spacing profiles, at every column position of generated tables, followed by ordered subsets of "
            "{NOT NULL, DEFAULT v, COMMENT 's'}; contract: table reported with exactly the declared columns; target type == written type modulo optional white space, "
            "brackets balanced; size as written; options as written; whole result == result of the control script (types replaced by int) after patching type/size "
            "(neighbouring columns, PRIMARY KEY tail, neighbouring statements unchanged); sets: shape-position-options, spacing-profiles, random-scripts, output-modes, "
            "check-neighbour (a neighbour with a column-level CHECK before / after), partition-columns (the same types in PARTITIONED BY (...), hql mode), "
            "optional-input-classes (sized types inside <>, (MAX) in other letter case, letter case of an ARRAY<..> token after a CHECK column: counted in notes, "
            "asserted only if the module switch is on)")
    bound = ("%d enumerated shapes of nesting depth <= %d x 3 positions x %d ordered option lists x {no space, space} after inner commas x 4 layouts rotating; "
             "x %d angle / %d size spacing profiles; %d random scripts (%s, generated types of depth <= %d, spacing drawn per occurrence); "
             "%d shapes x 15 output modes%s" % (len(shp), max_d, len(opt_sets), len(PROFILES) - 1, len(SIZE_PROFILES) - 1, n_rand,
                                               "1-8 columns of which 1-3 generated types" if quick else "1-15 columns of which 1-6 generated types", 3 if quick else 5,
                                               len(mode_shapes), " (sampled)" if quick else ""))
    return rule, bound
