"""C04 bounded stand-in: ALTER TABLE / CREATE INDEX change exactly the table they name, as declared.

Every script is generated from an abstract description (tables x columns, then a sequence of ALTER / CREATE INDEX
statements, each with a target table and a spelling of that target); the expected final state of every table
(column list, alter section, index list) is computed here by a small model that follows the property statement.
Tables the script never targets must equal the result of the same script without the ALTER / INDEX statements.
A statement naming a table that the script does not define must raise.

When one (schema, table) identity is registered twice (DROP TABLE t; CREATE TABLE t ... / an older CREATE TABLE t), the
statements that follow land on the LATEST definition and the earlier entity stays as parsed alone.

Two input families that used to be defects of the library (CREATE INDEX ... (x desc); ADD x, DROP COLUMN x, ADD y brought x
back) are repaired in /repo (25def03, 7fc4411); they are still generated, as ordinary asserted cases.
"""
import itertools

from bounded.common import MODES, entities, jdump, parse

QUOTES = [("", ""), ('"', '"'), ("`", "`"), ("[", "]")]
TYPES = [("int", "int", None), ("bigint", "bigint", None), ("varchar(10)", "varchar", 10), ("varchar(255)", "varchar", 255),
         ("decimal(10,2)", "decimal", [10, 2]), ("numeric(5)", "numeric", 5), ("text", "text", None), ("char(1)", "char", 1),
         ("date", "date", None), ("timestamp", "timestamp", None)]
# column options usable in CREATE TABLE
OPTS_CREATE = [("", {}), (" NOT NULL", {"nullable": False}), (" DEFAULT 7", {"default": "7"}), (" DEFAULT 'abc'", {"default": "'abc'"}),
               (" UNIQUE", {"unique": True})]
# column options usable after ALTER TABLE ... ADD / MODIFY (NULL / NOT NULL are not accepted there by the grammar: left out)
OPTS_ALTER = [("", {}), (" DEFAULT 7", {"default": "7"}), (" DEFAULT 'abc'", {"default": "'abc'"}), (" UNIQUE", {"unique": True})]
DEFAULT_VALUES = ["0", "42", "'abc'", "'two words'", "'1 WAY STREET'"]
CHECKS = ["%s > 0", "%s >= 18 AND %s < 65", "%s <> 1"]
FRESH = ["extra", "total", "created_on", "zip", "ratio", "memo", "Phone", "lvl", "k2", "updated_by", "is_open", "src"]
SPELLINGS = [(q, c) for q in range(4) for c in range(3)]
MODIFY_SYNTAX = ["MODIFY COLUMN", "MODIFY", "ALTER COLUMN"]


def _norm(x):
    """identity of an identifier per the statement: quoting and letter case do not matter"""
    if x is None:
        return None
    for a, b in QUOTES[1:]:
        if len(x) >= 2 and x[0] == a and x[-1] == b:
            x = x[1:-1]
            break
    return x.lower()


def _spell(bare, sp):
    q, c = sp
    s = bare if c == 0 else (bare.upper() if c == 1 else bare.lower())
    return QUOTES[q][0] + s + QUOTES[q][1]


def _col(name_txt, ti, opts, oi):
    """-> (ddl text, expected view)"""
    text = "%s %s%s" % (name_txt, TYPES[ti][0], opts[oi][0])
    v = dict(name=name_txt, type=TYPES[ti][1], size=TYPES[ti][2], nullable=True, default=None, unique=False, loose=False)
    v.update(opts[oi][1])
    return text, v


class _Table:
    def __init__(self, schema_bare, name_bare, decl_sp, colspecs, layout=0, pk_clause=False):
        """decl_sp = (schema spelling, name spelling) used in the CREATE; colspecs = [(name_txt, type idx, option idx)];
        pk_clause: True (first column) or a list of column positions: a table-level PRIMARY KEY clause over those of them that are
        declared NOT NULL (so the column views are unaffected)"""
        self.schema_bare, self.name_bare = schema_bare, name_bare
        self.schema = _spell(schema_bare, decl_sp[0]) if schema_bare is not None else None
        self.name = _spell(name_bare, decl_sp[1])
        self.key = (_norm(self.name), _norm(self.schema))
        texts, self.cols = [], []
        for n, ti, oi in colspecs:
            t, v = _col(n, ti, OPTS_CREATE, oi)
            texts.append(t)
            self.cols.append(v)
        pk = [colspecs[j][0] for j in ([0] if pk_clause is True else (pk_clause or [])) if colspecs[j][2] == 1]
        if pk:
            texts.append("PRIMARY KEY (%s)" % ", ".join(pk))
        full = (self.schema + "." if self.schema is not None else "") + self.name
        if layout == 0:
            self.create = "CREATE TABLE %s (\n    %s\n);" % (full, ",\n    ".join(texts))
        else:
            self.create = "CREATE TABLE %s (%s);" % (full, ", ".join(texts))
        self.uniques, self.primary_keys, self.checks, self.defaults, self.fks, self.index = [], [], [], [], [], []
        self.removed = []   # bare names dropped or renamed away (candidates for re-adding)
        self.pk_renames = []  # (normalised old name, new name text): primary_key follows RENAME COLUMN
        self.touched = False
        self.relaxed = set()  # entity keys outside columns / alter / index that a statement of this script may legitimately change

    def ref(self, sp_schema, sp_name):
        n = _spell(self.name_bare, sp_name)
        return n if self.schema_bare is None else _spell(self.schema_bare, sp_schema) + "." + n

    def names(self):
        return [_norm(c["name"]) for c in self.cols]

    def find(self, name_txt):
        k = _norm(name_txt)
        for i, c in enumerate(self.cols):
            if _norm(c["name"]) == k:
                return i
        return None


class _Script:
    def __init__(self, tables, sep="\n", lower_kw=False):
        """tables: entity-producing statements (CREATE TABLE, or a DROP TABLE stand-in) in script order; seq: the script"""
        self.tables, self.stmts, self.sep, self.lower_kw = list(tables), [], sep, lower_kw
        self.seq = [("base", t.create) for t in self.tables]

    def define(self, t):
        """one more entity-producing statement at the current position of the script"""
        self.tables.append(t)
        self.seq.append(("base", t.create))

    def creates(self):
        return self.sep.join(x for k, x in self.seq if k == "base")

    def text(self):
        return self.sep.join(x for _, x in self.seq)

    def _kw(self, words):
        """COLUMN / RENAME / MODIFY (and TO) in lower case when the script asks for it"""
        return words.lower() if self.lower_kw else words

    def _stmt(self, text):
        self.stmts.append(text)
        self.seq.append(("stmt", text))

    # ---- statements: each appends the text and applies the declared effect to the model of table t
    def _alter(self, t, ref, body, prefix=""):
        t.touched = True
        self._stmt("ALTER TABLE %s%s %s;" % (prefix, ref, body))

    def add(self, t, ref, name_txt, ti, oi, prefix=""):
        text, v = _col(name_txt, ti, OPTS_ALTER, oi)
        t.cols.append(v)
        self._alter(t, ref, "ADD " + text, prefix)

    def drop(self, t, ref, col_txt, prefix=""):
        i = t.find(col_txt)
        t.removed.append(_norm(t.cols[i]["name"]))
        del t.cols[i]
        self._alter(t, ref, "DROP %s %s" % (self._kw("COLUMN"), col_txt), prefix)

    def rename(self, t, ref, col_txt, new_txt, prefix=""):
        i = t.find(col_txt)
        t.removed.append(_norm(t.cols[i]["name"]))
        t.pk_renames.append((_norm(t.cols[i]["name"]), new_txt))
        t.cols[i]["name"] = new_txt
        t.cols[i]["loose"] = False
        self._alter(t, ref, "%s %s %s %s" % (self._kw("RENAME COLUMN"), col_txt, self._kw("TO"), new_txt), prefix)

    def modify(self, t, ref, syntax, col_txt, ti, oi, prefix=""):
        i = t.find(col_txt)
        text, v = _col(col_txt, ti, OPTS_ALTER, oi)
        # the statement does not say which spelling the modified column keeps when the two differ
        v["loose"] = col_txt != t.cols[i]["name"] or t.cols[i]["loose"]
        t.cols[i] = v
        kw = MODIFY_SYNTAX[syntax]
        self._alter(t, ref, "%s %s" % ("ALTER " + self._kw("COLUMN") if syntax == 2 else self._kw(kw), text), prefix)

    def unique(self, t, ref, cname, cols, prefix=""):
        t.uniques.append(dict(constraint_name=cname, columns=list(cols)))
        t.relaxed.add("constraints")
        if len(cols) == 1:
            for c in t.cols:
                if c["name"] == cols[0]:
                    c["unique"] = True
        self._alter(t, ref, "ADD %sUNIQUE (%s)" % ("CONSTRAINT %s " % cname if cname else "", ", ".join(cols)), prefix)

    def pkey(self, t, ref, cname, cols, prefix=""):
        t.primary_keys.append(dict(constraint_name=cname, columns=list(cols)))
        t.relaxed.update(["primary_key", "constraints"])
        self._alter(t, ref, "ADD %sPRIMARY KEY (%s)" % ("CONSTRAINT %s " % cname if cname else "", ", ".join(cols)), prefix)

    def check(self, t, ref, cname, expr, prefix=""):
        t.checks.append(dict(constraint_name=cname, statement=expr.replace(" ", "")))
        t.relaxed.update(["checks", "constraints"])
        self._alter(t, ref, "ADD %sCHECK (%s)" % ("CONSTRAINT %s " % cname if cname else "", expr), prefix)

    def default(self, t, ref, cname, value, cols, tight=False, prefix=""):
        t.defaults.append(dict(constraint_name=cname, columns=list(cols), value=value))
        for c in t.cols:
            if c["name"] in cols:
                c["default"] = value
        self._alter(t, ref, "ADD %sDEFAULT %s FOR %s" % ("CONSTRAINT %s " % cname if cname else "", value, ("," if tight else ", ").join(cols)), prefix)

    def fkey(self, t, ref, cname, cols, rschema, rtable, rcols, on_delete=None, on_update=None, update_first=False, prefix=""):
        t.relaxed.add("constraints")
        for c, r in zip(cols, rcols):
            t.fks.append(dict(name=c, constraint_name=cname, table=rtable, schema=rschema, on_delete=on_delete, on_update=on_update, column=r))
        on = []
        if on_delete:
            on.append("ON DELETE " + on_delete)
        if on_update:
            on.insert(0 if update_first else len(on), "ON UPDATE " + on_update)
        self._alter(t, ref, "ADD %sFOREIGN KEY (%s) REFERENCES %s%s (%s)%s" % (
            "CONSTRAINT %s " % cname if cname else "", ", ".join(cols), rschema + "." if rschema else "", rtable, ", ".join(rcols),
            "".join(" " + o for o in on)), prefix)

    def create_index(self, t, ref, iname, unique, cols, tight=False):
        """cols = [(name_txt, direction text or None)]"""
        t.touched = True
        det = []
        for n, d in cols:
            det.append([n, (d or "ASC").upper()])
        t.index.append(dict(index_name=iname, unique=unique, columns=[n for n, _ in cols], detailed=det))
        self._stmt("CREATE %sINDEX %s ON %s (%s);" % ("UNIQUE " if unique else "", iname, ref,
                                                             ("," if tight else ", ").join(n + (" " + d if d else "") for n, d in cols)))


# ---------------------------------------------------------------- observed views
def _ent_schema(e):
    return e["schema"] if "schema" in e else e.get("dataset")


def _col_view(c, loose=False):
    d = c.get("default")
    n = c.get("name")
    return [_norm(n) if loose else n, c.get("type"), c.get("size"), c.get("nullable"), None if d is None else str(d), c.get("unique")]


def _obs_columns(e, exp_cols):
    out = []
    for i, c in enumerate(e.get("columns") or []):
        loose = i < len(exp_cols) and exp_cols[i]["loose"]
        out.append(_col_view(c, loose) if isinstance(c, dict) else c)
    return out


def _exp_columns(cols, N):
    return [_col_view(dict(c, name=N(c["name"])), c["loose"]) for c in cols]


def _obs_alter(e):
    a = e.get("alter") or {}
    out = {}
    for k in ("uniques", "primary_keys"):
        out[k] = [dict(constraint_name=x.get("constraint_name"), columns=x.get("columns")) for x in (a.get(k) or [])]
    out["checks"] = [dict(constraint_name=x.get("constraint_name"), statement=str(x.get("statement")).replace(" ", "")) for x in (a.get("checks") or [])]
    # a ',' item between the listed columns is tolerated (not promised either way by the statement)
    out["defaults"] = [dict(constraint_name=x.get("constraint_name"), columns=[c for c in (x.get("columns") or []) if c != ","], value=str(x.get("value")))
                       for x in (a.get("defaults") or [])]
    fks = []
    for x in (a.get("columns") or []):
        r = x.get("references") if isinstance(x, dict) else None
        if isinstance(r, dict) and "type" not in x:
            fks.append(dict(name=x.get("name"), constraint_name=x.get("constraint_name"), table=r.get("table"),
                            schema=r["schema"] if "schema" in r else r.get("dataset"), on_delete=r.get("on_delete"), on_update=r.get("on_update"),
                            column=r.get("column")))
    out["fks"] = fks
    return out


def _exp_alter(t, N):
    def cl(x):
        return dict(x, columns=[N(c) for c in x["columns"]])
    return dict(uniques=[cl(x) for x in t.uniques], primary_keys=[cl(x) for x in t.primary_keys], checks=t.checks, defaults=[cl(x) for x in t.defaults],
                fks=[dict(x, name=N(x["name"]), table=N(x["table"]), schema=N(x["schema"]), column=N(x["column"])) for x in t.fks])


def _exp_index(t, N):
    return [dict(x, index_name=N(x["index_name"]), columns=[N(c) for c in x["columns"]], detailed=[[N(a), b] for a, b in x["detailed"]]) for x in t.index]


def _obs_index(e):
    out = []
    for x in (e.get("index") or []):
        out.append(dict(index_name=x.get("index_name"), unique=x.get("unique"), columns=x.get("columns"),
                        detailed=[[d.get("name"), d.get("order")] for d in (x.get("detailed_columns") or [])]))
    return out


_baseline = {}


def _base(creates, mode, normalize=False):
    k = (creates, mode, normalize)
    if k not in _baseline:
        if len(_baseline) > 4000:
            _baseline.clear()
        _baseline[k] = parse(creates, ctor=({"normalize_names": True} if normalize else None), **({"output_mode": mode} if mode else {}))
    return _baseline[k]


def _rest(e, relaxed=()):
    return {k: v for k, v in e.items() if k not in ("columns", "alter", "index") and k not in relaxed}


def _evaluate(ck, set_name, key, sc, mode=None, normalize=False, tag=None):
    """run the script, compare every table with the model; normalize: DDLParser(normalize_names=True), every reported identifier
    loses its one pair of outer delimiters; tag: inserted into the witness class (c04:<tag>:<what differs>)"""
    ddl = sc.text()
    run = {"output_mode": mode} if mode else {}
    ctor = {"normalize_names": True} if normalize else None
    info = dict(ddl=ddl)
    if run:
        info["run"] = run
    if ctor:
        info["ctor"] = ctor

    def N(x):
        return _bare(x) if (normalize and x is not None) else x

    def fail(cls, **kw):
        d = dict(info)
        d.update(kw)
        if tag:
            cls = "c04:%s:%s" % (tag, cls[4:])
        ck.fail(set_name, key, cls, d)

    r = parse(ddl, ctor=ctor, **run)
    if r[0] != "ok":
        cls = "c04:defined-target-not-found" if "does not exists" in r[2] else "c04:exception"
        return fail(cls, observed=list(r), expected="no exception: every statement names a table defined in the script")
    ents, _ = entities(r[1])
    if len(ents) != len(sc.tables) or any(not isinstance(e, dict) or "table_name" not in e for e in ents):
        return fail("c04:entity-count", observed=[(_ent_schema(e), e.get("table_name")) if isinstance(e, dict) else e for e in ents],
                    expected=[(t.schema, t.name) for t in sc.tables])
    b = _base(sc.creates(), mode, normalize)
    if b[0] != "ok" or len(entities(b[1])[0]) != len(sc.tables):
        return fail("c04:create-only-script-fails", observed=list(b))
    bents = entities(b[1])[0]
    for e, t in zip(ents, sc.tables):
        if e.get("table_name") != N(t.name) or _ent_schema(e) != N(t.schema):
            return fail("c04:table-identity", observed=[_ent_schema(e), e.get("table_name")], expected=[N(t.schema), N(t.name)])
    # tables never targeted: identical to the script without ALTER / INDEX statements
    for i, (e, t) in enumerate(zip(ents, sc.tables)):
        if not t.touched and jdump(e) != jdump(bents[i]):
            return fail("c04:other-table-changed", table=[t.schema, t.name], observed=e, expected=bents[i])
    for i, (e, t) in enumerate(zip(ents, sc.tables)):
        if not t.touched:
            continue
        tid = [t.schema, t.name]
        oc, ec = _obs_columns(e, t.cols), _exp_columns(t.cols, N)
        if jdump(oc) != jdump(ec):
            on, en = [_norm(c[0]) if isinstance(c, list) else None for c in oc], [_norm(c[0]) for c in ec]
            if [n for n in en if n not in on]:
                why = "column-lost"
            elif len(on) > len(en) or [n for n in on if n not in en]:
                why = "column-extra"
            elif on != en:
                why = "column-order"
            else:
                why = "column-attributes"
            return fail("c04:" + why, table=tid, observed=oc, expected=ec)
        oa, ea = _obs_alter(e), _exp_alter(t, N)
        for k in ("uniques", "primary_keys", "checks", "defaults", "fks"):
            if jdump(oa[k]) != jdump(ea[k]):
                return fail("c04:alter-section-" + k, table=tid, observed=oa[k], expected=ea[k], alter=e.get("alter"))
        oi, ei = _obs_index(e), _exp_index(t, N)
        if jdump(oi) != jdump(ei):
            flat = jdump([[x["index_name"], x["unique"], x["columns"], [d[0] for d in x["detailed"]]] for x in oi]) == \
                jdump([[x["index_name"], x["unique"], x["columns"], [d[0] for d in x["detailed"]]] for x in ei])
            return fail("c04:index-direction" if flat else "c04:index-record", table=tid, observed=oi, expected=ei)
        orest, erest = _rest(e, t.relaxed), _rest(bents[i], t.relaxed)
        if isinstance(erest.get("primary_key"), list) and t.pk_renames:
            # primary_key keeps naming columns of the table: a renamed member is replaced by the new name, in place
            pk = list(erest["primary_key"])
            for old, new in t.pk_renames:
                pk = [N(new) if _norm(k) == old else k for k in pk]
            erest["primary_key"] = pk
        if jdump(orest) != jdump(erest):
            only_pk = jdump(dict(orest, primary_key=None)) == jdump(dict(erest, primary_key=None))
            return fail("c04:primary-key-after-rename" if only_pk and t.pk_renames else "c04:table-frame-changed", table=tid, observed=orest, expected=erest)
    ck.ok(set_name, key, dict(ddl=ddl[:400], mode=mode))


# ---------------------------------------------------------------- table shapes
def _shape(si, variant=0, pk_all=False):
    """fixed table sets; every table has id / code_2 / code / note (types differ per table) plus one column of its own"""
    P, D, B, K = (0, 0), (1, 0), (2, 0), (3, 0)
    shapes = [
        [(None, "t1", (P, P))],
        [("s1", "orders", (P, P)), ("s2", "orders", (P, P))],
        [(None, "users", (P, P)), ("app", "users", (P, P))],
        [("shop", "Order_Items", (P, P)), ("shop", "orders", (P, P)), ("crm", "Order_Items", (P, P))],
        [(None, "Accounts", (P, D)), ("Dbo", "Accounts", (D, K))],
        [("crm", "acct", (B, B)), ("crm2", "acct", (P, P)), (None, "acct2", (P, P)), ("crm", "acct2", (P, D))],
    ]
    out = []
    for ti, (s, n, sp) in enumerate(shapes[si % len(shapes)]):
        own = ["qty", "price", "email", "flag"][ti]
        # code_2 precedes code: a prefix / substring match of column names picks the wrong one
        cols = [("id", (ti + variant) % 2, 1 if ti % 2 == 0 else 0), ("code_2", (ti + variant) % 4, 0), ("code", 2 + (ti + variant) % 3, (2 * ti + variant) % 5),
                ("note", 6 + ti % 2, 0), (own, 4 + ti % 2, 3 if ti == 1 else 0)]
        out.append(_Table(s, n, sp, cols, layout=(ti + variant) % 2, pk_clause=pk_all or (ti + variant) % 3 == 0))
    return out


N_SHAPES = 6
KINDS = ["add", "add-default", "drop", "rename", "modify", "modify-oracle", "alter-column", "unique-1", "unique-n-named", "pkey", "pkey-named",
         "check", "check-named", "default-for-1", "default-unnamed", "default-for-n", "fk-1", "fk-n-named", "index", "index-unique-directions"]


def _apply_kind(sc, t, kind, sp, n=0, prefix=""):
    """one statement of the given kind against table t, target spelled with sp = (schema spelling, name spelling)"""
    ref = t.ref(*sp)
    c = [x["name"] for x in t.cols]
    if kind == "add":
        sc.add(t, ref, FRESH[n % len(FRESH)], n % len(TYPES), 0, prefix)
    elif kind == "add-default":
        sc.add(t, ref, FRESH[(n + 3) % len(FRESH)], (n + 2) % len(TYPES), 1 + n % 3, prefix)
    elif kind == "drop":
        sc.drop(t, ref, c[n % len(c)], prefix)
    elif kind == "rename":
        sc.rename(t, ref, c[n % len(c)], FRESH[(n + 5) % len(FRESH)], prefix)
    elif kind in ("modify", "modify-oracle", "alter-column"):
        sc.modify(t, ref, ("modify", "modify-oracle", "alter-column").index(kind), c[n % len(c)], (n + 3) % len(TYPES), n % 4, prefix)
    elif kind == "unique-1":
        sc.unique(t, ref, None, [c[n % len(c)]], prefix)
    elif kind == "unique-n-named":
        sc.unique(t, ref, "uq_%d" % n, [c[n % len(c)], c[(n + 1) % len(c)]], prefix)
    elif kind == "pkey":
        sc.pkey(t, ref, None, [c[n % len(c)]], prefix)
    elif kind == "pkey-named":
        sc.pkey(t, ref, "pk_%d" % n, [c[(n + 1) % len(c)], c[n % len(c)]], prefix)
    elif kind == "check":
        sc.check(t, ref, None, CHECKS[n % 3].replace("%s", "id"), prefix)
    elif kind == "check-named":
        sc.check(t, ref, "ck_%d" % n, CHECKS[(n + 1) % 3].replace("%s", "code"), prefix)
    elif kind == "default-for-1":
        sc.default(t, ref, "df_%d" % n, DEFAULT_VALUES[n % len(DEFAULT_VALUES)], [c[n % len(c)]], False, prefix)
    elif kind == "default-unnamed":
        sc.default(t, ref, None, DEFAULT_VALUES[2 + n % 3], [c[(n + 1) % len(c)]], False, prefix)
    elif kind == "default-for-n":
        k = 2 + n % 2
        # listed columns are not adjacent and not in table order: last-but-one first
        sc.default(t, ref, "dfn_%d" % n, DEFAULT_VALUES[(n + 1) % len(DEFAULT_VALUES)], [c[(n - 2 * j) % len(c)] for j in range(min(k, (len(c) + 1) // 2))],
                   n % 2 == 1, prefix)
    elif kind == "fk-1":
        sc.fkey(t, ref, None, [c[n % len(c)]], None, "parents", ["pid"], prefix=prefix)
    elif kind == "fk-n-named":
        sc.fkey(t, ref, "fk_%d" % n, [c[n % len(c)], c[(n + 1) % len(c)]], '"Ref"' if n % 2 else "ref", "Targets", ["k1", "k2"],
                on_delete=["CASCADE", "RESTRICT", None][n % 3], on_update=[None, "CASCADE", "RESTRICT"][n % 3], update_first=n % 2 == 1, prefix=prefix)
    elif kind == "index":
        sc.create_index(t, ref, "ix_%d" % n, False, [(c[n % len(c)], None)])
    elif kind == "index-unique-directions":
        dirs = [None, "DESC", "ASC"]
        sc.create_index(t, ref, "Ix_u%d" % n, True, [(c[(n + j) % len(c)], dirs[(n + j) % 3]) for j in range(min(3, len(c)))], tight=n % 2 == 1)
    else:
        raise AssertionError(kind)


def _distinct(cols):
    out = []
    for c in cols:
        if c not in out:
            out.append(c)
    return out


# ---------------------------------------------------------------- the sets
def _set_routing(ck):
    """every statement kind x every target of every table shape x spellings of the target"""
    rnd = ck.rnd
    n = 0
    prefixes = ["", "IF EXISTS ", "ONLY "]
    for si in range(N_SHAPES):
        ntab = len(_shape(si))
        for ti in range(ntab):
            for ki, kind in enumerate(KINDS):
                if ck.quick():
                    sps = [(SPELLINGS[(si + ti + ki) % 12],) * 2, (rnd.choice(SPELLINGS), rnd.choice(SPELLINGS))]
                else:
                    sps = [(s, s) for s in SPELLINGS] + [(rnd.choice(SPELLINGS), rnd.choice(SPELLINGS)) for _ in range(4)]
                for sp in _distinct(sps):
                    tables = _shape(si, variant=n)
                    sc = _Script(tables, sep="\n" if n % 3 else "\n\n")
                    prefix = prefixes[n % 3] if (not kind.startswith("index") and n % 4 == 3) else ""
                    _apply_kind(sc, tables[ti], kind, sp, n=n, prefix=prefix)
                    mode = None if ck.quick() or n % 2 == 0 else MODES[n % len(MODES)]
                    normalize = n % 7 == 6
                    _evaluate(ck, "routing-matrix", (si, ti, kind, sp, prefix, mode, normalize), sc, mode, normalize)
                    n += 1
    return n


def _set_undefined(ck):
    """a statement that names a table the script does not define must raise"""
    rnd = ck.rnd
    kinds = ["add", "drop", "unique-1", "default-for-1", "fk-1", "index", "index-unique-directions", "rename", "modify", "check"]
    n = 0
    for si in range(N_SHAPES):
        tables0 = _shape(si)
        keys = set(t.key for t in tables0)
        cands = []
        for t in tables0:
            # (schema bare, name bare, label)
            cands.append(("audit", t.name_bare, "unknown-schema-known-name"))
            cands.append((None, t.name_bare, "no-schema-known-name"))
            if t.schema_bare:
                cands.append((t.schema_bare, "nosuch", "known-schema-unknown-name"))
                cands.append((t.schema_bare, t.name_bare + "x", "known-schema-longer-name"))
                cands.append((t.schema_bare + "x", t.name_bare, "longer-schema-known-name"))
                cands.append((t.schema_bare[:-1], t.name_bare, "shorter-schema-known-name"))
                cands.append((t.name_bare, t.schema_bare, "schema-and-name-swapped"))
            cands.append((None, t.name_bare[:-1], "shorter-name"))
            for u in tables0:
                if u is not t and u.schema_bare and t.schema_bare:
                    cands.append((u.schema_bare, t.name_bare, "schema-of-another-table"))
        cands.append((None, "nosuch", "unknown-name"))
        seen = set()
        for s, nm, label in cands:
            if (_norm(nm), _norm(s)) in keys or (s, nm) in seen or not nm or s == "":
                continue
            seen.add((s, nm))
            ks = kinds if not ck.quick() else [kinds[(n + j * 3) % len(kinds)] for j in range(3)]
            for kind in _distinct(ks):
                for sp in ([(0, 0)] if ck.quick() else [(0, 0), rnd.choice(SPELLINGS[1:])]):
                    tables = _shape(si, variant=n)
                    sc = _Script(tables)
                    # a correct statement first (half of the cases), then the one with the undefined target
                    if n % 2:
                        _apply_kind(sc, tables[n % len(tables)], "add", ((0, 0), (0, 0)), n=n)
                    ghost = _Table(s, nm, ((0, 0), (0, 0)), [("id", 0, 0), ("code", 2, 0), ("note", 6, 0), ("qty", 4, 0)])
                    _apply_kind(sc, ghost, kind, (sp, sp), n=n)
                    ddl = sc.text()
                    key = (si, s, nm, kind, sp)
                    r = parse(ddl)
                    if r[0] == "exc":
                        ck.ok("undefined-target", key, dict(ddl=ddl[:300], raised=r[1]))
                    else:
                        b = _base(sc.creates(), None)
                        changed = []
                        if b[0] == "ok":
                            for e, e0 in zip(entities(r[1])[0], entities(b[1])[0]):
                                if jdump(e) != jdump(e0):
                                    changed.append([_ent_schema(e), e.get("table_name")])
                        ck.fail("undefined-target", key, ("c04:undefined-target-accepted:" if changed else "c04:undefined-target-statement-ignored:") + label,
                                dict(ddl=ddl, observed="no exception; tables changed: %s" % changed, expected="an exception: %s is not defined in the script" % sc.stmts[-1]))
                    n += 1
    # the CREATE of the target is taken out of a script that was evaluated (by another parser object) just before
    for si in range(N_SHAPES):
        for ti in range(len(_shape(si))):
            for kind in (kinds if not ck.quick() else [kinds[(n + j * 3) % len(kinds)] for j in range(2)]):
                tables = _shape(si, variant=n)
                parse(_Script(tables).creates())
                t = tables[ti]
                sc = _Script([x for x in tables if x is not t])
                sp = SPELLINGS[n % 12]
                _apply_kind(sc, t, kind, (sp, sp), n=n)
                ddl = sc.text()
                key = (si, ti, kind, "create-removed")
                r = parse(ddl)
                if r[0] == "exc":
                    ck.ok("undefined-target", key, dict(ddl=ddl[:300], raised=r[1]))
                else:
                    ck.fail("undefined-target", key, "c04:undefined-target-accepted:create-removed",
                            dict(ddl=ddl, observed=r[1], expected="an exception: the target of %s is not defined in the script" % sc.stmts[-1]))
                n += 1
    return n


def _set_index(ck):
    """CREATE INDEX over 1..4 columns x every assignment of (none | ASC | DESC), second of two same-named tables is the target"""
    n = 0
    maxc = 3 if ck.quick() else 4
    names = ["id", "code", "note", "email"]
    cases = []
    for k in range(1, maxc + 1):
        for dirs in itertools.product([None, "ASC", "DESC"], repeat=k):
            cases.append((names[:k], dirs))
    # direction keyword not in upper case (repaired by 25def03: ordinary cases)
    for d in ["desc", "asc", "Desc"]:
        cases.append((names[:2], (None, d)))
        cases.append((names[:3], (d, None, "DESC")))
    for cols, dirs in cases:
        for ti in ((0, 1) if not ck.quick() else (n % 2,)):
            tables = _shape(2 if n % 2 else 1, variant=n)
            t = tables[ti]
            sc = _Script(tables)
            order = list(range(len(cols)))
            if n % 3 == 1:
                order.reverse()
            sc.create_index(t, t.ref(SPELLINGS[n % 12], SPELLINGS[(n // 2) % 12]), "idx_%d" % n, n % 2 == 0,
                            [(cols[j], dirs[j]) for j in order], tight=n % 4 == 3)
            if n % 5 == 0:
                # a second index on the same table and one on the other table
                sc.create_index(t, t.ref((0, 0), (0, 0)), "idx_b%d" % n, n % 2 == 1, [(cols[0], "DESC")])
                o = tables[1 - ti]
                sc.create_index(o, o.ref((0, 0), (0, 0)), "idx_c%d" % n, False, [("note", None), ("id", "DESC")])
            _evaluate(ck, "index-directions", (tuple(cols), dirs, ti, n % 12), sc)
            n += 1
    return n


def _set_column_spelling(ck):
    """DROP / RENAME / MODIFY name the column in another quoting / case than the CREATE"""
    rnd = ck.rnd
    n = 0
    bare = ["Amount", "customerId", "ref_id", "Zq"]
    combos = []
    for decl in [(0, 0), (1, 0), (2, 0), (3, 0), (1, 1)]:
        for refsp in SPELLINGS:
            for kind in ["drop", "rename", "modify", "modify-oracle", "alter-column"]:
                for pos in range(4):
                    combos.append((decl, refsp, kind, pos))
    if ck.quick():
        combos = rnd.sample(combos, 220)
    for decl, refsp, kind, pos in combos:
        colspecs = [(_spell(b, decl if j == pos else (0, 0)), (j + n) % len(TYPES), (j + n) % 5) for j, b in enumerate(bare)]
        t0 = _Table("inv", "stock", ((0, 0), (0, 0)), [(a, (i + 1) % len(TYPES), 0) for i, (a, _, _) in enumerate(colspecs)], layout=1)
        t1 = _Table("Inv2", "stock", ((0, 0), (0, 0)), colspecs, layout=n % 2)
        tables = [t0, t1] if n % 2 else [t1, t0]
        sc = _Script(tables)
        ref = t1.ref(SPELLINGS[n % 12], SPELLINGS[(n + 5) % 12])
        col_txt = _spell(bare[pos], refsp)
        if kind == "drop":
            sc.drop(t1, ref, col_txt)
        elif kind == "rename":
            sc.rename(t1, ref, col_txt, "renamed_%d" % (n % 7))
        else:
            sc.modify(t1, ref, ("modify", "modify-oracle", "alter-column").index(kind), col_txt, (n + 4) % len(TYPES), n % 4)
        if n % 4 == 0:
            # a follow-up statement on the same table sees the new column list
            sc.add(t1, t1.ref((0, 0), (0, 0)), FRESH[n % len(FRESH)], n % len(TYPES), 0)
        _evaluate(ck, "column-spelling", (decl, refsp, kind, pos), sc)
        n += 1
    return n


def _set_readd(ck):
    """directed sequences on one table of a pair: a name that left the column list is added again, the same statement twice, ..."""
    n = 0
    progs = [
        ["add", ("drop", "note"), ("add", "note")],
        ["add", ("rename", "note", "legacy_note"), ("add", "note")],
        [("drop", "note"), ("add", "note")],
        [("rename", "code", "code_old"), ("add", "code"), ("drop", "code_old")],
        ["fk-1", ("drop", "note"), ("add", "note")],
        ["add", ("modify", "note"), ("drop", "note"), ("add", "note")],
        ["add", "add-default", ("drop", "id"), ("add", "ID")],
        [("drop", "note"), ("drop", "code"), ("add", "code"), ("add", "note")],
        ["unique-1", "unique-n-named", "unique-1"],
        ["default-for-1", "default-for-n", "default-unnamed"],
        ["pkey", "pkey-named", "check", "check-named", "check"],
        ["fk-1", "fk-n-named", "fk-1"],
        ["index", "index-unique-directions", "index"],
        [("drop", "id"), "index", ("rename", "code", "c2"), "unique-1"],
        ["add", ("rename", "extra", "extra2"), "add-default"],
        # a column named in an earlier ADD is gone when the next ADD arrives (repaired by 7fc4411: ordinary cases)
        ["add", ("drop", "extra"), "add-default"],
        ["add", ("drop", "extra"), ("add", "extra")],
        ["fk-1", ("rename", "id", "ident"), "add"],
        ["fk-1", ("drop", "id"), "fk-n-named"],
        # primary_key follows the rename also when a MODIFY respelled the column before
        [("modify", "[ID]"), ("rename", "id", "ident"), "index"],
        [("rename", '"ID"', "ident"), ("rename", "IDENT", "id3"), ("add", "id")],
    ]
    for pi, prog in enumerate(progs):
        for si in ((1, 2, 3, 5) if not ck.quick() else (1 + pi % 3,)):
            for ti in range(len(_shape(si))):
                tables = _shape(si, variant=n, pk_all=True)
                t = tables[ti]
                sc = _Script(tables)
                for j, step in enumerate(prog):
                    sp = (SPELLINGS[(n + j) % 12], SPELLINGS[(n + 2 * j) % 12])
                    ref = t.ref(*sp)
                    if isinstance(step, str):
                        # fk-1 / unique-1 ...: n chosen so that the column is `id` (index 0) where the program relies on it
                        _apply_kind(sc, t, step, sp, n=0 if step in ("fk-1", "add") else j)
                    elif step[0] == "drop":
                        sc.drop(t, ref, step[1])
                    elif step[0] == "rename":
                        sc.rename(t, ref, step[1], step[2])
                    elif step[0] == "add":
                        sc.add(t, ref, step[1], (n + j) % len(TYPES), j % 4)
                    elif step[0] == "modify":
                        sc.modify(t, ref, j % 3, step[1], (n + j + 1) % len(TYPES), 0)
                _evaluate(ck, "directed-sequences", (pi, si, ti), sc)
                n += 1
    return n


def _drop_stub(schema_bare, name_bare, sp):
    """DROP TABLE <ref>; yields an entity of its own that registers the same (schema, table) identity; it must stay as parsed alone"""
    d = _Table(schema_bare, name_bare, sp, [])
    d.create = "DROP TABLE %s;" % ((d.schema + "." if d.schema is not None else "") + d.name)
    return d


def _set_same_id_twice(ck):
    """one (schema, table) identity registered twice: ALTER / INDEX statements land on the LATEST definition before them,
    the earlier entity (DROP TABLE t / older CREATE TABLE t) stays as in the script without ALTER / INDEX statements"""
    n = 0
    kinds = KINDS if not ck.quick() else ["add", "drop", "rename", "modify", "unique-1", "default-for-n", "fk-n-named", "index-unique-directions", "pkey", "check"]
    idents = [(None, "t1"), ("shop", "orders"), ("Dbo", "Accounts")]
    variants = ["drop-then-create", "older-create", "older-create-respelled", "alter-create-alter", "three-definitions"]
    for (s, nm), variant, kind in itertools.product(idents, variants, kinds):
        sp = (SPELLINGS[n % 12], SPELLINGS[(n + 7) % 12])
        cols_old = [("id", 1, 1), ("code", 2, 0), ("legacy", 6, 0)]
        cols_new = [("id", n % 2, 1), ("code_2", 3, 0), ("code", 2 + n % 3, n % 5), ("note", 6, 0), ("qty", 4, 0)]
        other = _Table("other" if s is None else None, nm, ((0, 0), (0, 0)), cols_new[:4], layout=1)   # same name, other schema: never targeted
        decl_new = ((0, 0), (0, 0)) if variant != "older-create-respelled" else ((1, 1), (3, 2))
        new = _Table(s, nm, decl_new, cols_new, layout=n % 2, pk_clause=n % 3 == 0)
        if variant == "drop-then-create":
            first = [_drop_stub(s, nm, ((0, 0), (0, 0))), other]
        else:
            first = [_Table(s, nm, ((0, 0), (0, 0)), cols_old, layout=1), other]
        if n % 2:
            first.reverse()
        sc = _Script(first)
        old = [t for t in first if t is not other][0]
        if variant == "alter-create-alter" and old.cols:
            # lands on the older definition: it is the latest one at that point of the script
            _apply_kind(sc, old, "add", sp, n=n + 1)
            sc.create_index(old, old.ref(*sp), "ix_old_%d" % n, False, [("code", "DESC")])
        if variant == "three-definitions":
            sc.define(_Table(s, nm, ((2, 0), (2, 0)), cols_old[:2], layout=1))
        sc.define(new)
        _apply_kind(sc, new, kind, sp, n=n)
        if n % 3 == 0:
            _apply_kind(sc, new, "index", ((0, 0), (0, 0)), n=n + 1)
        _evaluate(ck, "same-id-twice", (s, nm, variant, kind), sc, tag="latest-definition:" + variant)
        n += 1
    return n


TABLE_NAMES = ["orders", "Order_Items", "users", "acct", "t1", "Accounts", "stock", "Invoices"]
SCHEMA_NAMES = [None, None, "s1", "shop", "CRM", "dbo", "s2"]
COL_NAMES = ["id", "code_2", "code", "note", "qty", "price", "email", "flag", "amount", "ref_id", "created_at", "customerId", "Status_", "a1b2", "city",
             "notes", "id2", "qty_total"]


def _set_whole_path_quoting(ck):
    """a dotted name quoted as a whole (`sales.orders`, "sales.orders" is not used: a dot inside double quotes is part of the name)
    names the same table as the part-by-part and the bare spelling: ALTER / INDEX reach it whichever way both are written"""
    from bounded.common import parse
    spellings = {"whole-backtick": "`%s.%s`", "parts-backtick": "`%s`.`%s`", "bare": "%s.%s", "parts-dq": '"%s"."%s"', "parts-br": "[%s].[%s]"}
    n = 0
    for (ck_name, created), (rk_name, referenced) in itertools.product(spellings.items(), spellings.items()):
        if "whole-backtick" not in (ck_name, rk_name):
            continue
        for schema, name in (("sales", "orders"), ("Archive", "Order_Items")):
            ddl = ("CREATE TABLE %s (id int, qty int);\nCREATE TABLE %s (id int);\nALTER TABLE %s ADD z int;\nCREATE INDEX ix1 ON %s (id);"
                   % (created % (schema, name), created % ("other", name), referenced % (schema, name), referenced % (schema, name)))
            key = (ck_name, rk_name, schema)
            r = parse(ddl)
            n += 1
            if r[0] != "ok":
                ck.fail("whole-path-quoting", key, "c04:whole-path-quoted-target-not-found", dict(ddl=ddl, observed=r, expected="the statements reach the table defined in the script"))
                continue
            tabs = [e for e in r[1] if "table_name" in e]
            cols = [[c["name"] for c in t["columns"]] for t in tabs]
            idx = [[i.get("index_name") for i in t.get("index", [])] for t in tabs]
            if len(tabs) != 2 or cols != [["id", "qty", "z"], ["id"]] or idx != [["ix1"], []]:
                ck.fail("whole-path-quoting", key, "c04:whole-path-quoted-target-misrouted", dict(ddl=ddl, observed=dict(columns=cols, indexes=idx), expected=dict(columns=[["id", "qty", "z"], ["id"]], indexes=[["ix1"], []])))
            else:
                ck.ok("whole-path-quoting", key, dict(ddl=ddl[:200]))
    return n


def _set_random(ck):
    rnd = ck.rnd
    quick = ck.quick()
    n_scripts = 800 if quick else 14000
    max_tables = 3 if quick else 4
    max_stmts = 8 if quick else 14
    for i in range(n_scripts):
        # ---- tables: distinct (schema, name) identities, names shared across schemas on purpose
        tables, keys = [], set()
        nt = rnd.randint(1, max_tables)
        pool = rnd.sample(TABLE_NAMES, 2)
        while len(tables) < nt:
            nm = rnd.choice(pool)
            s = rnd.choice(SCHEMA_NAMES)
            if (_norm(nm), _norm(s)) in keys:
                continue
            keys.add((_norm(nm), _norm(s)))
            decl = (rnd.choice(SPELLINGS) if rnd.random() < 0.3 else (0, 0), rnd.choice(SPELLINGS) if rnd.random() < 0.3 else (0, 0))
            names = rnd.sample(COL_NAMES, rnd.randint(2, 9 if not quick else 6))
            cols = [(_spell(c, rnd.choice(SPELLINGS)) if rnd.random() < 0.15 else c, rnd.randrange(len(TYPES)), rnd.randrange(5)) for c in names]
            pk = rnd.sample(range(len(cols)), min(len(cols), 3)) if rnd.random() < 0.5 else False
            tables.append(_Table(s, nm, decl, cols, layout=rnd.randrange(2), pk_clause=pk))
        sc = _Script(tables, sep=rnd.choice(["\n", "\n", "\n\n"]), lower_kw=rnd.random() < 0.15)
        cn = 0
        for j in range(rnd.randint(1, max_stmts)):
            t = rnd.choice(tables)
            sp = (rnd.choice(SPELLINGS), rnd.choice(SPELLINGS)) if rnd.random() < 0.7 else ((0, 0), (0, 0))
            ref = t.ref(*sp)
            prefix = rnd.choice(["", "", "", "", "IF EXISTS ", "ONLY "])
            cur = [c["name"] for c in t.cols]
            kind = rnd.choice(["add", "add", "add", "drop", "drop", "rename", "modify", "unique", "pkey", "check", "default", "fk", "index", "index"])
            cn += 1
            if kind == "add":
                gone = [x for x in t.removed if x not in t.names()]
                if gone and rnd.random() < 0.5:
                    nm = rnd.choice(gone)
                    nm = rnd.choice([nm, nm.upper(), '"%s"' % nm])
                else:
                    fresh = [x for x in FRESH + COL_NAMES if _norm(x) not in t.names()]
                    nm = rnd.choice(fresh)
                sc.add(t, ref, nm, rnd.randrange(len(TYPES)), rnd.randrange(4), prefix)
            elif kind == "drop":
                if len(cur) < 2:
                    continue
                c = rnd.choice(cur)
                sc.drop(t, ref, _spell(_bare(c), rnd.choice(SPELLINGS)) if rnd.random() < 0.5 else c, prefix)
            elif kind == "rename":
                c = rnd.choice(cur)
                fresh = [x for x in FRESH + COL_NAMES if _norm(x) not in t.names()]
                sc.rename(t, ref, _spell(_bare(c), rnd.choice(SPELLINGS)) if rnd.random() < 0.5 else c, rnd.choice(fresh), prefix)
            elif kind == "modify":
                c = rnd.choice(cur)
                sc.modify(t, ref, rnd.randrange(3), _spell(_bare(c), rnd.choice(SPELLINGS)) if rnd.random() < 0.3 else c, rnd.randrange(len(TYPES)),
                          rnd.randrange(4), prefix)
            elif kind in ("unique", "pkey"):
                cols = rnd.sample(cur, min(len(cur), rnd.choice([1, 1, 2, 3])))
                cname = rnd.choice([None, "c_%d_%d" % (i % 50, cn)])
                (sc.unique if kind == "unique" else sc.pkey)(t, ref, cname, cols, prefix)
            elif kind == "check":
                plain = [c for c in cur if _bare(c) == c] or ["val"]
                sc.check(t, ref, rnd.choice([None, "ck_%d" % cn]), rnd.choice(CHECKS).replace("%s", rnd.choice(plain)), prefix)
            elif kind == "default":
                v = rnd.choice(DEFAULT_VALUES)
                cname = rnd.choice([None, "df_%d" % cn]) if v.startswith("'") else "df_%d" % cn
                cols = rnd.sample(cur, min(len(cur), rnd.choice([1, 1, 2, 3])))
                sc.default(t, ref, cname, v, cols, rnd.random() < 0.3, prefix)
            elif kind == "fk":
                k = min(len(cur), rnd.choice([1, 1, 2, 3]))
                cols = rnd.sample(cur, k)
                sc.fkey(t, ref, rnd.choice([None, "fk_%d" % cn]), cols, rnd.choice([None, "ref", '"Ref"']), rnd.choice(["parents", "Targets", "`p`"]),
                        ["k%d" % x for x in range(k)], on_delete=rnd.choice([None, "CASCADE", "RESTRICT"]), on_update=rnd.choice([None, None, "CASCADE"]),
                        update_first=rnd.random() < 0.5, prefix=prefix)
            else:
                k = min(len(cur), rnd.choice([1, 2, 3, 4]))
                cols = [(c, rnd.choice([None, None, "ASC", "DESC", "DESC", "desc", "Asc"])) for c in rnd.sample(cur, k)]
                sc.create_index(t, ref, rnd.choice(["ix_%d", "IX_%d", "idx%d_a"]) % cn, rnd.random() < 0.4, cols, tight=rnd.random() < 0.2)
        if not sc.stmts:
            continue
        if quick:
            mode = None if i % 5 else MODES[(i // 5) % len(MODES)]
        else:
            mode = None if i % 3 == 0 else MODES[i % len(MODES)]
        normalize = i % 6 == 5
        _evaluate(ck, "random-sequences", (i, mode, normalize), sc, mode, normalize)
    return n_scripts


def _bare(txt):
    for a, b in QUOTES[1:]:
        if len(txt) >= 2 and txt[0] == a and txt[-1] == b:
            return txt[1:-1]
    return txt


def check(ck):
    n_route = _set_routing(ck)
    n_undef = _set_undefined(ck)
    n_index = _set_index(ck)
    n_spell = _set_column_spelling(ck)
    n_dir = _set_readd(ck)
    n_twice = _set_same_id_twice(ck)
    n_rand = _set_random(ck)
    n_whole = _set_whole_path_quoting(ck)
    rule = ("scripts generated from an abstract description: 1..4 CREATE TABLEs (same name in several schemas, with and without schema, prefix-related names, "
            "4 quoting styles) followed by ALTER TABLE (ADD column, DROP / RENAME / MODIFY / ALTER COLUMN, ADD [CONSTRAINT] UNIQUE / PRIMARY KEY / CHECK / "
            "DEFAULT..FOR / FOREIGN KEY) and CREATE [UNIQUE] INDEX statements whose target is spelled in any of 4 quotings x 3 letter cases; contract: the final "
            "column list (name, type, size, nullable, default, unique, in order), the alter section (uniques, primary_keys, checks, defaults, foreign-key "
            "records) and the index list (name, unique, ordered columns with direction) of every table equal the state computed by a model of the statement; "
            "tables never targeted equal the result of the script without ALTER / INDEX statements; all other keys of a targeted table are unchanged "
            "(primary_key follows RENAME COLUMN); when an identity is registered twice the statements land on the latest definition before them; "
            "a statement whose target is not defined in the script raises")
    bound = ("routing-matrix: %d (6 table shapes x every target x %d statement kinds x %s spellings); undefined-target: %d; index-directions: %d (1..%d columns x "
             "{none, ASC, DESC}^k + lower-case keywords); column-spelling: %d (5 declared x 12 referenced spellings x 5 kinds x 4 positions%s); directed-sequences: %d; same-id-twice: %d (3 identities x 5 ways of registering the identity twice x statement kinds); "
             "random-sequences: %d scripts of 1-%d tables x 1-%d statements, %s; whole-path quoting: {nw} scripts".replace("{nw}", str(n_whole))
             % (n_route, len(KINDS), "2" if ck.quick() else "12 + 4 mixed", n_undef, n_index, 3 if ck.quick() else 4, n_spell, ", sampled" if ck.quick() else "",
                n_dir, n_twice, n_rand, 3 if ck.quick() else 4, 8 if ck.quick() else 14, ("every 5th in one of the 15 output modes" if ck.quick() else "2 of 3 in one of the 15 output modes") + ", every 6th with normalize_names=True"))
    return rule, bound
