"""C20 BOUNDED stand-in: the LALR tables the parser runs with are those of the declared grammar, whatever the cache state.

Nothing is parsed in this process.  Every cache state is built on a PRIVATE copy of the scratch package directory
(<tmp>/<state>/simple_ddl_parser + <tmp>/<state>/ply) and exercised by a sub-process that has that copy first on
PYTHONPATH; one sub-process handles many scripts (JSON in / JSON out).

Oracles (all taken from the statement, none from today's output):
  (a) tables in use == tables derived from the declared grammar: in every state the (action, goto, productions+bound
      callables) of a constructed `DDLParser('').yacc` -- the first parser of the process (the one that has to
      regenerate) and the last one (the one that reads whatever was written back) -- equal a fresh LALR generation
      `ply.yacc.yacc(module=<uninitialised DDLParser>, tabmodule=<non-existent>, write_tables=False)` made in the same
      sub-process from the same sources; the shipped parsetab.py, read independently of PLY, equals that generation
      whenever its signature is the signature of the declared grammar.
  (b) state invariance of results: DDLParser(ddl, **ctor).run(**run) in every state == the same call in the shipped
      state, for the repository's own test DDLs, generated scripts, mutated test DDLs and token soup.  The relation is
      total (any text, including text the grammar rejects, must behave identically), so no fragment restriction applies.
"""
import hashlib
import json
import os
import re
import shutil
import subprocess
import sys
import tempfile
import time

from bounded import stmts as S
from bounded.common import MODES, REPO, corpus

MARK = "@@C20RESULT@@"

WORKER = r'''
import hashlib, json, os, re, signal, sys, time
MARK = "@@C20RESULT@@"
req = json.loads(sys.stdin.read())
out = {}
ADDR = re.compile(r"0x[0-9a-fA-F]+")


def sha(s):
    return hashlib.sha1((s or "").encode("utf-8", "replace")).hexdigest()[:12]


def where(c):
    if c is None:
        return None
    f = getattr(c, "__func__", c)
    code = getattr(f, "__code__", None)
    return [getattr(f, "__qualname__", repr(f)), os.path.basename(code.co_filename) if code else None,
            code.co_firstlineno if code else None, sha(getattr(f, "__doc__", None))]


def norm(parser):
    act = {str(s): dict(row) for s, row in parser.action.items() if row}
    goto = {str(s): dict(row) for s, row in parser.goto.items() if row}
    prods = [[p.str, p.name, p.len, p.func, where(p.callable)] for p in parser.productions]
    return {"action": act, "goto": goto, "productions": prods, "errorfunc": where(parser.errorfunc)}


def err(e):
    return {"exc": type(e).__name__, "msg": ADDR.sub("0x?", str(e))[:400]}


try:
    import ply
    from ply import yacc
    import simple_ddl_parser
    from simple_ddl_parser import DDLParser
    out["file"] = os.path.abspath(simple_ddl_parser.__file__)
    out["ply_file"] = os.path.abspath(ply.__file__)
except BaseException as e:
    out["import_error"] = err(e)
    sys.stdout.write(MARK + json.dumps(out) + "\n")
    sys.exit(0)


class _Timeout(Exception):
    pass


def _alarm(signum, frame):
    raise _Timeout()


signal.signal(signal.SIGALRM, _alarm)
if req.get("quiet"):
    # PLY sends its whole generation report through the root logger at INFO (seconds per generation); used only where
    # every single construction has to regenerate
    import logging
    logging.disable(logging.INFO)

# 1. the first parser of the process: in a non-valid state this is the one that regenerates
try:
    p0 = DDLParser("")
    out["first"] = norm(p0.yacc)
except BaseException as e:
    out["first"] = err(e)

# 2. the scripts, one fresh parser each
results, traces = [], []
trace = req.get("trace")
t_end = time.time() + req.get("budget", 1e9)
for ddl, ctor, run in req.get("scripts", []):
    seen = set()
    if time.time() > t_end:
        # out of budget (a tree in which every construction regenerates): the rest is reported as not run
        results.append(None)
        traces.append([])
        continue
    try:
        signal.alarm(30)
        d = DDLParser(ddl, **ctor)
        if trace:
            for pr in d.yacc.productions:
                c = pr.callable
                if c is not None:
                    def w(p, _c=c, _n=pr.func):
                        seen.add(_n)
                        return _c(p)
                    pr.callable = w
        r = d.run(**run)
        signal.alarm(0)
        results.append(ADDR.sub("0x?", json.dumps(["ok", r], sort_keys=True, default=str)))
    except _Timeout:
        results.append(json.dumps(["timeout"]))
    except BaseException as e:
        signal.alarm(0)
        results.append(json.dumps(["exc", type(e).__name__, ADDR.sub("0x?", str(e))[:300]]))
    if trace:
        traces.append(sorted(seen))
out["results"] = results
if trace:
    out["traces"] = traces

# 3. the last parser of the process: reads what the first one wrote back (if anything)
try:
    p1 = DDLParser("")
    out["last"] = norm(p1.yacc)
except BaseException as e:
    out["last"] = err(e)

# 4. the tables of the declared grammar: a fresh LALR generation that cannot see any table file
try:
    mod = DDLParser.__new__(DDLParser)
    fresh = yacc.yacc(method="LALR", module=mod, tabmodule="c20_no_such_table_module", write_tables=False,
                      debug=False, optimize=False, errorlog=yacc.NullLogger())
    out["fresh"] = norm(fresh)
except BaseException as e:
    out["fresh"] = err(e)

# 5. the signature PLY computes for the declared grammar
try:
    mod = DDLParser.__new__(DDLParser)
    pdict = dict((k, getattr(mod, k)) for k in dir(mod))
    if "__file__" not in pdict:
        pdict["__file__"] = sys.modules[pdict["__module__"]].__file__
    pinfo = yacc.ParserReflect(pdict, log=yacc.NullLogger())
    pinfo.get_all()
    out["grammar_signature"] = pinfo.signature()
except BaseException as e:
    out["grammar_signature"] = None
    out["grammar_signature_error"] = err(e)
sys.stdout.write(MARK + json.dumps(out) + "\n")
'''


# ----------------------------------------------------------------------------------------------- sub-process plumbing
def _run_worker(root, scripts, hashseed, trace=False, quiet=False, budget=1e9):
    env = dict(os.environ)
    env["PYTHONPATH"] = root
    env["PYTHONDONTWRITEBYTECODE"] = "1"
    env["PYTHONHASHSEED"] = str(hashseed)
    req = dict(scripts=[[s["ddl"], s["ctor"], s["run"]] for s in scripts], trace=trace, quiet=quiet, budget=budget)
    # PLY reports every generation through the logger on stderr (megabytes): keep it in a file, read the tail only
    errpath = os.path.join(root, "c20_stderr_%d.txt" % hashseed)
    try:
        with open(errpath, "w") as ef:
            proc = subprocess.run([sys.executable, "-c", WORKER], input=json.dumps(req), stdout=subprocess.PIPE, stderr=ef, text=True,
                                  cwd=root, env=env, timeout=budget + 600 if budget < 1e8 else 6000)
    except subprocess.TimeoutExpired:
        return dict(crash="worker timed out")
    proc_stderr = _tail(errpath)
    for line in proc.stdout.splitlines():
        if line.startswith(MARK):
            res = json.loads(line[len(MARK):])
            if "import_error" in res:
                return dict(crash="import failed: %s" % res["import_error"], stderr=proc_stderr)
            pkg = os.path.join(os.path.realpath(root), "simple_ddl_parser")
            if os.path.dirname(os.path.realpath(res["file"])) != pkg or not os.path.realpath(res["ply_file"]).startswith(os.path.realpath(root) + os.sep):
                return dict(crash="worker imported %s / %s instead of the private copy under %s" % (res["file"], res["ply_file"], root))
            res["stderr"] = proc_stderr
            return res
    return dict(crash="worker produced no result (rc=%s)" % proc.returncode, stderr=proc_stderr)


def _tail(path, n=1500):
    try:
        with open(path, "rb") as f:
            f.seek(0, 2)
            f.seek(max(0, f.tell() - n))
            return f.read().decode("utf-8", "replace")
    except OSError:
        return ""


def _read_tabfile(path):
    """parsetab.py read WITHOUT PLY -> dict(version, method, signature, action, goto, productions) | None | {'error':..}"""
    if not os.path.isfile(path):
        return None
    ns = {}
    try:
        with open(path, encoding="utf-8") as f:
            exec(compile(f.read(), path, "exec"), ns)
        act = {str(s): dict(row) for s, row in ns["_lr_action"].items() if row}
        goto = {str(s): dict(row) for s, row in ns["_lr_goto"].items() if row}
        prods = [[p[0], p[1], p[2], p[3]] for p in ns["_lr_productions"]]
        return dict(version=ns.get("_tabversion"), method=ns.get("_lr_method"), signature=ns.get("_lr_signature"),
                    action=act, goto=goto, productions=prods)
    except Exception as e:  # noqa
        return dict(error="%s: %s" % (type(e).__name__, e))


def _md5(path):
    if not os.path.isfile(path):
        return "dir" if os.path.isdir(path) else None
    with open(path, "rb") as f:
        return hashlib.md5(f.read()).hexdigest()


def _diff_tables(got, exp, callables=True):
    """-> list of human-readable differences (empty when equal)"""
    out = []
    for part in ("action", "goto"):
        g, e = got[part], exp[part]
        if g == e:
            continue
        n = 0
        for st in sorted(set(g) | set(e), key=lambda x: int(x)):
            gr, er = g.get(st, {}), e.get(st, {})
            if gr != er:
                for sym in sorted(set(gr) | set(er)):
                    if gr.get(sym) != er.get(sym):
                        n += 1
                        if n <= 4:
                            out.append("%s[state %s][%s]: in use %r, declared grammar %r" % (part, st, sym, gr.get(sym), er.get(sym)))
        out.append("%s: %d entries differ (%d vs %d non-empty states)" % (part, n, len(g), len(e)))
    gp = [p[:4] + ([p[4]] if callables and len(p) > 4 else []) for p in got["productions"]]
    ep = [p[:4] + ([p[4]] if callables and len(p) > 4 else []) for p in exp["productions"]]
    if gp != ep:
        if len(gp) != len(ep):
            out.append("productions: %d in use, %d in the declared grammar" % (len(gp), len(ep)))
        n = 0
        for i, (a, b) in enumerate(zip(gp, ep)):
            if a != b:
                n += 1
                if n <= 4:
                    out.append("production %d: in use %r, declared grammar %r" % (i, a, b))
        if n:
            out.append("productions: %d differ" % n)
    if callables and got.get("errorfunc") != exp.get("errorfunc"):
        out.append("error function: in use %r, declared grammar %r" % (got.get("errorfunc"), exp.get("errorfunc")))
    return out


# ----------------------------------------------------------------------------------------------- cache states
def _copy_state(tmp, name, pkg_src, ply_src, shipped_bytes):
    root = os.path.join(tmp, name)
    os.makedirs(root)
    ign = shutil.ignore_patterns("__pycache__", "*.pyc", "parser.out")
    shutil.copytree(pkg_src, os.path.join(root, "simple_ddl_parser"), ignore=ign)
    shutil.copytree(ply_src, os.path.join(root, "ply"), ignore=ign)
    tab = os.path.join(root, "simple_ddl_parser", "parsetab.py")
    if shipped_bytes is None:
        if os.path.exists(tab):
            os.remove(tab)
    else:
        with open(tab, "wb") as f:
            f.write(shipped_bytes)
    return root, tab


def _edit_tab(tab, pattern, repl):
    with open(tab, encoding="utf-8") as f:
        text = f.read()
    new, n = re.subn(pattern, repl, text, count=1, flags=re.M)
    if n != 1 or new == text:
        return False
    with open(tab, "w", encoding="utf-8") as f:
        f.write(new)
    return True


def _stale_sig_edit(variant):
    if variant == "prefix":  # as if a token had been added/removed
        return (r"^_lr_signature = (['\"])", lambda m: "_lr_signature = " + m.group(1) + "C20_OLDER_TOKEN ")
    if variant == "reformatted":  # the docstring indentation of the first multi-line rule reformatted
        return (r"^(_lr_signature = .*?)\\n        \|", lambda m: m.group(1) + "\\n    |")
    if variant == "truncated":  # the last rule's docstring lost its last character
        return (r"^(_lr_signature = .*).(['\"])$", lambda m: m.group(1) + m.group(2))
    raise ValueError(variant)


def _hide_rule(root, func):
    """rename `def <func>(` in the private copy so that it is no longer a grammar rule -> (path, original text) | None"""
    pkg = os.path.join(root, "simple_ddl_parser")
    hits = []
    for d, _, files in os.walk(pkg):
        for fn in sorted(files):
            if fn.endswith(".py") and fn != "parsetab.py":
                path = os.path.join(d, fn)
                with open(path, encoding="utf-8") as f:
                    text = f.read()
                k = len(re.findall(r"\bdef %s\(" % re.escape(func), text))
                if k:
                    hits.append((path, text, k))
    if len(hits) != 1 or hits[0][2] != 1:
        return None
    path, text, _ = hits[0]
    with open(path, "w", encoding="utf-8") as f:
        f.write(re.sub(r"\bdef %s\(" % re.escape(func), "def c20older_%s(" % func[2:], text))
    return path, text


# ----------------------------------------------------------------------------------------------- scripts
CLAUSES = [
    "INHERITS (public.base_t)", "INHERITS (base_t)", "ENGINE = InnoDB", "ENGINE=MyISAM AUTO_INCREMENT=3 DEFAULT CHARSET=utf8",
    "TABLESPACE ts_main", "PARTITION BY RANGE (id)", "PARTITION BY (a, b)", "PARTITION BY DATE(created)",
    "PARTITIONED BY (day string, hr int)", "PARTITIONED BY (batch_id int)", "STORED AS PARQUET", "STORED AS INPUTFORMAT 'a.b.In' OUTPUTFORMAT 'a.b.Out'",
    "LOCATION 's3://bucket/path'", "LOCATION = 's3://bucket/p2'", "ROW FORMAT DELIMITED", "ROW FORMAT SERDE 'org.apache.Serde'",
    "FIELDS TERMINATED BY ','", "LINES TERMINATED BY '\\n'", "MAP KEYS TERMINATED BY ':'", "COLLECTION ITEMS TERMINATED BY '|'",
    "WITH SERDEPROPERTIES ('a' = 'b', 'c' = 'd')", "TBLPROPERTIES ('k' = 'v')", "TBLPROPERTIES ('k1'='v1', 'k2'='v2')",
    "COMMENT 'a table'", "COMMENT = 'a table'", "CLUSTERED BY (id) INTO 4 BUCKETS", "SKEWED BY (id) ON (1, 5)", "CLUSTER BY (id, name)", "CLUSTER BY id",
    "ON [PRIMARY]", "ON PRIMARY", "TEXTIMAGE_ON [PRIMARY]", "WITH (PAD_INDEX = OFF, STATISTICS_NORECOMPUTE = OFF)", "INDEX IN ts_idx",
    "DISTSTYLE KEY", "DISTKEY (id)", "SORTKEY (id, name)", "COMPOUND SORTKEY (id)", "DISTSTYLE ALL", "USING parquet", "USING DELTA",
    "DATA_RETENTION_TIME_IN_DAYS = 3", "MAX_DATA_EXTENSION_TIME_IN_DAYS = 7", "CHANGE_TRACKING = TRUE", "WITH TAG (dept = 'x')",
    "CATALOG = 'SNOWFLAKE'", "FILE_FORMAT = my_fmt", "FILE_FORMAT = (TYPE = CSV)", "STAGE_FILE_FORMAT = (TYPE = JSON NULL_IF = ())",
    "TABLE_FORMAT = ICEBERG", "AUTO_REFRESH = TRUE", "PATTERN = '.*[.]csv'", "OPTIONS (description = 'd', labels = [('a', 'b')])",
    "STORAGE (INITIAL 64K NEXT 1M)", "ORGANIZATION INDEX", "ESCAPED BY '\\\\'", "WITHOUT ROWID",
]
COLUMN_EXTRAS = [
    "c1 int GENERATED ALWAYS AS IDENTITY", "c1 int IDENTITY (1,1) NOT NULL", "c1 varchar(10) ENCODE zstd", "c1 int AUTOINCREMENT",
    "c1 int AUTO_INCREMENT PRIMARY KEY", "c1 timestamp DEFAULT now() ON UPDATE now()", "c1 int CHECK (c1 > 0)", "c1 varchar(5) COLLATE \"C\"",
    "c1 int COMMENT 'c'", "c1 int MASKING POLICY p1", "c1 ARRAY<INT>", "c1 STRUCT<a:INT, b:STRING>", "c1 MAP<STRING, INT>", "c1 int[]",
    "c1 int REFERENCES o (k) ON DELETE CASCADE ON UPDATE SET NULL", "c1 int REFERENCES s.o (k) DEFERRABLE INITIALLY DEFERRED",
    "c1 numeric(10, 2) DEFAULT 0.0 NOT NULL", "c1 int WITH TAG (t = 'v')", "c1 varchar(20) INVISIBLE", "c1 int ENCRYPT SALT",
    "CONSTRAINT pk PRIMARY KEY (a, b)", "CONSTRAINT fk FOREIGN KEY (a) REFERENCES o (k) ON DELETE NO ACTION", "CONSTRAINT u UNIQUE (a)",
    "CONSTRAINT ck CHECK (a > 1 AND b < 5)", "PRIMARY KEY (a)", "UNIQUE KEY uk (a, b)", "FOREIGN KEY (a) REFERENCES o (k)", "INDEX ix (a)", "KEY k1 (b)",
    "PRIMARY KEY CLUSTERED (a ASC)", "LIKE other_t", "PERIOD FOR SYSTEM_TIME (a, b)",
    # characters no token rule knows, at places where the parser is in the middle of an expression / at the end of a statement
    "c1 int CHECK (c1 ^ 2 > 3)", "c1 int DEFAULT 2 ^ 3", "c1 varchar(5) DEFAULT 'it's'",
]
STATEMENTS = [
    "CREATE TABLE IF NOT EXISTS s.t (a int);", "CREATE OR REPLACE TABLE t (a int);", "CREATE TEMPORARY TABLE t (a int);", "CREATE EXTERNAL TABLE t (a int);",
    "CREATE TRANSIENT TABLE t (a int);", "CREATE TABLE t LIKE o;", "CREATE TABLE t (LIKE s.o);", "CREATE TABLE t CLONE o;", "CREATE TABLE db.s.t (a int);",
    "CREATE SEQUENCE s.q INCREMENT BY 2 START WITH 1 MINVALUE 1 MAXVALUE 9 CACHE 5 NOORDER;", "CREATE SEQUENCE q START 7 NO MINVALUE NO MAXVALUE;",
    "CREATE TYPE s.e AS ENUM ('a', 'b');", "CREATE TYPE o AS OBJECT (a int, b text);", "CREATE TYPE tt AS TABLE (a int);", "CREATE DOMAIN s.d AS varchar(5) CHECK (VALUE ~ 'x');",
    "CREATE SCHEMA s;", "CREATE SCHEMA IF NOT EXISTS s AUTHORIZATION u;", "CREATE SCHEMA s LOCATION 'x' COMMENT 'c';", "CREATE DATABASE d;", "CREATE OR REPLACE DATABASE d CLONE e;",
    "CREATE TABLESPACE ts DATAFILE 'f.dbf' SIZE 10M AUTOEXTEND ON;", "CREATE BIGFILE TABLESPACE ts DATAFILE 'f' SIZE 1G;", "DROP TABLE t;", "DROP TABLE s.t;",
    "CREATE INDEX ix ON t (a);", "CREATE UNIQUE INDEX ix ON s.t (a DESC, b);", "CREATE CLUSTERED INDEX ix ON t (a) INCLUDE (b);", "CREATE INDEX ix ON t USING btree (a);",
    "ALTER TABLE t ADD CONSTRAINT fk FOREIGN KEY (a) REFERENCES o (k);", "ALTER TABLE t ADD PRIMARY KEY (a);", "ALTER TABLE t ADD UNIQUE (a, b);", "ALTER TABLE t ADD CONSTRAINT c CHECK (a > 0);",
    "ALTER TABLE t ADD COLUMN z int NOT NULL;", "ALTER TABLE t ADD z varchar(3) DEFAULT 'x';", "ALTER TABLE t DROP COLUMN a;", "ALTER TABLE t RENAME COLUMN a TO b;",
    "ALTER TABLE t MODIFY a bigint;", "ALTER TABLE t ALTER COLUMN a int NOT NULL;", "ALTER TABLE t ADD CONSTRAINT df DEFAULT 0 FOR a;", "ALTER TABLE ONLY s.t ADD CONSTRAINT pk PRIMARY KEY (a);",
    "DROP TABLE t ^;", "CREATE SEQUENCE q START WITH 1 ^;", "CREATE TABLE t (a int) ( b );",
    "COMMENT ON TABLE t IS 'x';", "CREATE TABLE t (a int) ; CREATE TABLE u (b int)", "CREATE TABLE t (a int,);", "CREATE TABLE (a int);", "CREATE TABLE t a int);", "CREATE TABLE t (a int",
]
SOUP = ["CREATE", "TABLE", "ALTER", "ADD", "DROP", "COLUMN", "INDEX", "UNIQUE", "PRIMARY", "KEY", "FOREIGN", "REFERENCES", "CONSTRAINT", "CHECK", "DEFAULT", "NOT", "NULL",
        "ON", "DELETE", "UPDATE", "SET", "IF", "EXISTS", "OR", "REPLACE", "SEQUENCE", "TYPE", "DOMAIN", "SCHEMA", "DATABASE", "AS", "ENUM", "LIKE", "CLONE", "WITH", "IN",
        "BY", "PARTITION", "PARTITIONED", "CLUSTER", "CLUSTERED", "STORED", "LOCATION", "COMMENT", "TBLPROPERTIES", "ROW", "FORMAT", "SERDE", "USING", "TABLESPACE",
        "INHERITS", "ENGINE", "ENCODE", "COLLATE", "GENERATED", "ARRAY", "MAP", "TAG", "MASKING", "POLICY", "INCREMENT", "START", "CACHE", "NO", "MINVALUE", "MAXVALUE",
        "(", ")", ",", ".", "=", "<", ">", ";", "'s'", "'a b'", "\"q\"", "`b`", "[m]", "1", "42", "t", "a", "b", "int", "varchar(10)", "decimal(5,2)", "s.t", "x_1", "\n"]
TOK = re.compile(r"\s+|'[^'\n]*'|\"[^\"\n]*\"|\w+|.", re.S)


def _mutate(rnd, ddl):
    toks = TOK.findall(ddl)
    idx = [i for i, t in enumerate(toks) if not t.isspace()]
    if len(idx) < 3:
        return ddl + " " + rnd.choice(SOUP)
    for _ in range(rnd.randint(1, 2)):
        op = rnd.randrange(6)
        i = rnd.choice(idx)
        if op == 0:
            toks[i] = ""
        elif op == 1:
            toks[i] = toks[i] + " " + toks[i]
        elif op == 2:
            j = rnd.choice(idx)
            toks[i], toks[j] = toks[j], toks[i]
        elif op == 3:
            toks[i] = rnd.choice(SOUP)
        elif op == 4:
            toks[i] = toks[i] + " " + rnd.choice(SOUP)
        else:
            toks[i] = toks[i].swapcase()
    return "".join(toks)


def _scripts(ck):
    rnd, quick = ck.rnd, ck.quick()
    out, seen = [], set()

    def add(group, sid, ddl, ctor=None, run=None):
        key = (ddl, json.dumps(ctor or {}, sort_keys=True), json.dumps(run or {}, sort_keys=True))
        if key in seen:
            return
        seen.add(key)
        out.append(dict(group=group, id=sid, ddl=ddl, ctor=ctor or {}, run=run or {}))

    corp = corpus()
    for cid, ddl in corp:
        add("corpus", cid, ddl)
    for i, (cid, ddl) in enumerate(corp):
        if not quick or i % 3 == 0:
            add("corpus-not-silent", cid, ddl, ctor=dict(silent=False))
        if not quick or i % 4 == 1:
            add("corpus-output-mode", cid, ddl, run=dict(output_mode=MODES[i % len(MODES)]))
        if not quick and i % 2 == 0:
            add("corpus-normalize-names", cid, ddl, ctor=dict(normalize_names=True), run=dict(group_by_type=True))
    # tables from the abstract schema generator (columns x ordered option lists x layouts)
    seqs = S.option_sequences(3)
    for i in range(40 if quick else 400):
        ddls = []
        for ti in range(rnd.randint(1, 3)):
            names = rnd.sample(["id", "name", "qty", "price", "created", "status", "ref_id", "note", "flag", "order", "comment", "type", "value", "key"], rnd.randint(1, 7))
            cols = [S.column(nm, rnd.choice(S.TYPES), list(rnd.choice(seqs)), rnd.choice(S.DEFAULTS)) for nm in names]
            ddls.append(S.table("t%d" % ti, cols, layout=rnd.randrange(3), schema=rnd.choice([None, "s1"]))[0])
        add("generated-tables", i, "\n\n".join(ddls))
    # every after-columns clause alone, and ordered selections of clauses
    base_cols = "a int NOT NULL, b varchar(10) DEFAULT 'x'"
    for i, c in enumerate(CLAUSES):
        add("generated-clauses", ("one", i), "CREATE TABLE s.t (%s) %s;" % (base_cols, c))
        add("generated-clauses", ("one-ns", i), "CREATE TABLE s.t (%s)\n%s;" % (base_cols, c), ctor=dict(silent=False))
    for i in range(60 if quick else 700):
        cl = rnd.sample(CLAUSES, rnd.randint(2, 4))
        kw = rnd.choice(["CREATE TABLE", "CREATE EXTERNAL TABLE", "CREATE TABLE IF NOT EXISTS", "CREATE OR REPLACE TABLE"])
        add("generated-clauses", ("many", i), "%s %s (%s)%s%s;" % (kw, rnd.choice(["t", "s.t", '"S"."T"']), base_cols, rnd.choice([" ", "\n"]), rnd.choice([" ", "\n"]).join(cl)),
            run=dict(output_mode=rnd.choice(MODES)) if i % 3 == 0 else None)
    # column / constraint forms
    for i, c in enumerate(COLUMN_EXTRAS):
        add("generated-columns", ("one", i), "CREATE TABLE t (a int, b int, %s);" % c)
        add("generated-columns", ("first", i), "CREATE TABLE t (\n  %s,\n  a int,\n  b int\n);" % c, ctor=dict(silent=False))
    for i in range(60 if quick else 500):
        cs = rnd.sample(COLUMN_EXTRAS, rnd.randint(2, 3))
        cs = [c.replace("c1 ", "c%d " % (k + 1)) for k, c in enumerate(cs)]
        add("generated-columns", ("many", i), "CREATE TABLE t (a int, %s, b int) %s;" % (", ".join(cs), rnd.choice(CLAUSES + ["", ""])))
    # statements of every kind, alone and in ordered pairs
    sts = STATEMENTS + list(S.SUPPORTED.values()) + ["\n".join(g) for g in S.GROUPS.values()] + list(S.UNSUPPORTED.values())
    for i, s in enumerate(sts):
        add("generated-statements", ("one", i), s)
        add("generated-statements", ("one-ns", i), s, ctor=dict(silent=False))
    for i in range(50 if quick else 700):
        a, b = rnd.sample(range(len(sts)), 2)
        add("generated-statements", ("pair", a, b), "CREATE TABLE t (a int, b int);\n" + sts[a] + "\n" + sts[b])
    # near-grammar texts: test DDLs with 1-2 token edits
    for i in range(120 if quick else 2000):
        cid, ddl = corp[rnd.randrange(len(corp))]
        if len(ddl) > 6000:
            continue
        add("mutated-corpus", i, _mutate(rnd, ddl), ctor=dict(silent=False) if i % 2 else None)
    # token soup
    for i in range(80 if quick else 1000):
        n = rnd.randint(2, 14)
        body = " ".join(rnd.choice(SOUP) for _ in range(n))
        form = rnd.randrange(3)
        text = ("CREATE TABLE t (a int, %s);" % body) if form == 0 else ("CREATE TABLE t (a int) %s;" % body) if form == 1 else body + ";"
        add("token-soup", i, text, ctor=dict(silent=False) if i % 2 else None)
    return out


# ----------------------------------------------------------------------------------------------- the check
def check(ck):
    import ply
    import simple_ddl_parser

    quick = ck.quick()
    pkg_src = os.path.dirname(os.path.abspath(simple_ddl_parser.__file__))
    ply_src = os.path.dirname(os.path.abspath(ply.__file__))
    assert not pkg_src.startswith(REPO + os.sep), "must run on the scratch copy"
    # the shipped table file: the repository's own bytes (the scratch copy may already have been rewritten by a parser
    # constructed in this process; reading a file of the repository changes nothing there)
    shipped_path = os.path.join(REPO, "simple_ddl_parser", "parsetab.py")
    if not os.path.isfile(os.path.join(REPO, "simple_ddl_parser", "__init__.py")):
        shipped_path = os.path.join(pkg_src, "parsetab.py")
    shipped_bytes = open(shipped_path, "rb").read() if os.path.isfile(shipped_path) else None

    scripts = _scripts(ck)
    counts = {}
    for s in scripts:
        counts[s["group"]] = counts.get(s["group"], 0) + 1
    ck.notes["script_sets"] = counts
    tmp = tempfile.mkdtemp(prefix="c20_")
    try:
        info = _check(ck, tmp, pkg_src, ply_src, shipped_bytes, scripts)
    finally:
        shutil.rmtree(tmp, ignore_errors=True)
    rule = ("cache states built on private copies of the package and run in sub-processes; contract (a): action/goto/productions(+bound callables, error function) of "
            "DDLParser('').yacc (first and last parser of each process, and of a second process after a regeneration) == a fresh LALR generation from the declared grammar; "
            "the shipped parsetab.py read without PLY == that generation when its signature is the grammar's; contract (b): run() results (or exception) of every script "
            "in every state == in the shipped state; distinct = distinct (state, script) or (state, table check)")
    bound = ("states: %s; scripts: %s (all of them in shipped/missing%s, a sample of %d plus the scripts that exercise the hidden rule elsewhere); "
             "rule functions hidden (one per state) to build genuine table files of an older grammar: %s; rule functions exercised by the scripts: %s of %s"
             % (_kinds(info["states"]), ", ".join("%s=%d" % kv for kv in sorted(counts.items())), "" if quick else "/stale-signature-text[prefix]/older-tabversion[3.8]", info["sample"],
                ", ".join(info["hidden"]) or "none", info.get("covered_functions"), info.get("n_functions")))
    return rule, bound


def _check(ck, tmp, pkg_src, ply_src, shipped_bytes, scripts):
    rnd, quick = ck.rnd, ck.quick()
    info = dict(states=[], hidden=[], sample=0)
    notes = ck.notes.setdefault("states", {})
    seed_box = [0]

    def hashseed():
        seed_box[0] += 1
        return seed_box[0]

    # ------------------------------------------------------------ reference: the package as shipped
    root, tab = _copy_state(tmp, "shipped", pkg_src, ply_src, shipped_bytes)
    shipped_tab = _read_tabfile(tab)
    budget = 40 if quick else 400  # seconds of script processing per sub-process; only reached on a tree that never persists its tables
    ref = _run_worker(root, scripts, 0, trace=True, budget=budget)
    info["states"].append("shipped")
    if "crash" in ref:
        ck.fail("tables", ("shipped", "worker"), "c20:worker-crash:shipped", dict(ddl="", observed=ref, expected="a result for every script"))
        return info
    fresh = ref["fresh"]
    gsig = ref.get("grammar_signature")
    if "exc" in fresh:
        # the declared grammar does not generate at all: nothing to compare the tables with; results still compared below
        ck.fail("tables", ("shipped", "fresh"), "c20:declared-grammar-does-not-generate",
                dict(ddl="", observed=fresh, expected="ply.yacc.yacc(module=DDLParser instance) builds LALR tables from the declared p_* rules", stderr=ref.get("stderr")))
        fresh = None
    else:
        ck.ok("tables", ("shipped", "fresh"))
    shipped_sig_ok = bool(shipped_tab) and "error" not in shipped_tab and gsig is not None and shipped_tab.get("signature") == gsig \
        and shipped_tab.get("version") == _tabversion(ply_src)
    notes["shipped"] = dict(signature_is_grammar_signature=bool(shipped_tab and "error" not in shipped_tab and shipped_tab.get("signature") == gsig),
                            tabversion=shipped_tab.get("version") if shipped_tab and "error" not in shipped_tab else None,
                            file_rewritten=_md5(tab) != (hashlib.md5(shipped_bytes).hexdigest() if shipped_bytes is not None else None))
    # clause 1: a shipped table file whose signature matches the grammar contains the tables of the grammar
    if fresh is not None and shipped_sig_ok:
        d = _diff_tables(shipped_tab, fresh, callables=False)
        if shipped_tab.get("method") != "LALR":
            d.append("_lr_method = %r" % shipped_tab.get("method"))
        if d:
            ck.fail("tables", ("shipped", "file"), "c20:shipped-table-differs-from-grammar",
                    dict(ddl="", observed=d, expected="parsetab.py carries the grammar's signature, so its _lr_action/_lr_goto/_lr_productions equal a fresh LALR generation"))
        else:
            ck.ok("tables", ("shipped", "file"))
    _tables_in_use(ck, "shipped", "shipped", ref, fresh)
    ref_results = ref["results"]
    unstable = set(i for i, r in enumerate(ref_results) if r is None or r == '["timeout"]')
    if unstable:
        notes["shipped"]["scripts_not_compared"] = len(unstable)
    # (the shipped-state results are the reference of contract (b); they are not counted as evaluations)
    # which rule functions each script exercises (recorded by transparent wrappers in the reference run)
    cover = {}
    for i, fs in enumerate(ref.get("traces", [])):
        for f in fs:
            cover.setdefault(f, []).append(i)
    # second process on the same copy (the state every later process of a user is in)
    sample_n = 120 if quick else 500
    info["sample"] = sample_n
    pick = sorted(rnd.sample(range(len(scripts)), min(sample_n, len(scripts))))
    _state_run(ck, "shipped+second-run", "shipped+second-run", root, tab, scripts, pick, ref_results, unstable, fresh, hashseed(), notes,
               full=not notes["shipped"]["signature_is_grammar_signature"])
    info["states"].append("shipped+second-run")

    # candidate rule functions to hide: every production is a left-recursive extension `expr : expr ...`, so the
    # remaining grammar is still a valid grammar
    cands = []
    if fresh is not None:
        byf = {}
        for p in fresh["productions"][1:]:
            byf.setdefault(p[3], []).append(p[0])
        cands = sorted(f for f, ps in byf.items() if f and all(x.startswith("expr -> expr ") for x in ps))
        info["n_functions"] = len(byf)
        info["covered_functions"] = len([f for f in byf if f in cover])
    covered = [f for f in cands if f in cover]
    uncovered = [f for f in cands if f not in cover]

    # ------------------------------------------------------------ missing
    root, tab = _copy_state(tmp, "missing", pkg_src, ply_src, None)
    _state_run(ck, "missing", "missing", root, tab, scripts, None, ref_results, unstable, fresh, hashseed(), notes)
    _state_run(ck, "missing+second-run", "missing+second-run", root, tab, scripts, pick[:60], ref_results, unstable, fresh, hashseed(), notes)
    info["states"] += ["missing", "missing+second-run"]

    # ------------------------------------------------------------ stale signature, tables of the current grammar
    if shipped_bytes is not None:
        for variant in (["prefix"] if quick else ["prefix", "reformatted", "truncated"]):
            name = "stale-signature-text[%s]" % variant
            root, tab = _copy_state(tmp, name, pkg_src, ply_src, shipped_bytes)
            if not _edit_tab(tab, *_stale_sig_edit(variant)):
                notes[name] = "edit not applicable to this table file"
                continue
            _state_run(ck, name, "stale-signature-text", root, tab, scripts, pick if (quick or variant != "prefix") else None, ref_results, unstable, fresh, hashseed(), notes)
            if not quick:
                _state_run(ck, name + "+second-run", "stale-signature-text+second-run", root, tab, scripts, pick[:60], ref_results, unstable, fresh, hashseed(), notes)
            info["states"].append(name)
        # -------------------------------------------------------- older table version
        for ver in (["3.8"] if quick else ["3.8", "3.5", "3.2"]):
            name = "older-tabversion[%s]" % ver
            root, tab = _copy_state(tmp, name, pkg_src, ply_src, shipped_bytes)
            if not _edit_tab(tab, r"^_tabversion = .*$", "_tabversion = %r" % ver):
                notes[name] = "edit not applicable to this table file"
                continue
            _state_run(ck, name, "older-tabversion", root, tab, scripts, pick if (quick or ver != "3.8") else None, ref_results, unstable, fresh, hashseed(), notes)
            if not quick:
                _state_run(ck, name + "+second-run", "older-tabversion+second-run", root, tab, scripts, pick[:60], ref_results, unstable, fresh, hashseed(), notes)
            info["states"].append(name)

    # ------------------------------------------------------------ stale signature, a genuine table file of an older grammar
    if quick:
        hide = rnd.sample(covered, min(2, len(covered)))
    else:
        hide = covered + uncovered
    for func in hide:
        name = "stale-older-grammar[%s]" % func
        root, tab = _copy_state(tmp, name, pkg_src, ply_src, None)
        hidden = _hide_rule(root, func)
        if hidden is None:
            notes[name] = "rule function not found exactly once in the sources; state skipped"
            continue
        prep = _run_worker(root, [], hashseed(), quiet=True)
        with open(hidden[0], "w", encoding="utf-8") as f:
            f.write(hidden[1])
        older = _read_tabfile(tab)
        if "crash" in prep or "exc" in prep.get("first", {}) or not older or "error" in older:
            # no table file of the older grammar could be produced (e.g. a tree that never writes its tables back):
            # this state cannot be built; nothing the statement promises is involved
            notes[name] = dict(skipped="no older table file could be prepared", prep=_brief(prep))
            continue
        if older["signature"] == gsig or any(p[3] == func for p in older["productions"]):
            notes[name] = "older table file not older; state skipped"
            continue
        idx = sorted(set(cover.get(func, [])[:40]) | set(pick[: (100 if quick else 200)]))
        older_bytes = open(tab, "rb").read()
        _state_run(ck, name, "stale-older-grammar", root, tab, scripts, idx, ref_results, unstable, fresh, hashseed(), notes, extra=dict(hidden_rule=func))
        _state_run(ck, name + "+second-run", "stale-older-grammar+second-run", root, tab, scripts, sorted(cover.get(func, [])[:10]), ref_results, unstable, fresh, hashseed(), notes,
                   extra=dict(hidden_rule=func))
        info["states"].append(name)
        info["hidden"].append(func)
        # the same older table file, also written by an older table version (thorough): both reasons to regenerate at once
        if not quick and func in covered[:4]:
            name2 = "older-tabversion+older-grammar[%s]" % func
            root2, tab2 = _copy_state(tmp, name2, pkg_src, ply_src, older_bytes)
            if _edit_tab(tab2, r"^_tabversion = .*$", "_tabversion = '3.8'"):
                _state_run(ck, name2, "older-tabversion+older-grammar", root2, tab2, scripts, sorted(set(cover.get(func, [])[:40]) | set(pick[:60])), ref_results, unstable, fresh, hashseed(), notes,
                           extra=dict(hidden_rule=func))
                info["states"].append(name2)
    # ------------------------------------------------------------ missing and not writable (every parser regenerates)
    root, tab = _copy_state(tmp, "missing-unwritable", pkg_src, ply_src, None)
    os.mkdir(tab)  # a directory in the place of the table file: nothing to import, nothing can be written (also for root)
    few = pick[: (12 if quick else 80)]
    _state_run(ck, "missing-unwritable", "missing-unwritable", root, tab, scripts, few, ref_results, unstable, fresh, hashseed(), notes, quiet=True)
    info["states"].append("missing-unwritable")
    return info


RECIPES = {
    "shipped": "private copy of the package with the repository's parsetab.py",
    "missing": "private copy of the package with parsetab.py removed",
    "stale-signature-text": "private copy; the _lr_signature string literal of parsetab.py edited (prefix added / indentation of the first '\\n        |' changed / last character dropped); tables untouched",
    "older-tabversion": "private copy; _tabversion in parsetab.py set to an older value (3.8 / 3.5 / 3.2)",
    "stale-older-grammar": "private copy; `def <hidden_rule>(` renamed so that it is no rule, parsetab.py removed, one DDLParser('') constructed (PLY writes the table file of that older grammar), source restored",
    "older-tabversion+older-grammar": "as stale-older-grammar, then _tabversion in that parsetab.py set to '3.8'",
    "missing-unwritable": "private copy; parsetab.py replaced by a DIRECTORY of that name (nothing to import, nothing can be written, also for root)",
}


def _recipe(kind):
    base = kind.replace("+second-run", "")
    r = RECIPES.get(base, base)
    if kind.endswith("+second-run"):
        r += "; one process has already run in that copy, this is a second process on the same copy"
    return r + "; sub-process with the copy first on PYTHONPATH, PYTHONDONTWRITEBYTECODE=1"


def _kinds(states):
    out, n = [], {}
    for st in states:
        k = st.split("[")[0] if st.startswith(("stale-older-grammar", "older-tabversion+older-grammar")) else st
        if k not in n:
            out.append(k)
        n[k] = n.get(k, 0) + 1
    return ", ".join(k if n[k] == 1 else "%s x%d" % (k, n[k]) for k in out)


def _tabversion(ply_src):
    try:
        with open(os.path.join(ply_src, "yacc.py"), encoding="utf-8") as f:
            m = re.search(r"^__tabversion__\s*=\s*['\"]([^'\"]+)['\"]", f.read(), re.M)
        return m.group(1) if m else None
    except OSError:
        return None


def _k(s):
    return (tuple(sorted(s["ctor"].items())), tuple(sorted(s["run"].items())))


def _brief(res):
    if "crash" in res:
        return res
    return {k: (v if k in ("stderr",) or (isinstance(v, dict) and "exc" in v) else "...") for k, v in res.items() if k in ("first", "last", "fresh", "stderr")}


def _tables_in_use(ck, name, kind, res, fresh, extra=None):
    """contract (a) for the first and the last parser of one sub-process"""
    ok = True
    for which in ("first", "last"):
        t = res[which]
        key = (name, which)
        if "exc" in t:
            ck.fail("tables", key, "c20:construction-fails:%s" % kind,
                    dict(ddl="", observed=t, expected="DDLParser('') builds its parser (regenerating the tables if the cache is unusable)", state=name, state_recipe=_recipe(kind), stderr=res.get("stderr"), **(extra or {})))
            ok = False
            continue
        if fresh is None:
            continue
        d = _diff_tables(t, fresh)
        if d:
            ck.fail("tables", key, "c20:tables-in-use-differ:%s" % kind,
                    dict(ddl="", observed=d, expected="DDLParser('').yacc action/goto/productions equal a fresh LALR generation from the declared grammar", state=name,
                         state_recipe=_recipe(kind), parser="%s parser constructed in the process" % which, **(extra or {})))
            ok = False
        else:
            ck.ok("tables", key)
    f2 = res.get("fresh")
    if fresh is not None and f2 is not None and name != "shipped":
        if "exc" in f2 or _diff_tables(f2, fresh):
            ck.fail("tables", (name, "fresh"), "c20:generation-not-reproducible",
                    dict(ddl="", observed=f2 if "exc" in f2 else _diff_tables(f2, fresh), expected="the same sources generate the same tables in every process", state=name))
        else:
            ck.ok("tables", (name, "fresh"))
    return ok


def _state_run(ck, name, kind, root, tab, scripts, idx, ref_results, unstable, fresh, hashseed, notes, full=False, extra=None, quiet=False):
    """run the scripts with indices idx (None = all) in the state prepared under root; check (a) and (b)"""
    if idx is None or full:
        idx = list(range(len(scripts)))
    before = _md5(tab)
    t0 = time.time()
    res = _run_worker(root, [scripts[i] for i in idx], hashseed, quiet=quiet, budget=40 if ck.quick() else 400)
    ck.notes.setdefault("seconds", {})[name] = round(time.time() - t0, 1)
    if "crash" in res:
        ck.fail("tables", (name, "worker"), "c20:worker-crash:%s" % kind, dict(ddl="", observed=res, expected="a result for every script", state=name, **(extra or {})))
        return
    after = _read_tabfile(tab)
    notes[name] = dict(table_file_before=before and before[:8], table_file_after=(_md5(tab) or "")[:8] or None,
                       file_now_carries_grammar_signature=bool(after and "error" not in after and after.get("signature") == res.get("grammar_signature")))
    _tables_in_use(ck, name, kind, res, fresh, extra)
    set_name = "results:%s" % kind
    skipped = 0
    for i, got in zip(idx, res["results"]):
        s = scripts[i]
        key = (name, s["group"], s["id"], _k(s))
        if i in unstable or got is None or got == '["timeout"]':
            skipped += 1
            continue
        if got == ref_results[i]:
            ck.ok(set_name, key, dict(state=name, ddl=s["ddl"][:200]))
        else:
            g, e = json.loads(got), json.loads(ref_results[i])
            why = "exception" if g[0] == "exc" and e[0] != "exc" else "results-differ"
            info = dict(ddl=s["ddl"], observed=g, expected=e, state=name, state_recipe=_recipe(kind), script=[s["group"], str(s["id"])], **(extra or {}))
            if s["ctor"]:
                info["ctor"] = s["ctor"]
            if s["run"]:
                info["run"] = s["run"]
            ck.fail(set_name, key, "c20:%s:%s" % (why, kind), info)
    if skipped:
        notes[name]["scripts_not_compared"] = skipped
