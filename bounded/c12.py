"""C12 bounded stand-in: successful output always has the documented shape and is JSON-serialisable.

Oracle (taken from the property statement, not from what the library returns today):
  * flat result: a list whose items are dicts; grouped result: a dict of lists (entity dicts; `comments`: strings);
  * every table entry (an entity carrying `table_name`) has table_name, schema (`dataset` in bigquery mode),
    primary_key (list of str, each the `name` of one of that table's `columns`), columns (list), alter (dict),
    checks / index / partitioned_by (lists) and tablespace;
  * every entry of `columns` is a dict with name, type, size, references, unique, nullable, default, check;
    unique and nullable are bool;
  * json.dumps(result) succeeds without a `default=` hook, json.loads of it gives the result back (tuples ~ lists);
  * run(json_dump=True) returns a str equal to json.dumps(result of the same call without json_dump).
Generated inputs additionally carry what the generator declared (tables in order, their column names after
ALTER ADD/DROP/RENAME) so that the shape is never checked on a result from which the declared entity is missing.

Quantifier: generated DDL + regression corpus x output modes x normalize_names x group_by_type x json_dump.
"""
import itertools
import json
import re

from bounded.common import MODES, corpus

REQ_TABLE = ["table_name", "primary_key", "columns", "alter", "checks", "index", "partitioned_by", "tablespace"]
REQ_TABLE_TYPES = {"primary_key": list, "columns": list, "alter": dict, "checks": list, "index": list, "partitioned_by": list}
REQ_COL = ["name", "type", "size", "references", "unique", "nullable", "default", "check"]

# witness classes of the input classes known to violate the statement on the unchanged tree (decided from the input, see _classify)
TAG_PK_MARKER_CASE = "pk-order-marker-not-upper-case"
CLS_PK_MARKER_CASE = "c12:lower-case-order-marker-in-primary-key"
TAG_PK_RENAMED = "pk-column-renamed-by-alter"
CLS_PK_RENAMED = "c12:rename-of-primary-key-column"
KNOWN_CLASSES = (CLS_PK_MARKER_CASE, CLS_PK_RENAMED)


# ------------------------------------------------------------------------------------------------ identifiers
def quote(style, name):
    return {"plain": name, "dq": '"%s"' % name, "bt": "`%s`" % name, "br": "[%s]" % name}[style]


def normalized(name):
    """what normalize_names=True promises: one pair of outer delimiters stripped"""
    if name is None:
        return None
    if len(name) >= 2 and ((name[0] == '"' and name[-1] == '"') or (name[0] == "`" and name[-1] == "`") or (name[0] == "[" and name[-1] == "]")):
        return name[1:-1]
    return name


PLAIN_COL_NAMES = ["id", "name", "qty", "price", "created_at", "status", "ref_id", "note", "flag", "amount", "customerId", "Order_No", "a1b2", "x", "emp#", "cost$",
             "ts", "code", "email", "parent_id", "is_active", "total_sum", "c_17", "Z", "updated", "lat", "lon", "descr", "payload", "region"]
# keyword-shaped names (legal column names in SQL); never used as the target of an ALTER / INDEX follow-up (C06 finding: ALTER on keyword-named columns)
KEYWORD_COL_NAMES = ["order", "comment", "type", "value", "key", "default", "table", "schema", "date", "time", "timestamp", "user", "group", "role",
             "location", "options", "tag", "start", "cache", "increment", "data", "format", "row", "column", "level", "year", "zone",
             "sequence", "domain", "database", "text", "partition", "engine", "identity", "max", "min", "policy", "exists", "replace",
             "temporary", "external", "buckets", "keys", "map", "items", "fields", "lines", "serde", "enum", "desc", "asc"]
COL_NAMES = PLAIN_COL_NAMES + KEYWORD_COL_NAMES
TABLE_NAMES = ["users", "Order_Items", "t1", "acct", "fact_sales", "dimCustomer", "a", "events_2024", "x_y_z", "Payments"]
SCHEMAS = [None, None, "s1", "Sales", "dbo", "stg_raw"]
STYLES = ["plain", "plain", "plain", "dq", "bt", "br"]

TYPES = ["int", "bigint", "varchar(10)", "decimal(10,2)", "numeric(5)", "timestamp", "text", "char(1)", "date", "double precision",
         "character varying(20)", "timestamp with time zone", "timestamp without time zone", "varchar(max)", "number(10, 2)", "varchar2(30 char)",
         "timestamp(6)", "int unsigned", "int[]", "varchar(10)[]", "ARRAY<STRING>", "array<int>", "STRUCT<a INT64, b STRING>", "map<string,int>",
         "s.custom_type", "character(3)", "nvarchar(50)", "float(53)", "bit", "uuid", "jsonb", "time", "tinyint(1)", "enum('a','b')",
         "numeric(5, 0)", "timestamp_ntz(9)", "string", "boolean", "INT64", "varchar ( 20 )", "decimal( 10 , 2 )", "timestamp(6) with time zone"]
SIMPLE_TYPES = ["int", "bigint", "varchar(10)", "decimal(10,2)", "numeric(5)", "timestamp", "text", "char(1)", "date", "varchar(255)", "number(10, 2)", "string", "boolean"]

# column option atoms: (family, text).  `{c}` is the column's own name, `{o}` another column of the same table
ATOMS = [
    ("null", "NOT NULL"), ("null", "NULL"),
    ("default", "DEFAULT 0"), ("default", "DEFAULT 'abc'"), ("default", "DEFAULT NULL"), ("default", "DEFAULT now()"), ("default", "DEFAULT current_timestamp"),
    ("default", "DEFAULT -1"), ("default", "DEFAULT 1.5"), ("default", "DEFAULT (0)"), ("default", "DEFAULT nextval('s.q')"), ("default", "DEFAULT TRUE"),
    ("default", "DEFAULT ''"), ("default", "DEFAULT 'it''s'"), ("default", "DEFAULT \"dq\""), ("default", "DEFAULT (now())"), ("default", "DEFAULT sysdate"),
    ("default", "DEFAULT getdate()"), ("default", "DEFAULT NEXT VALUE FOR sq"), ("default", "DEFAULT uuid_generate_v4()"), ("default", "DEFAULT 'a'::text"),
    ("default", "DEFAULT 'жи'"), ("default", "DEFAULT 100500"), ("default", "DEFAULT '2020-01-01'"),
    ("key", "PRIMARY KEY"), ("unique", "UNIQUE"), ("unique", "UNIQUE KEY"), ("key", "CONSTRAINT pkc PRIMARY KEY"), ("unique", "CONSTRAINT uq_c UNIQUE"),
    ("null", "CONSTRAINT nn_c NOT NULL"),
    ("ref", "REFERENCES r (k)"), ("ref", "REFERENCES s.r (k)"), ("ref", "REFERENCES r"), ("ref", "REFERENCES r (k) ON DELETE CASCADE"),
    ("ref", "REFERENCES r (k) ON UPDATE CASCADE"), ("ref", "REFERENCES r (k) ON DELETE CASCADE ON UPDATE RESTRICT"),
    ("ref", "REFERENCES r (k) DEFERRABLE INITIALLY DEFERRED"), ("ref", "REFERENCES r (k) NOT DEFERRABLE"), ("ref", "FOREIGN KEY REFERENCES r (k)"),
    ("ref", "REFERENCES \"r\" (\"k\")"), ("ref", "REFERENCES [dbo].[r] ([k])"),
    ("check", "CHECK ({c} > 0)"), ("check", "CHECK ({c} IN ('a', 'b'))"), ("check", "CONSTRAINT ck_c CHECK ({c} > 0)"), ("check", "CHECK ({c} > 0 AND {c} < 10)"),
    ("check", "CHECK (length({c}) > 2)"),
    ("comment", "COMMENT 'a comment'"), ("comment", "COMMENT 'ж comment'"), ("collate", "COLLATE utf8_bin"), ("collate", "COLLATE \"en_US\""),
    ("encode", "ENCODE zstd"), ("autoinc", "AUTOINCREMENT"), ("autoinc", "AUTO_INCREMENT"),
    ("generated", "GENERATED ALWAYS AS ({o} * 2)"), ("generated", "GENERATED ALWAYS AS ({o} * 2) STORED"), ("generated", "GENERATED BY DEFAULT AS IDENTITY"),
    ("generated", "GENERATED ALWAYS AS IDENTITY"), ("generated", "AS ({o} + 1)"),
    ("on_update", "ON UPDATE CURRENT_TIMESTAMP"), ("encrypt", "ENCRYPT"), ("encrypt", "ENCRYPT NO SALT"), ("identity", "IDENTITY(1,1)"), ("identity", "IDENTITY"),
    ("dist", "DISTKEY"), ("dist", "SORTKEY"), ("options", "OPTIONS(description=\"x\")"), ("tag", "WITH TAG (a.b='c')"), ("tag", "TAG (a.b='c')"),
    ("mask", "WITH MASKING POLICY a.b.c"), ("mask", "MASKING POLICY a.b.c"), ("index", "INDEX"), ("tz", "WITH TIME ZONE"), ("tz", "WITHOUT TIME ZONE"),
    ("enforced", "ENFORCED"), ("enforced", "NOT ENFORCED"), ("order", "ORDER"), ("order", "NOORDER"), ("unsigned", "UNSIGNED"), ("charset", "CHARACTER SET utf8"),
]
# atoms of the documented core fragment (C01/C02): combined in ordered pairs and, minus CHECK, by the random scripts
CORE_ATOMS = [a for a in ATOMS if a[0] in ("null", "default", "key", "unique", "ref", "check", "comment") and not a[1].startswith(("CONSTRAINT nn", "FOREIGN KEY"))]
# CHECK expressions interact with neighbouring items (angle-bracket types, keyword-shaped or quoted names, a following ALTER: the table is lost or the
# script raises - C02/C03/C09/C16 territory, not a shape question), so the random scripts leave them out (RANDOM_ATOMS / RANDOM_TABLE_CONSTRAINTS);
# the enumerated sets cover every CHECK form one at a time and in ordered pairs with the other core options
RANDOM_ATOMS = [a for a in CORE_ATOMS if a[0] != "check"]


def render_atom(text, col, other):
    return text.replace("{c}", col).replace("{o}", other)


# ------------------------------------------------------------------------------------------------ table model
class Tab:
    """abstract table: what the generator declares; renders DDL and the declared names"""

    def __init__(self, name, schema=None, create="CREATE TABLE"):
        self.name, self.schema, self.create = name, schema, create
        self.cols = []      # [name, type text, [option texts]]
        self.tcons = []     # (position index in the body or None for the end, text)
        self.clauses = []   # texts after the closing parenthesis
        self.after = []     # follow-up statements (ALTER / CREATE INDEX) as text
        self.names = []     # declared column names after the follow-ups
        self.layout = 0

    def full(self):
        return "%s.%s" % (self.schema, self.name) if self.schema else self.name

    def add_col(self, name, typ, opts=()):
        self.cols.append([name, typ, list(opts)])
        self.names.append(name)

    def ddl(self, layout=0):
        items = [" ".join([c[0], c[1]] + c[2]) for c in self.cols]
        end = [t for p, t in self.tcons if p is None]
        for p, t in sorted([x for x in self.tcons if x[0] is not None], key=lambda x: -x[0]):
            items.insert(min(p, len(items)), t)
        items += end
        if layout == 0:
            body = "(\n    %s\n)" % ",\n    ".join(items)
        elif layout == 1:
            body = "(%s)" % ", ".join(items)
        elif layout == 2:
            body = "(\n    %s\n)" % "\n  , ".join(items)
        else:
            body = "(\n%s\n)" % ",\n".join("\t" + i for i in items)
        sep = "\n" if layout in (0, 2, 3) else " "
        text = "%s %s %s" % (self.create, self.full(), body)
        for c in self.clauses:
            text += sep + c
        text += ";"
        for a in self.after:
            text += "\n" + a
        return text

    def expected(self):
        return dict(table=self.name, schema=self.schema, cols=list(self.names))


def pk_clause(cols_markers, form, case):
    """cols_markers: [(column text, None|'ASC'|'DESC')]"""
    def mk(m):
        return {"upper": m, "lower": m.lower(), "title": m.title()}[case]
    inner = ", ".join(c if m is None else "%s %s" % (c, mk(m)) for c, m in cols_markers)
    return {"plain": "PRIMARY KEY (%s)", "named": "CONSTRAINT pk_t PRIMARY KEY (%s)", "clustered": "PRIMARY KEY CLUSTERED (%s)",
            "named-clustered": "CONSTRAINT pk_t PRIMARY KEY CLUSTERED (%s)", "nonclustered": "PRIMARY KEY NONCLUSTERED (%s)",
            "named-nonclustered": "CONSTRAINT [pk_t] PRIMARY KEY NONCLUSTERED (%s)"}[form] % inner


PK_FORMS = ["plain", "named", "clustered", "named-clustered", "nonclustered", "named-nonclustered"]

TABLE_CONSTRAINTS = [  # {a} {b}: two distinct columns of the table
    "UNIQUE ({a})", "UNIQUE ({a}, {b})", "CONSTRAINT uq_t UNIQUE ({a})", "CONSTRAINT uq_t UNIQUE ({a}, {b})", "UNIQUE KEY uk_t ({a})", "UNIQUE KEY uk_t ({a}, {b})",
    "FOREIGN KEY ({a}) REFERENCES r (k)", "FOREIGN KEY ({a}, {b}) REFERENCES s.r (k1, k2)", "CONSTRAINT fk_t FOREIGN KEY ({a}) REFERENCES r (k)",
    "CONSTRAINT fk_t FOREIGN KEY ({a}, {b}) REFERENCES r (k1, k2) ON DELETE CASCADE", "FOREIGN KEY ({a}) REFERENCES r (k) ON UPDATE CASCADE ON DELETE RESTRICT",
    "CHECK ({a} > 0)", "CONSTRAINT ck_t CHECK ({a} > 0)", "CONSTRAINT ck_t CHECK ({a} > 0 AND {b} < 5)", "CONSTRAINT ck_t CHECK (length({a}) > 1)",
    "CONSTRAINT ck_t CHECK ({a} IN (1, 2))", "INDEX ix_t ({a})", "KEY ix_t ({a})", "INDEX ix_t ({a}, {b})", "PERIOD FOR SYSTEM_TIME ({a}, {b})",
    "CONSTRAINT pk_w PRIMARY KEY CLUSTERED ({a} ASC, {b} DESC) WITH (PAD_INDEX = OFF, IGNORE_DUP_KEY = OFF) ON [PRIMARY]",
    "CONSTRAINT pk_w PRIMARY KEY CLUSTERED ({a} DESC, {b}) WITH (PAD_INDEX = OFF)", "CONSTRAINT pk_w PRIMARY KEY ({a}, {b}) WITH (FILLFACTOR = 80)",
]
RANDOM_TABLE_CONSTRAINTS = [c for c in TABLE_CONSTRAINTS if "CHECK" not in c and "PRIMARY KEY" not in c]
CLAUSES = [
    "TABLESPACE ts1", "TABLESPACE ts1 STORAGE (INITIAL 5m NEXT 5m)", "PARTITIONED BY (p string, q int)", "PARTITIONED BY ({a})", "STORED AS PARQUET",
    "STORED AS TEXTFILE", "LOCATION 's3://b/x'", "ROW FORMAT DELIMITED", "ROW FORMAT SERDE 'org.x.Serde'", "FIELDS TERMINATED BY ','",
    "LINES TERMINATED BY '\\n'", "MAP KEYS TERMINATED BY ':'", "COLLECTION ITEMS TERMINATED BY '|'", "TBLPROPERTIES ('a'='b', 'c'='d')",
    "CLUSTERED BY ({a}) INTO 4 BUCKETS", "COMMENT 'tbl comment'", "COMMENT='tbl comment'", "ENGINE=InnoDB", "DEFAULT CHARSET=utf8", "AUTO_INCREMENT=5",
    "ENGINE=InnoDB DEFAULT CHARSET=utf8 AUTO_INCREMENT=5", "STORAGE (INITIAL 65536 NEXT 1048576)", "ORGANIZATION INDEX", "DISTSTYLE KEY", "DISTKEY ({a})",
    "DISTSTYLE ALL SORTKEY ({a})", "COMPOUND SORTKEY ({a}, {b})", "INTERLEAVED SORTKEY ({a})", "CLUSTER BY ({a})", "CLUSTER BY {a}",
    "DATA_RETENTION_TIME_IN_DAYS=3", "CHANGE_TRACKING=TRUE", "WITH TAG (x='y')", "ON [PRIMARY]", "ON [PRIMARY] TEXTIMAGE_ON [PRIMARY]",
    "WITH (DATA_COMPRESSION = PAGE)", "OPTIONS (description='d')", "OPTIONS (description=\"d\", labels=[(\"a\", \"b\")])", "PARTITION BY {a}",
    "PARTITION BY RANGE ({a})", "PARTITION BY DATE({a})", "INHERITS (s.p)", "USING parquet", "IN ts", "INDEX IN ts", "ORGANIZE BY ROW",
    "SKEWED BY ({a}) ON (1, 2)", "ENCODE AUTO",
]
CREATES = ["CREATE TABLE", "CREATE TABLE", "CREATE TABLE", "CREATE TABLE IF NOT EXISTS", "CREATE OR REPLACE TABLE", "CREATE TEMPORARY TABLE", "CREATE TEMP TABLE",
           "CREATE EXTERNAL TABLE", "CREATE TRANSIENT TABLE", "CREATE GLOBAL TEMPORARY TABLE", "CREATE OR REPLACE TRANSIENT TABLE",
           "CREATE EXTERNAL TABLE IF NOT EXISTS", "create table", "Create Table If Not Exists"]
# follow-up statements: (text with {t} full table name, {a} {b} existing columns, {n} new column name, effect on declared names)
FOLLOW = [
    ("ALTER TABLE {t} ADD {n} decimal(8,2);", "add"), ("ALTER TABLE {t} ADD {n} int DEFAULT 0;", "add"), ("ALTER TABLE {t} ADD {n} varchar(5) UNIQUE;", "add"),
    ("ALTER TABLE {t} ADD {n} int REFERENCES r (k);", "add"), ("ALTER TABLE {t} ADD {n} int COMMENT 'x';", "add"),
    ("ALTER TABLE {t} ADD CONSTRAINT fk_a FOREIGN KEY ({a}) REFERENCES r (k);", None), ("ALTER TABLE {t} ADD FOREIGN KEY ({a}) REFERENCES r (k);", None),
    ("ALTER TABLE {t} ADD CONSTRAINT fk_a FOREIGN KEY ({a}, {b}) REFERENCES s.r (k1, k2) ON DELETE CASCADE;", None),
    ("ALTER TABLE {t} ADD UNIQUE ({a});", None), ("ALTER TABLE {t} ADD CONSTRAINT uq_a UNIQUE ({a}, {b});", None), ("ALTER TABLE {t} ADD PRIMARY KEY ({a});", None),
    ("ALTER TABLE {t} ADD CONSTRAINT pk_a PRIMARY KEY ({a}, {b});", None), ("ALTER TABLE {t} ADD CONSTRAINT pk_a PRIMARY KEY ({a}) USING INDEX TABLESPACE ts;", None),
    ("ALTER TABLE {t} DROP COLUMN {a};", "drop"), ("ALTER TABLE {t} RENAME COLUMN {a} TO {n};", "rename"), ("ALTER TABLE {t} MODIFY COLUMN {a} varchar(20) NOT NULL;", None),
    ("ALTER TABLE {t} MODIFY {a} varchar(20);", None), ("ALTER TABLE {t} ALTER COLUMN {a} varchar(20) NOT NULL;", None), ("ALTER TABLE {t} ADD CHECK ({a} > 0);", None),
    ("ALTER TABLE {t} ADD CONSTRAINT ck_a CHECK ({a} > 0);", None), ("ALTER TABLE {t} ADD CONSTRAINT df_a DEFAULT 0 FOR {a};", None),
    ("ALTER TABLE {t} ADD DEFAULT 'x' FOR {a};", None), ("ALTER TABLE {t} ADD CONSTRAINT ck_a CHECK ({a} IN ('a', 'b'));", None),
    ("CREATE INDEX ix_a ON {t} ({a});", None), ("CREATE UNIQUE INDEX ix_a ON {t} ({a}, {b});", None), ("CREATE INDEX ix_a ON {t} ({a} DESC, {b} ASC);", None),
    ("CREATE CLUSTERED INDEX ix_a ON {t} ({a});", None), ("CREATE INDEX ix_a ON {t} ({a}) TABLESPACE ts;", None),
]
# other entities and statements a script may contain between tables: (text, number of DROP-TABLE style table entries it declares)
OTHER = [
    "CREATE SEQUENCE dev.ids\n    INCREMENT BY 5\n    START WITH 10\n    MINVALUE 1\n    NO MAXVALUE\n    CACHE 20;",
    "CREATE TYPE shop.mood AS ENUM ('sad', 'ok', 'happy');", "CREATE TYPE addr AS OBJECT (\n    street varchar(30),\n    zip int\n);",
    "CREATE TYPE addr_t AS TABLE (street varchar(30) NOT NULL, zip int);", "CREATE DOMAIN shop.us_postal AS varchar(5);", "CREATE SCHEMA IF NOT EXISTS analytics;",
    "CREATE SCHEMA sales AUTHORIZATION joe;", "CREATE DATABASE warehouse;", "CREATE TABLESPACE ts1 DATAFILE 'ts1.dbf' SIZE 10m;", "SET search_path = shop;",
    "-- a comment line", "/* block\n comment */", "COMMIT;", "INSERT INTO orders (id, note) VALUES (1, 'x');", "GRANT SELECT ON orders TO reporting;",
    "SELECT a, b FROM orders WHERE id > 100;", "USE warehouse;", "CREATE VIEW v_orders AS SELECT id FROM orders;",
]
# well-formed scripts that declare no entity at all
EMPTY_SCRIPTS = [
    "", " ", "\n", "\n\n  \n", ";", "USE warehouse;", "USE [staging]\nGO\n", "GO", "COMMIT;", "BEGIN;\nCOMMIT;", "INSERT INTO orders (id, note) VALUES (1, 'x');",
    "USE [staging]\nGO\nINSERT INTO dbo.countries (id, name) VALUES (1, 'NL');\nGO\n", "GRANT SELECT ON analytics.events TO reporting_role;\n", "DELETE FROM audit_log;\n",
    "UPDATE orders SET note = 'y' WHERE id = 1;", "SELECT a, b FROM orders WHERE id > 100;", "TRUNCATE TABLE orders;", "REVOKE ALL ON orders FROM public;",
    "-- nothing but a comment", "-- nothing but a comment\n", "/* block comment only */", "-- c1\n-- c2\n\n", "CREATE VIEW v_orders AS SELECT id FROM orders;",
    "INSERT INTO a VALUES (1);\nINSERT INTO a VALUES (2);\nDELETE FROM a WHERE x = 1;\n", "SELECT o.id,\n       c.name\nFROM orders o\nJOIN customers c ON c.id = o.customer_id;",
]


# ------------------------------------------------------------------------------------------------ the oracle
def _detuple(x):
    if isinstance(x, (list, tuple)):
        return [_detuple(i) for i in x]
    if isinstance(x, dict):
        return {k: _detuple(v) for k, v in x.items()}
    return x


def _tables_of(res, grouped, problems):
    """-> table entries of a flat / grouped result (after the container-level checks)"""
    if grouped:
        if not isinstance(res, dict):
            problems.append(("grouped-result-not-a-dict", type(res).__name__))
            return []
        ents = []
        for k, v in res.items():
            if not isinstance(k, str):
                problems.append(("grouped-bucket-name-not-a-string", repr(k)))
            if not isinstance(v, list):
                problems.append(("grouped-bucket-not-a-list", "%s: %s" % (k, type(v).__name__)))
                continue
            for e in v:
                if k == "comments":
                    if not isinstance(e, str):
                        problems.append(("comment-not-a-string", repr(e)[:80]))
                elif not isinstance(e, dict):
                    problems.append(("entity-not-a-dict", "%s: %r" % (k, e)))
                else:
                    ents.append((k, e))
        for k, e in ents:
            if "table_name" in e and k != "tables":
                problems.append(("table-entry-outside-tables-bucket", k))
        return [e for k, e in ents if k == "tables" or "table_name" in e]
    if not isinstance(res, list):
        problems.append(("flat-result-not-a-list", type(res).__name__))
        return []
    out = []
    for e in res:
        if not isinstance(e, dict):
            problems.append(("entity-not-a-dict", repr(e)[:80]))
        elif "table_name" in e:
            out.append(e)
    return out


_PK_TEXT = re.compile(r"primary\s+key\s*(?:clustered|nonclustered)?\s*\(([^)]*)\)", re.I)


def pk_names_in_text(ddl):
    """corpus scripts carry no abstract description: the names a script itself puts at a column position of a PRIMARY KEY (...) list.
    A primary_key entry that is not a column of the table is tolerated there only if the script names it so (key over an undeclared column)."""
    out = set()
    for m in _PK_TEXT.finditer(ddl):
        for item in m.group(1).split(","):
            toks = item.split()
            if toks:
                out.add(toks[0])
                out.add(normalized(toks[0]))
    return out


def shape_problems(res, mode, grouped, exp, norm, pk_tolerated=()):
    """-> list of (kind, detail[, offending value]); kind is the stable part of the witness class"""
    problems = []
    tables = _tables_of(res, grouped, problems)
    schema_key = "dataset" if mode == "bigquery" else "schema"
    for t in tables:
        tn = t.get("table_name")
        for k in REQ_TABLE + [schema_key]:
            if k not in t:
                problems.append(("table-key-missing:" + ("schema" if k == schema_key else k), "%s lacks %r" % (tn, k)))
        for k, ty in REQ_TABLE_TYPES.items():
            if k in t and not isinstance(t[k], ty):
                problems.append(("table-key-wrong-type:" + k, "%s.%s is %s" % (tn, k, type(t[k]).__name__)))
        if not isinstance(tn, str):
            problems.append(("table-name-not-a-string", repr(tn)))
        cols = t.get("columns") if isinstance(t.get("columns"), list) else []
        names = []
        for c in cols:
            if not isinstance(c, dict):
                problems.append(("column-entry-not-a-dict", "%s: %r" % (tn, c)))
                continue
            names.append(c.get("name"))
            for k in REQ_COL:
                if k not in c:
                    problems.append(("column-key-missing:" + k, "%s.%s lacks %r" % (tn, c.get("name"), k)))
            for k in ("unique", "nullable"):
                if k in c and not isinstance(c[k], bool):
                    problems.append(("column-flag-not-bool:" + k, "%s.%s.%s = %r" % (tn, c.get("name"), k, c[k])))
            if "name" in c and not isinstance(c["name"], str):
                problems.append(("column-name-not-a-string", "%s: %r" % (tn, c["name"])))
        pk = t.get("primary_key")
        if isinstance(pk, list):
            for x in pk:
                if not isinstance(x, str):
                    problems.append(("primary-key-entry-not-a-string", "%s: %r" % (tn, x)))
                elif x not in names and x not in pk_tolerated:
                    problems.append(("primary-key-entry-not-a-column", "%s: primary_key %r, entry %r is not among the column names %r" % (tn, pk, x, names), x))
    if exp is not None:
        f = normalized if norm else (lambda s: s)
        want = [f(e["table"]) for e in exp]
        got = [t.get("table_name") for t in tables]
        if got != want:
            problems.append(("declared-table-missing" if len(got) < len(want) else "table-entries-differ-from-declared", "tables %r, declared %r" % (got, want)))
        else:
            for t, e in zip(tables, exp):
                gc = [c.get("name") for c in t.get("columns", []) if isinstance(c, dict)] if isinstance(t.get("columns"), list) else None
                wc = [f(c) for c in e["cols"]]
                if gc is not None and gc != wc:
                    problems.append(("declared-column-missing" if len(gc) < len(wc) else "columns-differ-from-declared", "%s: columns %r, declared %r" % (t.get("table_name"), gc, wc)))
                if schema_key in t and t[schema_key] != f(e["schema"]):
                    problems.append(("schema-differs-from-declared", "%s: %r, declared %r" % (t.get("table_name"), t.get(schema_key), f(e["schema"]))))
    return problems


def json_problems(res, dumped):
    """-> (problems, json.dumps(res) or None)"""
    problems = []
    try:
        enc = json.dumps(res)
    except Exception as e:  # noqa
        return [("not-json-serialisable", "%s: %s" % (type(e).__name__, str(e)[:120]))], None
    try:
        if json.loads(enc) != _detuple(res):
            problems.append(("json-round-trip-differs", enc[:200]))
    except Exception as e:  # noqa
        problems.append(("json-encoding-not-loadable", "%s: %s" % (type(e).__name__, str(e)[:120])))
    if not isinstance(dumped, str):
        problems.append(("json-dump-not-a-string", "json_dump=True returned %s %s" % (type(dumped).__name__, repr(dumped)[:120])))
    elif dumped != enc:
        problems.append(("json-dump-differs-from-encoding", "json_dump=True returned %r..., json.dumps(result) is %r..." % (dumped[:160], enc[:160])))
    return problems, enc


def _classify(problem, tags, norm):
    """witness class of one problem; the narrow classes of known findings are decided from the INPUT (tags set by the generator) plus the one
    symptom that input class predicts; anything else about the same input keeps its general class"""
    kind = problem[0]
    if kind == "primary-key-entry-not-a-column":
        x = problem[2]
        if TAG_PK_MARKER_CASE in tags and x.upper() in ("ASC", "DESC") and x not in ("ASC", "DESC"):
            return CLS_PK_MARKER_CASE
        for tag in tags:
            if isinstance(tag, tuple) and tag[0] == TAG_PK_RENAMED and x == (normalized(tag[1]) if norm else tag[1]):
                return CLS_PK_RENAMED
    return "c12:" + kind


class _Runner:
    """one parser object per (ddl, normalize_names), re-run over (mode, group_by_type) x json_dump - the quantifier of the statement;
    thorough tier: json_dump=True runs on a second, independent parser object.  A problem seen on a re-used object is re-evaluated on fresh
    objects before it is reported (so that a C14-type defect cannot show up under a C12 class)."""

    def __init__(self, ck, fresh_json):
        self.ck = ck
        self.fresh_json = fresh_json

    def observe(self, ddl, norm, mode, grouped, exp, parser, jparser, tolerated):
        from simple_ddl_parser import DDLParser
        p = parser or DDLParser(ddl, normalize_names=norm)
        res = p.run(output_mode=mode, group_by_type=grouped)
        problems = shape_problems(res, mode, grouped, exp, norm, tolerated)
        try:
            snap = json.dumps(res)
        except Exception:  # noqa
            snap = None
        pj = jparser or (DDLParser(ddl, normalize_names=norm) if parser is None else p)
        try:
            dumped = pj.run(output_mode=mode, group_by_type=grouped, json_dump=True)
        except Exception as e:  # noqa  (the same call without json_dump succeeded)
            jp, enc = json_problems(res, "")
            jp = [x for x in jp if x[0] != "json-dump-differs-from-encoding"]
            if enc is not None:
                jp.append(("json-dump-raises", "%s: %s" % (type(e).__name__, str(e)[:160])))
            return problems + jp, res, "%s: %s" % (type(e).__name__, str(e)[:160])
        jp, enc = json_problems(res, dumped)
        if snap is not None and enc is not None and snap != enc:
            jp.append(("result-changed-by-later-run", snap[:160]))
        return problems + jp, res, dumped

    def case(self, set_name, key, ddl, exp, plan, tags=(), on_exception="fail", tolerated=()):
        """plan: [(normalize_names, [(mode, group_by_type), ...]), ...]"""
        from simple_ddl_parser import DDLParser
        ck = self.ck
        for norm, combos in plan:
            try:
                parser = DDLParser(ddl, normalize_names=norm)
                jparser = DDLParser(ddl, normalize_names=norm) if self.fresh_json else None
            except Exception as e:  # noqa
                if on_exception == "fail":
                    ck.fail(set_name, (key, norm), "c12:exception-on-supported-ddl", dict(ddl=ddl, ctor=dict(normalize_names=norm), observed="%s: %s" % (type(e).__name__, e), expected="a parser object"))
                continue
            for mode, grouped in combos:
                k = (key, norm, mode, grouped)
                info = dict(ddl=ddl, ctor=dict(normalize_names=norm), run=dict(output_mode=mode, group_by_type=grouped))
                try:
                    problems, res, dumped = self.observe(ddl, norm, mode, grouped, exp, parser, jparser, tolerated)
                    reused_only = False
                    if problems:
                        p2, res2, dumped2 = self.observe(ddl, norm, mode, grouped, exp, None, None, tolerated)
                        if p2:
                            problems, res, dumped = p2, res2, dumped2
                        else:
                            reused_only = True
                except Exception as e:  # noqa
                    if on_exception == "fail":
                        ck.fail(set_name, k, "c12:exception-on-supported-ddl", dict(info, observed="%s: %s" % (type(e).__name__, str(e)[:300]), expected="a result of the documented shape"))
                    else:
                        notes = ck.notes.setdefault("corpus_scripts_raising", [])
                        if len(notes) < 50:
                            notes.append("%s %s: %s" % (key, mode, type(e).__name__))
                    continue
                if not problems:
                    ck.ok(set_name, k, dict(ddl=ddl[:300], mode=mode, normalize_names=norm, group_by_type=grouped))
                    continue
                if reused_only:
                    cls = "c12:only-on-reused-parser-object:" + problems[0][0]
                else:
                    classes = sorted(set(_classify(p, tags, norm) for p in problems))
                    # a narrow known-finding class is reported only if nothing else is wrong with this result
                    other = [c for c in classes if c not in KNOWN_CLASSES]
                    cls = other[0] if other else classes[0]
                ck.fail(set_name, k, cls, dict(info, observed=dict(problems=[list(p[:2]) for p in problems[:6]], result=res, json_dump=dumped if not isinstance(dumped, str) else dumped[:400]),
                                               expected="documented shape (module docstring of bounded/c12.py); declared by the generator: %r" % (exp,), tags=sorted(map(str, tags))))


# ------------------------------------------------------------------------------------------------ evaluation plans
def _uniq(xs):
    out = []
    for x in xs:
        if x not in out:
            out.append(x)
    return out


def _plan(ck, i, level="std", extra=()):
    """which (normalize_names, [(mode, group_by_type)]) a case is evaluated under.
    quick  std : one normalize_names value (alternating), default mode + one rotating mode (all 15 are reached as i varies) with opposite group_by_type, owner modes of the construct
           wide: one normalize_names value, all 15 modes with alternating group_by_type
    thorough std : both normalize_names values, default + 2 rotating modes + owner modes, both group_by_type; every 4th case: wide
             wide: both normalize_names values x 15 modes x both group_by_type"""
    odd = bool(i % 2)
    r = [MODES[(2 * i + j) % len(MODES)] for j in (1, 2, 3)]
    if ck.quick():
        if level == "wide":
            return [(odd, [(m, bool((i + j) % 2)) for j, m in enumerate(MODES)])]
        return [(odd, _uniq([("sql", odd), (r[0], not odd)] + [(m, odd) for m in extra]))]
    if level == "wide" or i % 4 == 0:
        return [(n, [(m, g) for m in MODES for g in (False, True)]) for n in (False, True)]
    return [(n, [(m, g) for m in _uniq(["sql"] + r[:2] + list(extra)) for g in (False, True)]) for n in (False, True)]


# ------------------------------------------------------------------------------------------------ generators
def _base_table(style="plain", schema=None, name="tb", ncols=3, create="CREATE TABLE"):
    t = Tab(quote(style, name), quote(style, schema) if schema else None, create)
    base = [("c0", "int"), ("cx", "varchar(10)"), ("c2", "bigint"), ("c3", "decimal(10,2)"), ("c4", "date")]
    for n, ty in base[:ncols]:
        t.add_col(quote(style, n), ty)
    return t


def gen_column_atoms(ck, run):
    """every option atom at column positions first / middle / last; every type; ordered pairs of core atoms of different families"""
    i = 0
    for ai, (fam, text) in enumerate(ATOMS):
        for pos in ((ai % 3, (ai + 1) % 3) if ck.quick() else range(3)):
            t = _base_table()
            t.cols[pos][2] = [render_atom(text, t.cols[pos][0], t.cols[(pos + 1) % 3][0])]
            run.case("column-options", (ai, pos), t.ddl(layout=(ai + pos) % 4), [t.expected()], _plan(ck, i))
            i += 1
    for ti, ty in enumerate(TYPES):
        for pos in ((ti % 3,) if ck.quick() else range(3)):
            t = _base_table()
            t.cols[pos][1] = ty
            run.case("column-types", (ti, pos), t.ddl(layout=ti % 4), [t.expected()], _plan(ck, i))
            i += 1
    pairs = [(a, b) for a in range(len(CORE_ATOMS)) for b in range(len(CORE_ATOMS)) if CORE_ATOMS[a][0] != CORE_ATOMS[b][0]
             and not ({CORE_ATOMS[a][0], CORE_ATOMS[b][0]} == {"null", "key"})]
    pairs = sorted(ck.rnd.sample(pairs, 120 if ck.quick() else 1200))
    for a, b in pairs:
        pos = (a + b) % 3
        t = _base_table()
        t.cols[pos][2] = [render_atom(CORE_ATOMS[a][1], t.cols[pos][0], "c0"), render_atom(CORE_ATOMS[b][1], t.cols[pos][0], "c0")]
        norm = bool((a + b) % 2)
        run.case("column-option-pairs", (a, b), t.ddl(layout=(a + b) % 4), [t.expected()], [(norm, [("sql", norm), (MODES[(a * 7 + b) % len(MODES)], not norm)])])


def gen_primary_keys(ck, run):
    """PRIMARY KEY clause: 6 forms x every ASC/DESC marker pattern over 1-3 key columns (of 4) x identifier quoting x position of the clause;
    markers spelled in lower / title case and ALTER ... RENAME of a key column are separate sets (known-finding classes decided from the input)"""
    rnd = ck.rnd
    patterns = [marks for n in (1, 2, 3) for marks in itertools.product([None, "ASC", "DESC"], repeat=n)]
    i = 0
    for fi, form in enumerate(PK_FORMS):
        for pi, marks in enumerate(patterns):
            if ck.quick() and fi >= 2 and (pi + fi) % 3:
                continue
            style = ["plain", "br", "dq", "bt"][(fi + pi) % 4] if (fi + pi) % 3 == 0 else "plain"
            t = _base_table(style=style, ncols=4, schema=[None, "dbo"][pi % 2])
            sel = rnd.sample(range(4), len(marks))
            t.tcons.append((rnd.choice([None, None, 2]), pk_clause([(t.cols[c][0], m) for c, m in zip(sel, marks)], form, "upper")))
            run.case("primary-key-clauses", (form, marks, tuple(sel)), t.ddl(layout=pi % 4), [t.expected()], _plan(ck, i, extra=["mssql"] if "clustered" in form else []))
            i += 1
    marked = [m for m in patterns if any(m)]
    for fi, form in enumerate(PK_FORMS):
        for pi, marks in enumerate(marked[fi % 2::2] if not ck.quick() else marked[fi::9]):
            case = ["lower", "title"][(fi + pi) % 2]
            t = _base_table(ncols=4)
            sel = rnd.sample(range(4), len(marks))
            t.tcons.append((None, pk_clause([(t.cols[c][0], m) for c, m in zip(sel, marks)], form, case)))
            run.case("primary-key-marker-case", (form, marks, tuple(sel), case), t.ddl(layout=pi % 4), [t.expected()], _plan(ck, i)[:1], tags={TAG_PK_MARKER_CASE})
            i += 1
    decls = [("column", lambda t, a, b: t.cols[0][2].append("PRIMARY KEY"), 0), ("table", lambda t, a, b: t.tcons.append((None, "PRIMARY KEY (%s, %s)" % (a, b))), 1),
             ("named", lambda t, a, b: t.tcons.append((None, "CONSTRAINT pk_t PRIMARY KEY (%s)" % a)), 0)]
    for di, (dname, decl, which) in enumerate(decls):
        for style, schema in ((("plain", None), ("dq", "s1")) if ck.quick() else (("plain", None), ("plain", "s1"), ("dq", "s1"), ("br", "dbo"), ("bt", None))):
            t = _base_table(style=style, schema=schema)
            decl(t, t.cols[0][0], t.cols[1][0])
            old = t.cols[which][0]
            _apply_follow(t, "ALTER TABLE {t} RENAME COLUMN {a} TO {n};", "rename", which, which, quote(style, "c9"))
            run.case("primary-key-column-renamed", (dname, style, schema), t.ddl(layout=di), [t.expected()], _plan(ck, i), tags={(TAG_PK_RENAMED, old)})
            i += 1


def gen_constraints_and_clauses(ck, run):
    i = 0
    for ci, text in enumerate(TABLE_CONSTRAINTS):
        for pos in ((None,) if " WITH (" in text else (None, 2)):  # the MSSQL index options close the column list
            for style in (["plain"] if (ck.quick() and ci % 3) or " IN (" in text else ["plain", "br", "dq"]):
                t = _base_table(style=style)
                t.tcons.append((pos, text.replace("{a}", t.cols[1][0]).replace("{b}", t.cols[0][0])))
                run.case("table-constraints", (ci, pos, style), t.ddl(layout=ci % 4), [t.expected()], _plan(ck, i))
                i += 1
    for ci, text in enumerate(CLAUSES):
        for layout in ((ci % 2,) if ck.quick() else (0, 1)):
            t = _base_table(schema=[None, "s1"][ci % 2])
            t.clauses.append(text.replace("{a}", "c0").replace("{b}", "c2"))
            run.case("table-clauses", (ci, layout), t.ddl(layout=layout), [t.expected()], _plan(ck, i, "wide" if ci % 4 == 0 else "std"))
            i += 1
    # a single word the grammar has no rule for after the column list (Oracle NOLOGGING / COMPRESS, SQLite STRICT ...):
    # whatever is made of it, the documented keys keep their documented types
    for wi, word in enumerate(["NOLOGGING", "COMPRESS", "STRICT", "nologging", "CACHE"]):
        for with_pk in (False, True):
            for schema in (None, "s1"):
                t = _base_table(schema=schema)
                if with_pk:
                    t.tcons.append((None, "PRIMARY KEY (%s)" % t.cols[0][0]))
                t.clauses.append(word)
                run.case("unknown-trailing-word", (word, with_pk, schema), t.ddl(layout=wi % 2), None if with_pk else [t.expected()], _plan(ck, i))
                i += 1
    # ALTER TABLE / CREATE INDEX whose target is not defined in the script: the library rejects the script (ValueError); should a
    # version report something instead, what it reports still has the documented shape
    for oi, orphan in enumerate(["ALTER TABLE ghost ADD CONSTRAINT fk_g FOREIGN KEY (owner_id) REFERENCES owners (id);", "ALTER TABLE s1.ghost ADD z int;",
                                 "CREATE INDEX ix_g ON ghost (owner_id);", "ALTER TABLE ghost ADD CONSTRAINT pk_g PRIMARY KEY (id);"]):
        t = _base_table()
        for order in (0, 1):
            script = (t.ddl() + "\n" + orphan) if order else (orphan + "\n" + t.ddl())
            run.case("orphan-alter-or-index", (oi, order), script, None, _plan(ck, i, extra=["bigquery"]), on_exception="note")
            i += 1
    for ci, create in enumerate(sorted(set(CREATES))):
        t = _base_table(create=create, schema=[None, "s1"][ci % 2])
        run.case("create-forms", ci, t.ddl(layout=ci % 4), [t.expected()], _plan(ck, ci, "wide"))
    for ni, style in enumerate(["plain", "dq", "bt", "br"]):  # project.dataset.table
        t = _base_table(style=style, schema="s1")
        ddl = t.ddl(layout=ni).replace(t.full(), quote(style, "proj") + "." + t.full(), 1)
        run.case("create-forms", ("three-part-name", style), ddl, [t.expected()], _plan(ck, ni, "wide"))
    for fi, (text, effect) in enumerate(FOLLOW):
        for style, schema in ((("plain", None),) if ck.quick() and fi % 2 else (("plain", None), ("plain", "s1"), ("dq", "s1"))):
            t = _base_table(style=style, schema=schema)
            _apply_follow(t, text, effect, 1, 0, quote(style, "c9"))
            run.case("alter-and-index", (fi, style, schema), t.ddl(layout=fi % 4), [t.expected()], _plan(ck, i, extra=["bigquery"] if fi % 5 == 0 else []))
            i += 1
    for oi, text in enumerate(OTHER):
        t = _base_table()
        for order in (0, 1):
            script = (text + "\n" + t.ddl()) if order else (t.ddl() + "\n" + text)
            run.case("other-entities", (oi, order), script, [t.expected()], _plan(ck, i))
            i += 1
        if not text.startswith(("--", "/*")):
            run.case("other-entities", (oi, "alone"), text, [], _plan(ck, oi, "wide"))
    for di, (schema, name) in enumerate([(None, "old_stuff"), ("s1", "old_stuff"), (None, '"Old"'), ("[dbo]", "[old]")]):
        full = "%s.%s" % (schema, name) if schema else name
        t = _base_table()
        run.case("drop-table", di, t.ddl() + "\nDROP TABLE %s;" % full, [t.expected(), dict(table=name, schema=schema, cols=[])], _plan(ck, di, "wide"))


def _apply_follow(t, text, effect, ia, ib, newname):
    a, b = t.names[ia % len(t.names)], t.names[ib % len(t.names)]
    if a == b and "{b}" in text:
        b = t.names[(ia + 1) % len(t.names)]
    t.after.append(text.replace("{t}", t.full()).replace("{a}", a).replace("{b}", b).replace("{n}", newname))
    if effect == "add":
        t.names.append(newname)
    elif effect == "drop":
        t.names.remove(a)
    elif effect == "rename":
        t.names[t.names.index(a)] = newname


def random_script(rnd, big, max_cols):
    """-> list of items: Tab objects (with .layout) and plain statement texts"""
    items, used = [], set()
    if rnd.random() < 0.3:
        items.append(rnd.choice(OTHER))
    for ti in range(rnd.randint(1, 4) if not big else 1):
        style = rnd.choice(STYLES)
        name = rnd.choice([x for x in TABLE_NAMES if x not in used])
        used.add(name)
        schema = rnd.choice(SCHEMAS)
        t = Tab(quote(style, name), quote(style, schema) if schema else None, rnd.choice(CREATES))
        t.layout = rnd.randrange(4)
        ncols = rnd.randint(13, max_cols) if big else rnd.randint(1, 12)
        for cn in rnd.sample(COL_NAMES, ncols):
            fams, opts = set(), []
            for fam, text in rnd.sample(RANDOM_ATOMS, rnd.choice([0, 0, 1, 1, 2, 3])):
                if fam in fams or (fam == "null" and "key" in fams) or (fam == "key" and "null" in fams):
                    continue
                if fam == "key" and any(o.endswith("PRIMARY KEY") for c in t.cols for o in c[2]):
                    continue
                fams.add(fam)
                opts.append(render_atom(text, quote(style, cn), quote(style, cn)))
            t.add_col(quote(style, cn), rnd.choice(SIMPLE_TYPES if rnd.random() < 0.7 else TYPES), opts)
        have_pk = any(o.endswith("PRIMARY KEY") for c in t.cols for o in c[2])
        protected = set(c[0] for c in t.cols if any(o.endswith("PRIMARY KEY") for o in c[2]))  # key columns are never dropped / renamed
        for _ in range(rnd.choice([0, 0, 1, 1, 2, 3])):
            kind = rnd.random()
            a, b = (rnd.sample(t.names, 2) if len(t.names) > 1 else (t.names[0], t.names[0]))
            pos = rnd.choice([None, None, rnd.randrange(1, len(t.cols) + 1)])
            if kind < 0.4 and not have_pk:
                sel = rnd.sample(t.names, rnd.randint(1, min(3, len(t.names))))
                t.tcons.append((pos, pk_clause([(c, rnd.choice([None, None, "ASC", "DESC"])) for c in sel], rnd.choice(PK_FORMS), "upper")))
                protected.update(sel)
                have_pk = True
            elif kind >= 0.4:
                text = rnd.choice(RANDOM_TABLE_CONSTRAINTS)
                if a == b and "{b}" in text:
                    continue
                t.tcons.append((pos, text.replace("{a}", a).replace("{b}", b)))
        plain = [x for x in t.names if normalized(x) not in KEYWORD_COL_NAMES]
        if rnd.random() < 0.35:
            text = rnd.choice(CLAUSES)
            if "{a}" not in text or plain:
                t.clauses.append(text.replace("{a}", plain[0] if plain else "").replace("{b}", plain[-1] if plain else ""))
        for _ in range(rnd.choice([0, 0, 0, 1, 1, 2])):
            text, effect = rnd.choice(FOLLOW)
            plain = [x for x in t.names if normalized(x) not in KEYWORD_COL_NAMES]
            pool = [x for x in plain if x not in protected] if effect in ("drop", "rename") else plain
            if not pool or (effect == "drop" and len(t.names) < 3) or ("{b}" in text and len(plain) < 2):
                continue
            a = rnd.choice(pool)
            b = rnd.choice([x for x in plain if x != a]) if len(plain) > 1 else a
            _apply_follow(t, text, effect, t.names.index(a), t.names.index(b), quote(style, "n_%d" % len(t.after)))
        items.append(t)
        if rnd.random() < 0.4:
            items.append(rnd.choice(OTHER))
    return items


def render_script(items, sep="\n"):
    return sep.join(i.ddl(layout=i.layout) if isinstance(i, Tab) else i for i in items), [i.expected() for i in items if isinstance(i, Tab)]


def gen_random_scripts(ck, run):
    """scripts of 1-4 tables x 1-12 columns (every 10th: one table of 13-25, thorough 13-40 columns) with random options of the core fragment, table
    constraints, a clause, follow-up ALTER / INDEX statements and other entities / unsupported statements in between"""
    rnd = ck.rnd
    n = 300 if ck.quick() else 600
    for i in range(n):
        items = random_script(rnd, i % 10 == 0, 25 if ck.quick() else 40)
        script, exp = render_script(items, rnd.choice(["\n", "\n\n"]))
        if ck.quick():
            plan = _plan(ck, i)
        elif i % 20 == 5:
            plan = _plan(ck, i, "wide")
        else:
            plan = [(bool(i % 2), _plan(ck, 3 * i + 1)[0][1])]
        run.case("random-scripts", i, script, exp, plan)
    return n


def gen_empty(ck, run):
    for si, s in enumerate(EMPTY_SCRIPTS):
        if ck.quick():
            plan = [(n, [(m, g) for m in (MODES if si % 3 == 0 else ["sql", MODES[si % len(MODES)]]) for g in (False, True)]) for n in (False, True)]
        else:
            plan = _plan(ck, si, "wide")
        run.case("scripts-without-entities", si, s, [], plan)


def gen_corpus(ck, run):
    cp = corpus()
    for i, (cid, ddl) in enumerate(cp):
        if ck.quick():
            plan = _plan(ck, i)
        else:
            plan = [(bool(i % 2), [(m, g) for m in MODES for g in (False, True)]), (not (i % 2), _plan(ck, 3 * i + 1)[0][1][:4])]
        run.case("regression-corpus", (i, cid), ddl, None, plan, on_exception="note", tolerated=pk_names_in_text(ddl))
    return len(cp)


# multi-step ALTER sequences on one table (shape only, exp=None): the table was named by an earlier statement
# (DROP TABLE t; / an older CREATE TABLE t), or a column was renamed / dropped / modified before the ALTER that names it
ALTER_SEQUENCES = [
    "DROP TABLE {t};\nCREATE TABLE {t} (id int NOT NULL, customer_id int, note varchar(20));\nALTER TABLE {t} ADD CONSTRAINT fk_c FOREIGN KEY (customer_id) REFERENCES customers (id);",
    "DROP TABLE {t};\nCREATE TABLE {t} (id int NOT NULL, customer_id int);\nALTER TABLE {t} ADD FOREIGN KEY (customer_id) REFERENCES customers (id);\nCREATE INDEX ix ON {t} (customer_id);",
    "CREATE TABLE {t} (legacy int);\nCREATE TABLE {t} (id int, customer_id int);\nALTER TABLE {t} ADD CONSTRAINT fk_c FOREIGN KEY (customer_id) REFERENCES customers (id);",
    "CREATE TABLE {t} (id int NOT NULL, cust int, note varchar(20));\nALTER TABLE {t} RENAME COLUMN cust TO customer_id;\nALTER TABLE {t} ADD CONSTRAINT fk_c FOREIGN KEY (customer_id) REFERENCES customers (id);",
    "CREATE TABLE {t} (id int NOT NULL, cust int);\nALTER TABLE {t} RENAME COLUMN cust TO customer_id;\nALTER TABLE {t} ADD FOREIGN KEY (id, customer_id) REFERENCES customers (a, b);",
    "CREATE TABLE {t} (id int NOT NULL, cust int, tmp int);\nALTER TABLE {t} DROP COLUMN tmp;\nALTER TABLE {t} ADD tmp2 int;\nALTER TABLE {t} ADD CONSTRAINT fk_c FOREIGN KEY (cust) REFERENCES customers (id);",
    "CREATE TABLE {t} (id int NOT NULL, cust int);\nALTER TABLE {t} MODIFY COLUMN cust bigint;\nALTER TABLE {t} RENAME COLUMN cust TO customer_id;\nALTER TABLE {t} ADD CONSTRAINT fk_c FOREIGN KEY (customer_id) REFERENCES customers (id);",
    "CREATE TABLE {t} (id int NOT NULL, cust int);\nALTER TABLE {t} ADD CONSTRAINT fk_c FOREIGN KEY (cust) REFERENCES customers (id);\nALTER TABLE {t} RENAME COLUMN cust TO customer_id;\nALTER TABLE {t} ADD extra int;",
    "CREATE TABLE {t} (id int PRIMARY KEY, cust int);\nALTER TABLE {t} RENAME COLUMN id TO ident;\nALTER TABLE {t} ADD CONSTRAINT fk_c FOREIGN KEY (ident) REFERENCES customers (id);",
]


def gen_alter_sequences(ck, run):
    i = 0
    for si, text in enumerate(ALTER_SEQUENCES):
        for name in (("orders",) if ck.quick() else ("orders", "shop.orders", '"Orders"')):
            run.case("alter-sequences", (si, name), text.replace("{t}", name), None, _plan(ck, i, extra=["bigquery"] if si % 3 == 0 else []))
            i += 1


def check(ck):
    run = _Runner(ck, fresh_json=not ck.quick())
    gen_empty(ck, run)
    gen_alter_sequences(ck, run)
    gen_column_atoms(ck, run)
    gen_primary_keys(ck, run)
    gen_constraints_and_clauses(ck, run)
    nrand = gen_random_scripts(ck, run)
    ncorp = gen_corpus(ck, run)
    rule = ("DDL generated from an abstract description (tables x quoted / keyword-shaped names x %d column option atoms x %d types x 6 PRIMARY KEY forms with every ASC/DESC pattern over 1-3 key columns x "
            "%d table constraints x %d table clauses x %d CREATE forms x %d ALTER / INDEX follow-ups x %d other statements x %d scripts declaring nothing x random scripts) and the %d regression-corpus scripts, "
            "each under output modes x normalize_names x group_by_type x json_dump; contract: list of dicts / dict of lists; every table entry has the nine documented keys (dataset for schema in bigquery mode) "
            "with list / dict types, primary_key entries are names of its columns; every column has the eight documented keys with bool unique / nullable; json.dumps round-trips; json_dump=True is a str equal "
            "to json.dumps(result); the declared tables and columns are present (vacuity guard)"
            % (len(ATOMS), len(TYPES), len(TABLE_CONSTRAINTS), len(CLAUSES), len(set(CREATES)), len(FOLLOW), len(OTHER), len(EMPTY_SCRIPTS), ncorp))
    if ck.quick():
        bound = ("per case one normalize_names value, default mode + one rotating mode (+ owner mode) with opposite group_by_type, each with and without json_dump (all 15 modes for create forms, every 4th clause, "
                 "other entities alone, DROP, every 3rd empty script); option atoms at 2 of 3 positions, 120 ordered option pairs, %d random scripts of 1-4 tables x 1-25 columns" % nrand)
    else:
        bound = ("both normalize_names values x (default + 2 rotating + owner modes; every 4th case and all wide sets: all 15 modes) x both group_by_type x json_dump on an independent parser object; option atoms at 3 "
                 "positions, 1200 ordered pairs of core options, every marker pattern in 6 PRIMARY KEY forms, %d random scripts of 1-4 tables x 1-40 columns, corpus under all 15 modes" % nrand)
    return rule, bound
