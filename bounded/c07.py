"""BOUNDED stand-in for C07 - string and numeric literals are reported exactly as written.

Oracle (from the property statement, not from observed behaviour):
  * direct: tables are generated from an abstract description (columns with the literal as DEFAULT and as COMMENT,
    four option orders, three layouts); the expected `default` / `comment` of every column is the literal text the
    generator wrote (quotes included); a digits-only DEFAULT is expected as `int` of the same value;
  * metamorphic, for every other literal position (CHECK forms, ENUM values, ALTER, table / schema / tablespace
    options): the script is parsed once with neutral placeholder literals ('zq0', 'zq1', ...) and once with the
    literals under test; the statement says the content of a literal is plain text, so the second result must be the
    first one with every placeholder replaced by the literal - and the placeholder result must contain every
    placeholder (the position reports a plain literal at all).

Witness classes:
  * a literal whose *content* has one of the input features of `features()` (or a position-specific one of a template)
    is a known-defect input: the unchanged tree violates the statement on every such input (checked on each run, see
    notes.known_defect_inputs_failed_passed).  Its failures are reported as `c07:<feature>`, decided from the input
    alone; literals with two features are never generated; such literals never share a statement with other literals
    under test.  Only when even a relation that the known defect cannot break fails (equal after removing spaces, ...)
    the class gets the suffix `:more-than-...`, i.e. a different failure on the same input.
  * every other failure gets a class that says what was observed: `c07:default-literal-altered`, `c07:column-lost`,
    `c07:statement-lost[:<position group>]`, `c07:literal-altered:<group>`, `c07:structure-changed:<group>`,
    `c07:exception[:<group>]`, `c07:altered-only-next-to-other-literals`, `c07:plain-literal-not-reported:<group>`,
    `c07:numeric-default-left-as-text`, `c07:numeric-default-wrong-value`.

Generator stays inside the fragment the statement talks about: single-line literals over printable characters (no tab /
line break), never at the start of a line, structural commas followed by a blank or line break, `;`-terminated statements.
"""
import itertools
import re

from bounded.common import MODES, entities, jdump, parse

# ---------------------------------------------------------------------------------------------- input features
_PROTECTED = re.compile(r"[A-Za-z0-9_]*[\\']*[A-Za-z0-9_]*'")


def _later_nonword(content, ch):
    """ch occurs in the literal and the rest of the literal after it is not 'word characters up to the closing quote'
    (with doubled quotes inside the literal: not word characters, quotes, word characters, quote)"""
    for i, c in enumerate(content):
        if c == ch and not _PROTECTED.match(content[i + 1:] + "'"):
            return True
    return False


def _comma_feature(content):
    """a run of n commas is rewritten to one ' , ' (all n when a non-word character follows in the literal, else the
    first n-1): one comma rewritten -> re-spaced only; two or more -> commas are lost as well"""
    i, feat = 0, None
    while i < len(content):
        if content[i] != ",":
            i += 1
            continue
        j = i
        while j < len(content) and content[j] == ",":
            j += 1
        rewritten = (j - i) if not _PROTECTED.match(content[j:] + "'") else (j - i - 1)
        if rewritten >= 2:
            return "comma-run"
        if rewritten == 1:
            feat = "comma-followed-by-non-word-char"
        i = j
    return feat


def features(content):
    """input features of a literal's content for which the unchanged tree is known to violate the statement
    (DESIGN.md C07 'T' + Appendix B).  Decided from the literal alone."""
    f = []
    if any(ord(c) > 126 for c in content):
        f.append("non-ascii-char")
    if re.search(r"\\([ntx]|u201[89])", content):
        f.append("backslash-escape-lookalike")  # backslash + n / t / x: afterwards read as line break / tab / rewritten to \\0
    elif "\\" in content:
        f.append("backslash")
    if "/*" in content:
        f.append("block-comment-open-marker")
    if "*/" in content and "--" not in content:
        f.append("block-comment-close-marker")
    if "(" in content:
        f.append("open-paren")
    if _comma_feature(content):
        f.append(_comma_feature(content))
    if _later_nonword(content, ")"):
        f.append("close-paren-followed-by-non-word-char")
    if re.search(r"[A-Za-z0-9_]=", content):
        f.append("equals-directly-after-word-char")
    if "input.regex" in content:
        f.append("input-regex-marker-word")
    return f


SPACING = {"open-paren", "comma-followed-by-non-word-char", "close-paren-followed-by-non-word-char", "equals-directly-after-word-char"}


def q(content):
    return "'" + content + "'"


def _despace(x):
    return jdump(x).replace(" ", "")


def _weak_holds(feature, got, exp):
    """a relation that the known defect of `feature` does not break; when it fails too, the failure is of another kind"""
    if feature in SPACING:
        return _despace(got) == _despace(exp)
    if feature == "comma-run":
        return _despace(got).replace(",", "") == _despace(exp).replace(",", "")
    if feature == "backslash":
        return jdump(got).replace("\\", "") == jdump(exp).replace("\\", "")
    return True


def _known_class(feats, got, exp):
    cls = "c07:" + feats[0]
    if not _weak_holds(feats[0], got, exp):
        cls += ":more-than-" + ("respacing" if feats[0] in SPACING else "collapsing" if feats[0] == "comma-run" else "doubling")
    return cls


# ---------------------------------------------------------------------------------------------- literal generators
# one-character symbols of the exhaustive family (DESIGN.md C07 'B'): letters, digits, space, punctuation incl. the
# separators the pre-processor rewrites, comment-marker characters, non-ASCII letters of three scripts
ALPHA = list("aZ_09 ") + list(",()=;-/*#.%\":<>+!?@$&|^~`[]{}\\") + ["é", "Ж", "日"]
# multi-character tokens: comment markers, separators with spaces, keyword-shaped words, doubled quote
TOKENS = ["--", "/*", "*/", "#", ";", ", ", " ,", ",", ")", "(", "=", " = ", "\"", " ", "''", "a", "x1", "NOT NULL", "DEFAULT", "select",
          "PRIMARY KEY", "CREATE TABLE", "COMMENT", "GO", ");", "é", "null", "--\"", "INSERT", "References", "check"]
KEYWORD_EXTRA = ["SELECT", "INSERT INTO", "GRANT", "DELETE FROM", "USE", "GO", "SET", "NULL", "NOT NULL", "AUTO_INCREMENT", "COLLATE", "ON DELETE CASCADE",
                 "CURRENT_TIMESTAMP", "TRUE", "false", "END", "BEGIN", "lexer_state_regex", "input.regex is", "parse_m_input_regex"]


def _one_feature_at_most(content):
    return len(features(content)) <= 1


def _seqs(symbols, max_len):
    for n in range(0, max_len + 1):
        for t in itertools.product(symbols, repeat=n):
            yield "".join(t)


def _random_content(rnd, lo, hi, clean):
    """random literal content over ALPHA + TOKENS; clean=True: no known-defect feature, else at most one"""
    pool = ALPHA + TOKENS + ["b", "C", "d", "5", "_"]
    for _ in range(200):
        c = "".join(rnd.choice(pool) for _ in range(rnd.randint(lo, hi)))
        f = features(c)
        if "pars_m_" in c:
            continue
        if (not f) if clean else (len(f) <= 1):
            return c
    return "abc"


def _keywords():
    try:
        from simple_ddl_parser import tokens as tok
        kws = sorted(t for t in tok.tokens if t.isupper() and len(t) > 1 and t not in ("STRING_BASE", "DQ_STRING", "COMMAT"))
    except Exception:  # noqa
        kws = []
    return kws


# ---------------------------------------------------------------------------------------------- family A: columns (direct oracle)
COL_FORMS = [  # (text with {L} for the literal(s), expected nullable)
    ("varchar(40) DEFAULT {L} COMMENT {L}", True),
    ("varchar(40) NOT NULL DEFAULT {L} COMMENT {L}", False),
    ("text DEFAULT {L} NOT NULL COMMENT {L}", False),
    ("char(9) COMMENT {L} DEFAULT {L}", True),
]


def _columns_ddl(items, layout, form_shift, tname="t"):
    """items: literal contents, one column each (c0, c1, ...) with the literal as DEFAULT and as COMMENT, then a plain last column"""
    texts, exp = [], []
    for i, c in enumerate(items):
        form, nullable = COL_FORMS[(i + form_shift) % len(COL_FORMS)]
        texts.append("c%d %s" % (i, form.replace("{L}", q(c))))
        exp.append(dict(name="c%d" % i, default=q(c), comment=q(c), nullable=nullable))
    texts.append("last_col int")
    exp.append(dict(name="last_col", default=None, comment=None, nullable=True))
    if layout == 0:
        ddl = "CREATE TABLE %s (\n    %s\n);" % (tname, ",\n    ".join(texts))
    elif layout == 1:
        ddl = "CREATE TABLE %s (%s);" % (tname, ", ".join(texts))
    else:
        ddl = "CREATE TABLE %s (\n    %s\n);" % (tname, "\n  , ".join(texts))
    return ddl, exp


def _columns_observe(r, tname="t"):
    """-> (problem or None, list of observed column views)"""
    if r[0] != "ok":
        return "exception", r
    ents, _ = entities(r[1])
    if not isinstance(r[1], list) or len(ents) != 1 or not isinstance(ents[0], dict) or ents[0].get("table_name") != tname:
        return "statement-lost", r[1]
    cols = ents[0].get("columns") or []
    return None, [dict(name=c.get("name"), default=c.get("default"), comment=c.get("comment"), nullable=c.get("nullable")) for c in cols]


def _col_diff_class(got, exp):
    if got.get("name") != exp["name"]:
        return "column-lost"
    for k in ("default", "comment"):
        if got.get(k) != exp[k] or type(got.get(k)) is not type(exp[k]):
            return "%s-literal-altered" % k
    return "column-attribute-changed"


class _Run:
    def __init__(self, ck):
        self.ck = ck
        self.rnd = ck.rnd
        self.base_cache = {}
        self.mode_i = 0

    def stat(self, feats, passed):
        """known-defect inputs that pass / fail (a feature whose inputs pass is too wide or has been repaired)"""
        for f in feats:
            st = self.ck.notes.setdefault("known_defect_inputs_failed_passed", {}).setdefault(f, [0, 0])
            st[1 if passed else 0] += 1

    def next_mode(self):
        """rotate through the output modes: quick - every 4th call a non-default mode; thorough - every 2nd"""
        self.mode_i += 1
        step = 4 if self.ck.quick() else 2
        if self.mode_i % step:
            return "sql"
        return MODES[(self.mode_i // step) % len(MODES)]

    # ---- family A
    def columns_single(self, set_name, key, content, layout, shift, mode, ctor):
        ddl, exp = _columns_ddl([content], layout, shift)
        r = parse(ddl, ctor=ctor, output_mode=mode)
        prob, obs = _columns_observe(r)
        feats = features(content)
        self.stat(feats, prob is None and obs == exp)
        if prob is None and len(obs) == len(exp) and obs == exp:
            self.ck.ok(set_name, key, dict(ddl=ddl))
            return True
        if prob is None:
            prob = "column-lost" if len(obs) != len(exp) else next(_col_diff_class(g, e) for g, e in zip(obs, exp) if g != e)
        cls = _known_class(feats, obs, exp) if feats else "c07:" + prob
        self.ck.fail(set_name, key, cls, dict(ddl=ddl, ctor=ctor or {}, run=dict(output_mode=mode), literal=q(content), observed=obs, expected=exp))
        return False

    def columns_batch(self, set_name, contents, layout, shift, mode, ctor, keyf=lambda c: c):
        """contents: feature-free literals sharing one table; per-literal verdicts"""
        ddl, exp = _columns_ddl(contents, layout, shift)
        r = parse(ddl, ctor=ctor, output_mode=mode)
        prob, obs = _columns_observe(r)
        if prob is None and obs == exp:
            for c in contents:
                self.ck.ok(set_name, keyf(c), dict(ddl=ddl[:300]))
            return
        # something differs: decide literal by literal on single-literal tables
        all_ok = True
        for i, c in enumerate(contents):
            if prob is None and len(obs) == len(exp) and obs[i] == exp[i]:
                self.ck.ok(set_name, keyf(c))
                continue
            if not self.columns_single(set_name, keyf(c), c, layout, shift + i, mode, ctor):
                all_ok = False
        if all_ok:
            self.ck.fail(set_name, ("batch", keyf(contents[0]), len(contents)), "c07:altered-only-next-to-other-literals",
                         dict(ddl=ddl, ctor=ctor or {}, run=dict(output_mode=mode), observed=obs, expected=exp))

    def columns_family(self, set_name, contents, batch=10, layouts=(0, 1, 2), keyf=lambda c: c):
        clean = [c for c in contents if not features(c)]
        dirty = [c for c in contents if len(features(c)) == 1]
        bi = 0
        for i in range(0, len(clean), batch):
            bi += 1
            mode = self.next_mode()
            ctor = dict(normalize_names=True) if bi % 5 == 0 else (dict(silent=False) if bi % 5 == 1 else None)
            self.columns_batch(set_name, clean[i:i + batch], layouts[bi % len(layouts)], bi, mode, ctor, keyf)
        for i, c in enumerate(dirty):
            self.columns_single(set_name, keyf(c), c, layouts[i % len(layouts)], i, "sql", None)
        return len(clean), len(dirty)


# ---------------------------------------------------------------------------------------------- family B: literal positions (metamorphic oracle)
class Tpl:
    def __init__(self, name, text, group, modes=("sql",), slot_features=None):
        self.name, self.text, self.group, self.modes = name, text, group, modes
        self.n = len(set(re.findall(r"\{(\d)\}", text)))
        self.slot_features = slot_features or {}

    def build(self, lits, tname="t"):
        out = self.text.replace("{T}", tname)
        for i, l in enumerate(lits):
            out = out.replace("{%d}" % i, l)
        return out

    def feats(self, slot, content):
        f = features(content)
        extra = self.slot_features.get(slot, self.slot_features.get("*"))
        if extra:
            f = extra(content, f)
        return f


def _tblprop_value(content, f):
    # the value of a TBLPROPERTIES assignment is cut at its last '=' (with or without spaces around it)
    return f + ["equals-in-tblproperties-value"] if "=" in content else f


def _dq_in(what):
    def fn(content, f):
        return f + ["doubled-quote-in-" + what] if "''" in content else f
    return fn


_TWO_COLS = "CREATE TABLE {T} (\n    kind varchar(10),\n    b int\n);\n"
TEMPLATES = [
    Tpl("col-default", "CREATE TABLE {T} (\n    a varchar(64) DEFAULT {0},\n    b int\n);", "default"),
    Tpl("col-default-not-null", "CREATE TABLE {T} (\n    id int PRIMARY KEY,\n    a varchar(64) DEFAULT {0} NOT NULL,\n    b int\n);", "default"),
    Tpl("col-not-null-default-last", "CREATE TABLE {T} (\n    id int,\n    a varchar(64) NOT NULL DEFAULT {0}\n);", "default"),
    Tpl("col-default-last-single-line", "CREATE TABLE {T} (id int, a varchar(64) DEFAULT {0});", "default"),
    Tpl("col-comment-last-single-line", "CREATE TABLE {T} (id int, a varchar(64) COMMENT {0});", "comment"),
    Tpl("col-default-unique", "CREATE TABLE {T} (\n    a varchar(64) DEFAULT {0} UNIQUE,\n    b int\n);", "default"),
    Tpl("col-default-references", "CREATE TABLE {T} (\n    a varchar(64) DEFAULT {0} REFERENCES o (k),\n    b int DEFAULT {1} PRIMARY KEY\n);", "default"),
    Tpl("col-comment", "CREATE TABLE {T} (\n    a int COMMENT {0},\n    b int\n);", "comment"),
    Tpl("col-default-comment-single-line", "CREATE TABLE {T} (a varchar(64) DEFAULT {0} COMMENT {1}, b int);", "default"),
    Tpl("col-check-ne", "CREATE TABLE {T} (\n    kind varchar(10) CHECK (kind <> {0}),\n    b int\n);", "check"),
    Tpl("col-check-eq", "CREATE TABLE {T} (\n    kind varchar(10) NOT NULL CHECK (kind = {0}),\n    b int\n);", "check", ("sql",), {"*": _dq_in("check-equals-literal")}),
    Tpl("col-check-in", "CREATE TABLE {T} (\n    kind varchar(10) CHECK (kind IN ({0}, {1})),\n    b int\n);", "check"),
    Tpl("table-check-constraint", "CREATE TABLE {T} (\n    kind varchar(10),\n    b int,\n    CONSTRAINT ck CHECK (kind <> {0})\n);", "check"),
    Tpl("table-check", "CREATE TABLE {T} (\n    kind varchar(10),\n    b int,\n    CHECK (kind <> {0})\n);", "check"),
    Tpl("enum-3", "CREATE TYPE s.{T} AS ENUM ({0}, {1}, {2});", "enum"),
    Tpl("enum-1", "CREATE TYPE {T} AS ENUM ({0});", "enum"),
    Tpl("alter-add-column-default", _TWO_COLS + "ALTER TABLE {T} ADD c varchar(5) DEFAULT {0};", "default"),
    Tpl("alter-add-default-for", _TWO_COLS + "ALTER TABLE {T} ADD CONSTRAINT df DEFAULT {0} FOR kind;", "default"),
    Tpl("alter-add-check", _TWO_COLS + "ALTER TABLE {T} ADD CONSTRAINT ck CHECK (kind <> {0});", "check"),
    Tpl("table-comment-eq", "CREATE TABLE {T} (\n    a int\n) ENGINE=InnoDB COMMENT={0};", "option", ("sql", "mysql")),
    Tpl("table-comment", "CREATE TABLE {T} (\n    a int\n)\nCOMMENT {0};", "option", ("sql", "hql")),
    Tpl("location", "CREATE EXTERNAL TABLE {T} (\n    a int\n)\nSTORED AS PARQUET\nLOCATION {0};", "option", ("sql", "hql")),
    Tpl("tblproperties", "CREATE TABLE {T} (\n    a int\n)\nTBLPROPERTIES ({0}={1}, 'k2'='v2');", "option", ("sql", "hql"),
        {1: _tblprop_value}),
    Tpl("serde", "CREATE TABLE {T} (\n    a int\n)\nROW FORMAT SERDE {0};", "option", ("sql", "hql")),
    Tpl("terminated-by", "CREATE TABLE {T} (\n    a int\n)\nROW FORMAT DELIMITED\nFIELDS TERMINATED BY {0}\nLINES TERMINATED BY {1};", "option", ("sql", "hql")),
    Tpl("options", "CREATE TABLE {T} (\n    a int\n)\nOPTIONS (description={0}, k={1});", "option", ("sql", "bigquery"), {"*": _dq_in("options-value")}),
    Tpl("col-options", "CREATE TABLE {T} (\n    a int OPTIONS (description={0}),\n    b int\n);", "option", ("sql", "bigquery"), {"*": _dq_in("options-value")}),
    Tpl("collate", "CREATE TABLE {T} (\n    a varchar(3) COLLATE {0},\n    b int\n);", "option"),
    Tpl("schema-comment", "CREATE SCHEMA {T} COMMENT {0};", "option"),
    Tpl("database-comment", "CREATE DATABASE {T} COMMENT {0};", "option"),
    Tpl("tablespace-datafile", "CREATE TABLESPACE {T} DATAFILE {0} SIZE 10m;", "option"),
    Tpl("hql-comments", "CREATE TABLE {T} (\n    a int COMMENT {0}\n)\nCOMMENT {1}\nPARTITIONED BY (p string COMMENT {2})\nSTORED AS ORC;", "comment", ("sql", "hql")),
    Tpl("with-tag", "CREATE TABLE {T} (\n    a int\n) WITH TAG (x={0});", "option", ("sql", "snowflake")),
    # string-valued options of the smaller dialect grammars
    Tpl("escaped-by", "CREATE EXTERNAL TABLE {T} (\n    a string\n)\nROW FORMAT DELIMITED\n  FIELDS TERMINATED BY {0}\n  ESCAPED BY {1}\n  LINES TERMINATED BY {2};", "option", ("sql", "hql", "athena")),
    Tpl("snowflake-catalog", "CREATE ICEBERG TABLE {T} (\n    a int\n) CATALOG = {0};", "option", ("sql", "snowflake")),
    Tpl("snowflake-pattern", "CREATE EXTERNAL TABLE {T} (\n    a int\n)\n  LOCATION = @sch.stage/x/\n  AUTO_REFRESH = false\n  PATTERN = {0};", "option", ("sql", "snowflake")),
]


def _placeholder(i):
    return "'zq%d'" % i


def _subst(x, mapping):
    if isinstance(x, str):
        for a, b in mapping:
            x = x.replace(a, b)
        return x
    if isinstance(x, list):
        return [_subst(v, mapping) for v in x]
    if isinstance(x, tuple):
        return tuple(_subst(v, mapping) for v in x)
    if isinstance(x, dict):
        return {_subst(k, mapping): _subst(v, mapping) for k, v in x.items()}
    return x


def _shape(x):
    if isinstance(x, str):
        return ""
    if isinstance(x, (list, tuple)):
        return [_shape(v) for v in x]
    if isinstance(x, dict):
        return {k: _shape(v) for k, v in x.items()}
    return x


def _diff_class(r, exp, group):
    if r[0] != "ok":
        return "c07:exception:" + group
    if not isinstance(r[1], list) or len(r[1]) != len(exp):
        return "c07:statement-lost:" + group
    if jdump(_shape(r[1])) == jdump(_shape(exp)):
        return "c07:literal-altered:" + group
    return "c07:structure-changed:" + group


def _script_eval(run, set_name, key, build, nslots, contents, feats_of, group, mode, ctor, base_key=None, declared=True):
    """build(list of literal texts) -> script.  contents: {slot: content} (other slots keep their placeholder).
    -> True / False / None (None: the position is not reported in this mode, nothing evaluated)"""
    ck = run.ck
    ph = [_placeholder(i) for i in range(nslots)]
    ck_key = (base_key, mode, jdump(ctor)) if base_key is not None else None
    base = run.base_cache.get(ck_key) if ck_key else None
    if base is None:
        base_ddl = build(ph)
        base = (base_ddl, parse(base_ddl, ctor=ctor, output_mode=mode))
        if ck_key:
            run.base_cache[ck_key] = base
    base_ddl, b = base
    text = jdump(b[1]) if b[0] == "ok" else ""
    missing = [p for p in ph if p not in text]
    if b[0] != "ok" or missing:
        if not declared:
            return None
        if ck_key is None or ("reported", ck_key) not in run.base_cache:
            run.base_cache[("reported", ck_key)] = True
            ck.fail(set_name, ("placeholder", key), "c07:plain-literal-not-reported:" + group,
                    dict(ddl=base_ddl, ctor=ctor or {}, run=dict(output_mode=mode), observed=b, expected="a result that contains %s" % missing))
        return False
    lits = [q(contents[i]) if i in contents else ph[i] for i in range(nslots)]
    ddl = build(lits)
    exp = _subst(b[1], [(ph[i], q(contents[i])) for i in contents])
    r = parse(ddl, ctor=ctor, output_mode=mode)
    same = r[0] == "ok" and jdump(r[1]) == jdump(exp)
    if len(contents) == 1:
        for slot, content in contents.items():
            run.stat(feats_of(slot, content), same)
    if same:
        return True
    if len(contents) > 1:
        return (ddl, r, exp)  # caller decides slot by slot
    (slot, content), = contents.items()
    feats = feats_of(slot, content)
    cls = _known_class(feats, r[1] if r[0] == "ok" else r, exp) if feats else _diff_class(r, exp, group)
    ck.fail(set_name, key, cls, dict(ddl=ddl, ctor=ctor or {}, run=dict(output_mode=mode), literal=q(content), slot=slot, observed=r[1] if r[0] == "ok" else r, expected=exp))
    return False


def _template_case(run, set_name, tpl, contents, mode, ctor=None):
    """contents: list of literal contents, one per slot (feature-free ones are evaluated together, others alone)"""
    ck = run.ck
    declared = mode in tpl.modes
    build = lambda lits: tpl.build(lits)  # noqa
    clean = {i: c for i, c in enumerate(contents) if not tpl.feats(i, c)}
    dirty = {i: c for i, c in enumerate(contents) if len(tpl.feats(i, c)) == 1}
    key = lambda i: (tpl.name, mode, i, contents[i])  # noqa
    for i, c in dirty.items():
        v = _script_eval(run, set_name, key(i), build, tpl.n, {i: c}, tpl.feats, tpl.group, mode, ctor, tpl.name, declared)
        if v is True:
            ck.ok(set_name, key(i))
    if not clean:
        return
    v = _script_eval(run, set_name, key(min(clean)), build, tpl.n, clean, tpl.feats, tpl.group, mode, ctor, tpl.name, declared)
    if v is None or v is False:
        return
    if v is True:
        for i in clean:
            ck.ok(set_name, key(i), dict(ddl=tpl.build([q(c) for c in contents])[:300], mode=mode))
        return
    ddl, r, exp = v
    all_ok = True
    for i, c in clean.items():
        v1 = _script_eval(run, set_name, key(i), build, tpl.n, {i: c}, tpl.feats, tpl.group, mode, ctor, tpl.name, declared)
        if v1 is True:
            ck.ok(set_name, key(i))
        else:
            all_ok = False
    if all_ok:
        ck.fail(set_name, ("together", tpl.name, mode, tuple(contents)), "c07:altered-only-next-to-other-literals",
                dict(ddl=ddl, ctor=ctor or {}, run=dict(output_mode=mode), observed=r[1] if r[0] == "ok" else r, expected=exp))


# curated contents: every separator / marker the statement names in a form that carries no known-defect feature, plus
# one representative per known-defect feature
CURATED_CLEAN = ["", " ", "abc", "Ab Cd", "a,b", "x,", ",", "a ,b", "a)", ")", "a)b", "=", " = ", "=x", ";", "a;b", "x; y", "a;", "--", "a -- b", "-- x", "#", "#x",
                 "a # b", "NOT NULL", "select", "DEFAULT", "PRIMARY KEY", "CREATE TABLE x", "drop table t;", "a\"b", "\"x\"", "100%", "a.b", "a:b", "x-y", "1,2", "42",
                 "007", "NULL", "null", "a  b", " lead", "trail ", "MiXeD CaSe", "[x]", "{x}", "`x`", "a<b", "a>b", "<>", "a|b", "a&b", "x?", "!", "@", "$1", "^", "~", "*", "/", "-",
                 "a--b;c", "it''s a ''b''", "use \"--\" here", "5\" -- inch", ");", ";)", "x;--", "CHECK", "COMMENT", "comment", "REFERENCES t", "GO", "USE db", "SET x", "*/--", "ALTER TABLE t"]
CURATED_DEFECT = ["a, b", ", x", "(x)", "f(", "a) b", ") ", "a=b", "x=", "é", "naïve", "Жук", "日本", "a\\b", "\\", "/* x */", "a/*b", "a*/b", "*/", ",, ", "a,,b c", "see input.regex", "a\\nb", "\\x41", "a\\tb",
                  "it''s", "a = b"]


# ---------------------------------------------------------------------------------------------- family C: random scripts
def _random_script(run, idx):
    """2-4 statements (templates and generated tables) with feature-free random literals in every slot; metamorphic oracle"""
    rnd = run.rnd
    parts, nslots, nodq = [], 0, set()
    for si in range(rnd.randint(2, 4)):
        tname = "t%d" % si
        if rnd.random() < 0.4:
            ncols = rnd.randint(1, 6)
            layout = rnd.randrange(3)
            first = nslots
            nslots += ncols

            def part(lits, first=first, ncols=ncols, layout=layout, tname=tname, shift=rnd.randrange(4)):
                texts = []
                for i in range(ncols):
                    form, _ = COL_FORMS[(i + shift) % len(COL_FORMS)]
                    texts.append("c%d %s" % (i, form.replace("{L}", lits[first + i])))
                texts.append("last_col int")
                if layout == 0:
                    return "CREATE TABLE %s (\n    %s\n);" % (tname, ",\n    ".join(texts))
                if layout == 1:
                    return "CREATE TABLE %s (%s);" % (tname, ", ".join(texts))
                return "CREATE TABLE %s (\n    %s\n);" % (tname, "\n  , ".join(texts))
        else:
            tpl = rnd.choice([t for t in TEMPLATES if t.name != "tblproperties"])
            first = nslots
            nslots += tpl.n

            if "*" in tpl.slot_features:
                nodq.update(range(first, first + tpl.n))

            def part(lits, first=first, tpl=tpl, tname=tname):
                return tpl.build(lits[first:first + tpl.n], tname)
        parts.append(part)
    sep = rnd.choice(["\n", "\n\n", "\n-- next statement\n"])
    build = lambda lits: sep.join(p(lits) for p in parts)  # noqa
    contents = {i: _random_content(rnd, 1, 10, clean=True) for i in range(nslots)}
    for i in nodq:
        contents[i] = contents[i].replace("'", "q")
        if features(contents[i]):
            contents[i] = "q %d" % i
    ctor = rnd.choice([None, None, dict(normalize_names=True), dict(silent=False)])
    v = _script_eval(run, "random-scripts", idx, build, nslots, contents, lambda s, c: features(c), "script", "sql", ctor) if nslots > 1 else True
    ck = run.ck
    if v is True:
        for i in range(nslots):
            ck.ok("random-scripts", (idx, i), dict(ddl=build([q(contents[i]) for i in range(nslots)])[:400]) if i == 0 else None)
    elif isinstance(v, tuple):
        ddl, r, exp = v
        ck.fail("random-scripts", idx, _diff_class(r, exp, "script"), dict(ddl=ddl, ctor=ctor or {}, observed=r[1] if r[0] == "ok" else r, expected=exp))


# ---------------------------------------------------------------------------------------------- family D: numeric defaults
NUMERIC = ["0", "1", "7", "42", "007", "100", "999", "1000", "1234", "9999", "10000", "12345", "65536", "100500", "2147483647", "2147483648", "0000",
           "9223372036854775807", "18446744073709551616", "123456789012345678901234567890"]
NUM_FORMS = ["int DEFAULT {N}", "bigint DEFAULT {N} NOT NULL", "int NOT NULL DEFAULT {N}", "decimal(10,2) DEFAULT {N} COMMENT 'n {N}'", "varchar(5) DEFAULT {N}",
             "int PRIMARY KEY DEFAULT {N}", "int DEFAULT {N} UNIQUE"]
NUM_FORMS_ALTER = ["int DEFAULT {N}", "decimal(10,2) DEFAULT {N} COMMENT 'n {N}'", "varchar(5) DEFAULT {N}", "int PRIMARY KEY DEFAULT {N}", "int DEFAULT {N} UNIQUE"]


def _numeric_case(run, key, values, layout, mode, where):
    """values: digit strings, one column each.  where: 'create' or 'alter' (ALTER TABLE ... ADD <column>)"""
    ck = run.ck
    forms = NUM_FORMS_ALTER if where == "alter" else NUM_FORMS
    texts = ["n%d %s" % (i, forms[(i + key) % len(forms)].replace("{N}", v)) for i, v in enumerate(values)]
    if where == "alter":
        ddl = "CREATE TABLE t (\n    id int\n);\n" + "\n".join("ALTER TABLE t ADD %s;" % t for t in texts)
        names = ["id"] + ["n%d" % i for i in range(len(values))]
        offset = 1
    else:
        if layout == 0:
            ddl = "CREATE TABLE t (\n    %s\n);" % ",\n    ".join(texts)
        elif layout == 1:
            ddl = "CREATE TABLE t (%s);" % ", ".join(texts)
        else:
            ddl = "CREATE TABLE t (\n    %s\n);" % "\n  , ".join(texts)
        names = ["n%d" % i for i in range(len(values))]
        offset = 0
    r = parse(ddl, output_mode=mode)
    cols = None
    if r[0] == "ok" and isinstance(r[1], list):
        tabs = [e for e in entities(r[1])[0] if isinstance(e, dict) and e.get("table_name") == "t"]
        if len(tabs) == 1:
            cols = tabs[0].get("columns") or []
    for i, v in enumerate(values):
        k = (where, mode, layout, forms[(i + key) % len(forms)], v)
        info = dict(ddl=ddl, run=dict(output_mode=mode), literal=v, expected=int(v))
        if r[0] != "ok":
            ck.fail("numeric-defaults", k, "c07:exception:numeric-default", dict(info, observed=r))
        elif cols is None or [c.get("name") for c in cols] != names:
            ck.fail("numeric-defaults", k, "c07:statement-or-column-lost:numeric-default", dict(info, observed=r[1]))
        else:
            obs = cols[offset + i].get("default")
            if type(obs) is int and obs == int(v):
                ck.ok("numeric-defaults", k, dict(ddl=ddl[:300]))
            elif isinstance(obs, str) and obs == v:
                ck.fail("numeric-defaults", k, "c07:numeric-default-left-as-text", dict(info, observed=obs))
            else:
                ck.fail("numeric-defaults", k, "c07:numeric-default-wrong-value", dict(info, observed=obs))


# ---------------------------------------------------------------------------------------------- the check
def check(ck):
    run = _Run(ck)
    rnd = ck.rnd
    quick = ck.quick()
    counts = {}

    # A1: every literal over ALPHA up to length 2 (quick) / 3 (thorough), as DEFAULT and COMMENT of a column
    max_len = 2 if quick else 3
    contents = [c for c in _seqs(ALPHA, max_len) if _one_feature_at_most(c)]
    counts["alphabet-exhaustive"] = run.columns_family("alphabet-exhaustive", contents, batch=12)
    # A2: token sequences (comment markers, separators with spaces, keyword-shaped words, doubled quotes, double quotes)
    contents = list(_seqs(TOKENS, 2 if quick else 3))
    contents = sorted(set(c for c in contents if _one_feature_at_most(c)), key=lambda c: (len(c), c))
    counts["token-sequences"] = run.columns_family("token-sequences", contents, batch=8)
    # A3: keyword-shaped literals
    kws = _keywords() + KEYWORD_EXTRA
    contents = []
    for k in kws:
        contents += [k, k.lower() + " x", "x " + k.title()]
    contents = sorted(set(c for c in contents if not features(c)))
    counts["keyword-literals"] = run.columns_family("keyword-literals", contents, batch=10)
    # A4: longer random literals
    contents = sorted(set(_random_content(rnd, 3, 14, clean=(i % 3 != 0)) for i in range(600 if quick else 15000)))
    counts["random-literals"] = run.columns_family("random-literals", contents, batch=6)

    # B: every literal position x curated contents (+ random ones), in the declared modes (thorough: all 15 modes)
    pool = CURATED_CLEAN + CURATED_DEFECT
    for ti, tpl in enumerate(TEMPLATES):
        lits = list(pool) + [_random_content(rnd, 2, 9, clean=False) for _ in range(10 if quick else 120)]
        if quick:
            lits = [c for i, c in enumerate(lits) if (i + ti) % 3 == 0 or c in CURATED_DEFECT]
        modes = list(tpl.modes) if quick else list(tpl.modes) + [m for m in MODES if m not in tpl.modes]
        for mode in modes:
            use = lits if mode in tpl.modes else lits[::6]
            for i in range(0, len(use), tpl.n):
                chunk = use[i:i + tpl.n]
                if len(chunk) < tpl.n:
                    chunk = chunk + ["pad %d" % j for j in range(tpl.n - len(chunk))]
                if tpl.name == "tblproperties" and chunk[0] == chunk[1]:
                    continue
                _template_case(run, "literal-positions", tpl, chunk, mode)
    # marker words of the pre-processor itself, in COMMENT position (check_spec turns them back into characters)
    tpl = next(t for t in TEMPLATES if t.name == "col-comment")
    for c in ["pars_m_single", "x pars_m_single y", "pars_m_t", "pars_m_dq", "pars_m_n"]:
        key = ("marker-word", c)
        v = _script_eval(run, "literal-positions", key, tpl.build, 1, {0: c}, lambda s, x: ["internal-marker-word-in-comment"], "comment", "sql", None, tpl.name)
        if v is True:
            ck.ok("literal-positions", key)

    # C: random multi-statement scripts
    n_scripts = 150 if quick else 4000
    for i in range(n_scripts):
        _random_script(run, i)

    # D: numeric defaults
    k = 0
    for mode in (["sql", "mysql", "hql"] if quick else MODES):
        for where in ("create", "alter"):
            for layout in ((0, 1, 2) if where == "create" else (0,)):
                vals = list(NUMERIC) + [str(rnd.randrange(10 ** rnd.randint(1, 40))) for _ in range(4 if quick else 20)]
                for i in range(0, len(vals), 7):
                    k += 1
                    _numeric_case(run, k, vals[i:i + 7], layout, mode, where)

    ck.notes["literals_per_family_clean_defect"] = counts
    rule = ("tables / types / schemas / ALTERs generated from an abstract description with single-quoted literals in DEFAULT, column and table COMMENT, CHECK (<>, =, IN, "
            "table-level, ALTER), ENUM, ALTER ADD DEFAULT, COLLATE, LOCATION, TBLPROPERTIES, SERDE, TERMINATED BY, OPTIONS, DATAFILE, WITH TAG positions, 3 layouts, "
            "ctor variants (normalize_names, silent=False), output modes; contract: every literal is reported with exactly the characters written incl. quotes (direct oracle "
            "for columns; for the other positions result == result of the same script with neutral placeholder literals, placeholders replaced) and nothing else in the result "
            "changes; digits-only DEFAULT -> int of the same value; distinct = distinct (family, literal[, position, mode])")
    bound = ("literals over a %d-symbol alphabet exhaustively up to length %d; sequences of %d tokens (-- /* */ # ; separators with blanks, keyword words, doubled quote, double quote) "
             "up to length %d; %d keyword-shaped literals; %d sampled literals of 3-14 symbols/tokens; %d positions x (%d curated + sampled) literals x declared modes%s; "
             "%d random 2-4 statement scripts; %d+ digit strings up to 40 digits x 7 column forms x 3 layouts x CREATE/ALTER x %s modes; literals with two known-defect "
             "features, tab / line break inside a literal, literals at the start of a line are not generated"
             % (len(ALPHA), max_len, len(TOKENS), 2 if quick else 3, len(kws) * 3, 600 if quick else 15000, len(TEMPLATES), len(pool),
                "" if quick else " (+ the other modes on every sixth literal)", n_scripts, len(NUMERIC), "3" if quick else "15"))
    return rule, bound
