"""usage (under /venv/bin/python, scratch copy of the repository first on PYTHONPATH):
   python -m bounded.run <PID> <tier> <out.json>"""
import os
import sys

from bounded.common import Checker, lib


def main():
    pid, tier, out = sys.argv[1], sys.argv[2], sys.argv[3]
    lib()
    from bounded.checks import CHECKS
    ck = Checker(pid, tier, int(os.environ.get("VERIF_SEED", "0") or 0))
    fn = CHECKS.get(pid)
    if fn is None:
        # per-property module bounded/cNN.py exposing check(ck) -> (rule, bound)
        import importlib
        fn = importlib.import_module("bounded." + pid.lower()).check
    rule, bound = fn(ck)
    res = ck.finish(out, rule, bound)
    print("%s bounded: evaluations=%d distinct=%d failures=%s %.1fs" % (pid, res["evaluations"], res["distinct_nontrivial"], {f["class"]: f["count"] for f in res["failures"]}, res["seconds"]))
    return 1 if res["failures"] else 0


if __name__ == "__main__":
    sys.exit(main())
