"""C10 bounded stand-in: output_mode only filters presentation; common content is equal in every mode.

Contract checked on DDLParser(ddl, normalize_names=nn).run(output_mode=m, group_by_type=g) against the same call in the
default mode (the relation the statement itself gives), for scripts generated from an abstract description (so the list
of entities / table names / column names of the default-mode result is also computed by the generator) and for the
repository's regression corpus:

  * a mode never turns a successful default-mode parse into an exception;
  * same entities in the same order (kind, schema, name; grouped results: same buckets);
  * per table: the schema is under `schema` (`dataset` in bigquery mode, and only there) and the common fields
    table_name / schema / columns (eight common attributes) / primary_key / checks / index (modulo `clustered`) /
    alter (columns inside restricted to the eight attributes) / partitioned_by / constraints equal the default mode
    (bigquery's schema->dataset rename inside references is presentation);
  * non-table entities equal the default mode modulo the bigquery rename;
  * a dialect-specific table field (DOC below = the `output_modes` field metadata of output/dialects.py, written down
    here as the documented contract and cross-checked against the metadata) is absent from the top level in every
    mode it is not documented for; the ones documented without an exclude_if_* condition are present in their modes;
  * a top-level key that shows up in several modes carries the same value in all of them.
"""
import re

from bounded.common import MODES, corpus, jdump, parse

COL_COMMON = ("name", "type", "size", "references", "unique", "nullable", "default", "check")
TABLE_COMMON = ("table_name", "schema", "columns", "primary_key", "checks", "index", "alter", "partitioned_by", "constraints")
ENTITY_MARKS = ("table_name", "sequence_name", "type_name", "domain_name", "schema_name", "tablespace_name", "database_name")

# ---- documented modes of every dialect-specific table field (field metadata `output_modes`, output/dialects.py)
_HIVE3 = ("hql", "databricks", "athena")
DOC = {
    "sortkey": ("redshift",), "diststyle": ("redshift",), "distkey": ("redshift",), "encode": ("redshift",),
    "engine": ("mysql",), "default_charset": ("mysql",), "auto_increment": ("mysql",),
    "dataset": ("bigquery",), "project": ("bigquery",),
    "with": ("mssql",), "clustered_primary_key": ("mssql",), "on": ("mssql",), "textimage_on": ("mssql",), "period_for_system_time": ("mssql",),
    "property_key": ("databricks",),
    "organize_by": ("ibm_db2",), "index_in": ("ibm_db2",),
    "inherits": ("postgres",),
    "is_global": ("oracle",), "organization_index": ("oracle",), "storage": ("oracle",),
    "skewed_by": ("hql",), "into_buckets": ("hql",), "clustered_on": ("hql",),
    "primary_key_enforced": ("snowflake",), "clone": ("snowflake",), "with_tag": ("snowflake",),
    "escaped_by": ("athena",),
    "temp": ("hql", "redshift", "oracle", "athena"),
    "tblproperties": ("spark_sql", "hql", "redshift", "athena"),
    "stored_as": ("spark_sql", "hql", "databricks", "redshift", "athena"),
    "row_format": ("spark_sql", "hql", "databricks", "redshift", "athena"),
    "location": ("hql", "spark_sql", "snowflake", "databricks"),
    "fields_terminated_by": _HIVE3, "lines_terminated_by": _HIVE3, "map_keys_terminated_by": _HIVE3, "collection_items_terminated_by": _HIVE3,
    "clustered_by": ("hql", "spark_sql"),
    "options": ("bigquery", "spark_sql"),
    "transient": _HIVE3,
    "external": ("hql", "snowflake", "athena"),
    "cluster_by": ("bigquery", "snowflake"),
}
# documented without any exclude_if_* condition: shown for every table in their modes
UNCONDITIONAL = ("sortkey", "diststyle", "distkey", "encode", "dataset", "property_key", "is_global", "primary_key_enforced", "clone", "temp",
                 "stored_as", "row_format", "fields_terminated_by", "lines_terminated_by", "map_keys_terminated_by",
                 "collection_items_terminated_by", "external")
# python attribute name -> output key (field metadata `alias`)
ALIASES = {"_with": "with"}


def _ren(x):
    """bigquery presentation: dataset -> schema (for comparison only)"""
    if isinstance(x, dict):
        return {("schema" if k == "dataset" else k): _ren(v) for k, v in x.items()}
    if isinstance(x, list):
        return [_ren(v) for v in x]
    return x


def _is_col(d):
    return isinstance(d, dict) and "name" in d and "type" in d and "nullable" in d


def _col(c):
    return {k: c[k] for k in COL_COMMON if k in c} if isinstance(c, dict) else c


def _cols_deep(x):
    if _is_col(x):
        return _col(x)
    if isinstance(x, dict):
        return {k: _cols_deep(v) for k, v in x.items()}
    if isinstance(x, list):
        return [_cols_deep(v) for v in x]
    return x


def common_view(t, mode):
    """the common content of one table entity, bigquery rename undone"""
    if mode == "bigquery":
        t = dict(t)
        top_schema = t.pop("dataset", None)
        t.pop("schema", None)  # its presence is reported separately (schema-key rule)
        t = _ren(t)
        t["schema"] = top_schema
    v = {k: t[k] for k in TABLE_COMMON if k in t}
    if isinstance(v.get("columns"), list):
        v["columns"] = [_col(c) for c in v["columns"]]
    if isinstance(v.get("index"), list):
        v["index"] = [{k: x for k, x in i.items() if k != "clustered"} if isinstance(i, dict) else i for i in v["index"]]
    if "alter" in v:
        v["alter"] = _cols_deep(v["alter"])
    return v


def _flatten(res, gbt):
    """-> (entities in order, bucket keys) ; comments are not entities"""
    if gbt:
        if not isinstance(res, dict):
            return None, None
        ents = []
        for k, v in res.items():
            if k == "comments":
                continue
            if not isinstance(v, list):
                return None, None
            ents.extend(v)
        return ents, [k for k in res if k != "comments"]
    if not isinstance(res, list):
        return None, None
    return [e for e in res if not (isinstance(e, dict) and set(e.keys()) == {"comments"})], None


def _ident(e, mode):
    if not isinstance(e, dict):
        return ("?", None, repr(e)[:40])
    sch = e.get("dataset", e.get("schema")) if mode == "bigquery" else e.get("schema")
    for m in ENTITY_MARKS:
        if m in e:
            return (m, sch, e[m])
    return ("other", sch, jdump(e)[:80])


def _strip(n):
    if n and len(n) > 1 and n[0] in "\"`[" and n[-1] in "\"`]":
        return n[1:-1]
    return n


# input class of the one defect this property had on the original tree (BigQuery.prepare_ref_statement works in place on the reference
# dict shared by all columns of one ALTER .. FOREIGN KEY): decided from the input text, reported under its own class in bigquery mode
_MULTI_COL_ALTER_FK = re.compile(r"ALTER\s+TABLE[^;]*?FOREIGN\s+KEY\s*\([^)]*,[^)]*\)", re.I)
_TABLE_OR_ALTER = re.compile(r"\s*(CREATE\s+(\w+\s+)*TABLE|ALTER\s+TABLE)\b", re.I)  # script of tables and their ALTERs only


# ---------------------------------------------------------------- the run-level contract
def run_case(ck, set_name, key, ddl, modes, combos, expect=None, tags=()):
    """one script under every (normalize_names, group_by_type) in combos and every mode in modes.
    expect: generator-computed [(marker, schema, name, [column names] | None)] of the default-mode result."""
    for nn, gbt in combos:
        ctor = dict(normalize_names=True) if nn else None
        kw = dict(group_by_type=True) if gbt else {}
        base = parse(ddl, ctor=ctor, **kw)
        info0 = dict(ddl=ddl, ctor=ctor or {}, tags=list(tags))
        bkey = (key, "default", nn, gbt)
        if base[0] != "ok":
            if expect is not None:
                ck.fail(set_name, bkey, "c10:generated-script-raises-in-default-mode", dict(info0, run=kw, observed=base, expected="a result"))
            else:
                ck.notes["corpus_scripts_raising_in_default_mode"] = ck.notes.get("corpus_scripts_raising_in_default_mode", 0) + 1
            continue
        bents, bbuckets = _flatten(base[1], gbt)
        if bents is None:
            ck.fail(set_name, bkey, "c10:default-mode-result-malformed", dict(info0, run=kw, observed=base[1]))
            continue
        if expect is not None:
            exp = [(m, _strip(s) if nn else s, _strip(n) if nn else n) for m, s, n, _ in expect]
            got = [_ident(e, "sql") for e in bents]
            if gbt:  # grouped output is ordered by bucket; compare as per-kind sequences
                exp, got = sorted(exp, key=lambda x: x[0]), sorted(got, key=lambda x: x[0])
                # (stable sort keeps the in-kind order)
            if got != exp:
                ck.fail(set_name, bkey, "c10:default-mode-differs-from-generated-entities", dict(info0, run=kw, observed=got, expected=exp))
                continue
            bad = None
            by_id = {}
            for e in bents:
                by_id.setdefault(_ident(e, "sql"), e)
            for m, s, n, cols in expect:
                if cols is None:
                    continue
                e = by_id.get((m, _strip(s) if nn else s, _strip(n) if nn else n))
                gc = [c.get("name") for c in e.get("columns", [])]
                ec = [_strip(c) if nn else c for c in cols]
                if gc != ec:
                    bad = dict(table=n, observed=gc, expected=ec)
                    break
            if bad:
                ck.fail(set_name, bkey, "c10:default-mode-differs-from-generated-columns", dict(info0, run=kw, **bad))
                continue
        seen_vals = {}
        for mode in modes:
            run = dict(kw, output_mode=mode)
            info = dict(info0, run=run)
            ekey = (key, mode, nn, gbt)
            r = parse(ddl, ctor=ctor, **run)
            bq_multi_fk = mode == "bigquery" and _MULTI_COL_ALTER_FK.search(ddl) is not None and all(
                _TABLE_OR_ALTER.match(st) for st in ddl.split(";") if st.strip())
            if r[0] != "ok":
                cls = "c10:bigquery-multi-column-alter-foreign-key" if bq_multi_fk and r[1] == "KeyError" else "c10:mode-raises:" + r[1]
                ck.fail(set_name, ekey, cls, dict(info, observed=r, expected="same entities as the default mode"))
                continue
            ents, buckets = _flatten(r[1], gbt)
            if ents is None or buckets != bbuckets:
                ck.fail(set_name, ekey, "c10:grouped-buckets-differ", dict(info, observed=buckets, expected=bbuckets))
                continue
            if len(ents) != len(bents):
                ck.fail(set_name, ekey, "c10:entity-count", dict(info, observed=[_ident(e, mode) for e in ents], expected=[_ident(e, "sql") for e in bents]))
                continue
            ids, bids = [_ident(e, mode) for e in ents], [_ident(e, "sql") for e in bents]
            if ids != bids:
                ck.fail(set_name, ekey, "c10:entity-identity-or-order", dict(info, observed=ids, expected=bids))
                continue
            problem = None
            for i, (e, b) in enumerate(zip(ents, bents)):
                problem = _entity_problem(e, b, mode, i, seen_vals)
                if problem:
                    break
            if problem:
                cls, det = problem
                if bq_multi_fk and cls == "c10:common-field-differs:alter":
                    cls = "c10:bigquery-multi-column-alter-foreign-key"
                ck.fail(set_name, ekey, cls, dict(info, **det))
            else:
                ck.ok(set_name, ekey, dict(ddl=ddl[:200], mode=mode, normalize_names=nn, group_by_type=gbt))


def _entity_problem(e, b, mode, i, seen_vals):
    if "table_name" not in b:
        o = _ren(e) if mode == "bigquery" else e
        if jdump(o) != jdump(b):
            return "c10:non-table-entity-differs", dict(observed=e, expected=b)
        return None
    # schema key presentation
    if mode == "bigquery":
        if "schema" in e or "dataset" not in e:
            return "c10:schema-key-presentation", dict(observed=sorted(e), expected="top-level key `dataset`, no `schema`, in bigquery mode")
    elif "schema" not in e:
        return "c10:schema-key-presentation", dict(observed=sorted(e), expected="top-level key `schema`")
    ev, bv = common_view(e, mode), common_view(b, "sql")
    for f in TABLE_COMMON:
        if (f in ev) != (f in bv) or jdump(ev.get(f)) != jdump(bv.get(f)):
            return "c10:common-field-differs:" + f, dict(table=b.get("table_name"), field=f, observed=ev.get(f, "<absent>"), expected=bv.get(f, "<absent>"))
    # dialect-specific fields
    for f, doc_modes in DOC.items():
        if f in e and mode not in doc_modes:
            return "c10:dialect-field-in-undocumented-mode", dict(table=b.get("table_name"), field=f, observed={f: e[f]}, expected="absent; documented only for %s" % (list(doc_modes),))
    for f in UNCONDITIONAL:
        if mode in DOC[f] and f not in e:
            return "c10:documented-field-missing", dict(table=b.get("table_name"), field=f, observed=sorted(e), expected="key `%s` present in %s mode" % (f, mode))
    # remaining keys: same value wherever they show up
    for k, v in e.items():
        if k in TABLE_COMMON or k in ("table_properties", "dataset"):
            continue
        if k in b and k not in DOC and jdump(_ren(v) if mode == "bigquery" else v) != jdump(b[k]):
            return "c10:base-field-differs", dict(table=b.get("table_name"), field=k, observed=v, expected=b[k])
        if k in DOC:
            first = seen_vals.setdefault((i, k), (mode, v))
            if jdump(first[1]) != jdump(v):
                return "c10:dialect-field-value-differs-between-modes", dict(table=b.get("table_name"), field=k, observed={mode: v}, expected={first[0]: first[1]})
    return None


def _check_metadata(ck):
    """DOC / UNCONDITIONAL above are the documented contract; the field metadata must say the same"""
    from simple_ddl_parser.output import dialects as D
    from simple_ddl_parser.output.base_data import BaseData
    base_fields = set(BaseData.__dataclass_fields__)
    meta, cond = {}, {}
    classes = [c for c in D.dialect_by_name.values() if c is not None] + [D.CommonDialectsFieldsMixin]
    for c in classes:
        for name, f in c.__dataclass_fields__.items():
            om = f.metadata.get("output_modes")
            if isinstance(om, list) and name not in base_fields:
                out = f.metadata.get("alias", ALIASES.get(name, name))
                meta.setdefault(out, set()).update(om)
                if any(f.metadata.get(x) for x in ("exclude_if_not_provided", "exclude_if_empty", "exclude_always")):
                    cond[out] = True
                else:
                    cond.setdefault(out, False)
    for f in sorted(set(meta) | set(DOC)):
        if set(DOC.get(f, ())) != meta.get(f, set()):
            ck.fail("field-metadata", f, "c10:documented-modes-of-field-changed", dict(ddl="", field=f, observed=sorted(meta.get(f, ())), expected=sorted(DOC.get(f, ()))))
        elif (f in UNCONDITIONAL) != (not cond.get(f, True)):
            ck.fail("field-metadata", f, "c10:exclude-condition-of-field-changed", dict(ddl="", field=f, observed="conditional" if cond.get(f) else "unconditional", expected="unconditional" if f in UNCONDITIONAL else "conditional"))
        else:
            ck.ok("field-metadata", f)
    want = set(MODES)
    got = set(D.dialect_by_name)
    (ck.ok if want == got else ck.fail)(*(("field-metadata", "mode-list") + (() if want == got else ("c10:mode-list-changed", dict(ddl="", observed=sorted(got), expected=sorted(want))))))


# ---------------------------------------------------------------- generators
# (text after the closing parenthesis, tag) -- every one parses in the default mode on its own
CLAUSES = [
    ("STORED AS PARQUET", "stored_as"),
    ("LOCATION 's3://b/l'", "location"),
    ("TBLPROPERTIES ('a'='b', 'c'='d')", "tblproperties"),
    ("CLUSTER BY (a)", "cluster_by"),
    ("CLUSTERED BY (a) INTO 4 BUCKETS", "clustered_by"),
    ("OPTIONS(description=\"x\", k=true)", "options"),
    ("PARTITIONED BY (dt string)", "partitioned_by"),
    ("PARTITIONED BY (dt string, hr int)", "partitioned_by2"),
    ("PARTITION BY RANGE (a)", "partition_by"),
    ("ROW FORMAT DELIMITED FIELDS TERMINATED BY ','", "fields_terminated_by"),
    ("ROW FORMAT DELIMITED FIELDS TERMINATED BY '\\t' LINES TERMINATED BY '\\n'", "lines_terminated_by"),
    ("ROW FORMAT DELIMITED COLLECTION ITEMS TERMINATED BY '|' MAP KEYS TERMINATED BY ':'", "map_keys_terminated_by"),
    ("ROW FORMAT SERDE 'org.x.Y'", "row_format_serde"),
    ("ESCAPED BY '\\\\'", "escaped_by"),
    ("SKEWED BY (a) ON (1, 5)", "skewed_by"),
    ("ENGINE=InnoDB", "engine"),
    ("ENGINE=InnoDB DEFAULT CHARSET=utf8 AUTO_INCREMENT=5", "mysql3"),
    ("ON [PRIMARY]", "on"),
    ("ON [PRIMARY] TEXTIMAGE_ON [PRIMARY]", "textimage_on"),
    ("WITH (DATA_COMPRESSION = PAGE)", "with"),
    ("ORGANIZE BY ROW", "organize_by"),
    ("INDEX IN ts2", "index_in"),
    ("INHERITS (parent)", "inherits"),
    ("ORGANIZATION INDEX", "organization_index"),
    ("STORAGE (INITIAL 1M NEXT 2M)", "storage"),
    ("DISTSTYLE ALL", "diststyle"),
    ("SORTKEY (b)", "sortkey"),
    ("DISTKEY (a)", "distkey"),
    ("COMPOUND SORTKEY (a, b)", "compound_sortkey"),
    ("ENCODE AUTO", "encode"),
    ("WITH TAG (x='y')", "with_tag"),
    ("TABLESPACE ts1", "tablespace"),
    ("COMMENT 'tc'", "comment"),
    ("USING parquet", "using"),
    ("DATA_RETENTION_TIME_IN_DAYS = 1", "snowflake_prop"),
]
# clause families whose members combine (in this order) into one statement
FAMILIES = {
    "hive": ["COMMENT 'tc'", "PARTITIONED BY (dt string)", "CLUSTERED BY (a) INTO 4 BUCKETS", "SKEWED BY (a) ON (1, 5)",
             "ROW FORMAT DELIMITED FIELDS TERMINATED BY ','", "STORED AS PARQUET", "LOCATION 's3://b/l'", "TBLPROPERTIES ('a'='b', 'c'='d')"],
    "mysql": ["ENGINE=InnoDB", "DEFAULT CHARSET=utf8", "AUTO_INCREMENT=5", "COMMENT='tc'"],
    "mssql": ["WITH (DATA_COMPRESSION = PAGE)", "ON [PRIMARY]", "TEXTIMAGE_ON [PRIMARY]"],
    "redshift": ["DISTSTYLE ALL", "SORTKEY (b)"],
    "cloud": ["PARTITION BY RANGE (a)", "CLUSTER BY (a)", "OPTIONS(description=\"x\", k=true)"],
    "oracle": ["ORGANIZATION INDEX", "TABLESPACE ts1", "STORAGE (INITIAL 1M NEXT 2M)"],
    "db2": ["ORGANIZE BY ROW", "INDEX IN ts2"],
    "pg": ["INHERITS (parent)", "TABLESPACE ts1"],
    "snow": ["CLUSTER BY (a)", "WITH TAG (x='y')", "COMMENT = 'tc'"],
}
PREFIXES = ["CREATE TABLE", "CREATE TABLE IF NOT EXISTS", "CREATE OR REPLACE TABLE", "CREATE TEMPORARY TABLE", "CREATE TEMP TABLE",
            "CREATE EXTERNAL TABLE", "CREATE TRANSIENT TABLE", "CREATE OR REPLACE TRANSIENT TABLE", "CREATE GLOBAL TEMPORARY TABLE",
            "CREATE EXTERNAL TABLE IF NOT EXISTS"]
# (schema text | None, project | None): how the table is qualified
QUALS = [(None, None), ("s1", None), ("s1", "p1"), ('"s1"', None), ("[s1]", None), ("`s1`", None), ("Sales_DW", None), ("DEV", "Proj1")]
COL_OPTS = ["NOT NULL", "NULL", "DEFAULT 5", "DEFAULT 'x'", "PRIMARY KEY", "UNIQUE", "REFERENCES r1 (k)", "REFERENCES s2.r1 (k)",
            "REFERENCES s2.r1 (k) ON DELETE CASCADE", "REFERENCES p.s2.r1 (k)", "CHECK (a > 0)", "ENCODE zstd", "COMMENT 'cc'", "AUTO_INCREMENT",
            "AUTOINCREMENT", "COLLATE \"x\"", "GENERATED ALWAYS AS (b * 2)", "ENCRYPT", "ENCRYPT USING 'AES256' SALT", "DISTKEY", "IDENTITY(1,1)",
            "OPTIONS(description=\"x\")", "ON UPDATE CURRENT_TIMESTAMP", "CONSTRAINT nn NOT NULL", "NOT NULL CONSTRAINT cfk REFERENCES s2.r1 (k)"]
TABLE_ITEMS = ["PRIMARY KEY (a)", "PRIMARY KEY (a, b)", "UNIQUE (a)", "UNIQUE (a, b)", "CONSTRAINT u1 UNIQUE (a, b)", "CONSTRAINT c1 CHECK (a > 0)",
               "CHECK (a > 0)", "FOREIGN KEY (a) REFERENCES s2.r (x)", "CONSTRAINT f1 FOREIGN KEY (a, b) REFERENCES s2.r (x, y)",
               "CONSTRAINT f1 FOREIGN KEY (a, b) REFERENCES r (x, y) ON DELETE CASCADE", "CONSTRAINT pk1 PRIMARY KEY CLUSTERED (a ASC)",
               "CONSTRAINT pk1 PRIMARY KEY CLUSTERED (a ASC) WITH (PAD_INDEX = OFF) ON [PRIMARY]", "INDEX ix1 (a)", "KEY ix1 (a)", "UNIQUE KEY uk (b)",
               "PERIOD FOR SYSTEM_TIME (a, b)", "CONSTRAINT pk1 PRIMARY KEY (a)"]
TYPES = ["int", "bigint", "varchar(10)", "decimal(10,2)", "timestamp", "text", "string", "INT64", "date", "char(1)"]
REF_TARGETS = [("r", None), ("r", "s2"), ("r", "p.s2"), ('"r"', '"s2"')]


def _fk(n, target, named, tail=""):
    src = ["a", "b", "c"][:n]
    dst = ["x", "y", "z"][:n]
    t, s = target
    return "ADD %sFOREIGN KEY (%s) REFERENCES %s%s (%s)%s" % ("CONSTRAINT f%d " % n if named else "", ", ".join(src), (s + "." if s else ""), t, ", ".join(dst), tail)


def followers():
    """[(text with {T} for the table reference, tag, column-list transformer)]"""
    out = []
    for n in (1, 2, 3):
        for tg in REF_TARGETS:
            for named in (True, False):
                out.append(("ALTER TABLE {T} %s;" % _fk(n, tg, named), "alter-fk-%d-cols%s" % (n, "-qualified-target" if tg[1] else ""), None))
    out.append(("ALTER TABLE {T} %s;" % _fk(2, ("r", "s2"), True, " ON DELETE CASCADE"), "alter-fk-2-cols-qualified-target", None))
    out += [
        ("ALTER TABLE {T} ADD CONSTRAINT c1 CHECK (a > 0);", "alter-check", None),
        ("ALTER TABLE {T} ADD CONSTRAINT u1 UNIQUE (a);", "alter-unique", None),
        ("ALTER TABLE {T} ADD UNIQUE (a, b);", "alter-unique2", None),
        ("ALTER TABLE {T} ADD PRIMARY KEY (a);", "alter-pk", None),
        ("ALTER TABLE {T} ADD CONSTRAINT pk PRIMARY KEY (a, b);", "alter-pk2", None),
        ("ALTER TABLE ONLY {T} ADD CONSTRAINT pk PRIMARY KEY (a);", "alter-only-pk", None),
        ("ALTER TABLE {T} ADD z1 int;", "alter-add", lambda cs: cs + ["z1"]),
        ("ALTER TABLE {T} ADD z2 int REFERENCES s2.r (x);", "alter-add-ref", lambda cs: cs + ["z2"]),
        ("ALTER TABLE {T} DROP COLUMN c;", "alter-drop", lambda cs: [c for c in cs if c != "c"]),
        ("ALTER TABLE {T} RENAME COLUMN b TO b2;", "alter-rename", lambda cs: ["b2" if c == "b" else c for c in cs]),
        ("ALTER TABLE {T} MODIFY c bigint;", "alter-modify", None),
        ("ALTER TABLE {T} ALTER COLUMN c bigint;", "alter-column", None),
        ("ALTER TABLE {T} ADD CONSTRAINT d1 DEFAULT 0 FOR c;", "alter-default", None),
        ("CREATE INDEX i1 ON {T} (a);", "index", None),
        ("CREATE UNIQUE INDEX i2 ON {T} (a DESC, b);", "index-unique", None),
        ("CREATE CLUSTERED INDEX i3 ON {T} (a);", "index-clustered", None),
    ]
    return out


OTHERS = [
    ("CREATE SEQUENCE s1.q1 INCREMENT BY 5 START WITH 10;", ("sequence_name", "s1", "q1")),
    ("CREATE SEQUENCE q2;", ("sequence_name", None, "q2")),
    ("CREATE TYPE s1.mood AS ENUM ('a','b');", ("type_name", "s1", "mood")),
    ("CREATE TYPE addr AS OBJECT (st varchar(30), zip int);", ("type_name", None, "addr")),
    ("CREATE DOMAIN s1.dm AS varchar(5);", ("domain_name", "s1", "dm")),
    ("CREATE SCHEMA IF NOT EXISTS an;", ("schema_name", None, "an")),
    ("CREATE SCHEMA sl AUTHORIZATION joe;", ("schema_name", None, "sl")),
    ("CREATE SCHEMA p1.sx;", ("schema_name", None, "sx")),
    ("CREATE DATABASE wh;", ("database_name", None, "wh")),
    ("CREATE TABLESPACE ts1 DATAFILE 'ts1.dbf' SIZE 10m;", ("tablespace_name", None, "ts1")),
    ("CREATE TABLE s1.c2 CLONE s1.t0;", ("table_name", "s1", "c2")),
    ("CREATE TABLE s1.c3 LIKE s1.t0;", ("table_name", "s1", "c3")),
    ("CREATE TABLE s1.c4 (LIKE s1.t0);", ("table_name", "s1", "c4")),
]


def make_table(name, qual=("s1", None), prefix="CREATE TABLE", cols=None, items=(), clauses=(), layout=0):
    """cols: [(name, type, option text)] -> (ddl, table reference text, expected (marker, schema, name, column names))"""
    cols = cols or [("a", "int", ""), ("b", "varchar(10)", ""), ("c", "int", "")]
    sch, proj = qual
    ref = ".".join(x for x in (proj, sch, name) if x)
    body = ["%s %s%s" % (n, t, " " + o if o else "") for n, t, o in cols] + list(items)
    if layout == 0:
        text = "%s %s (\n    %s\n)" % (prefix, ref, ",\n    ".join(body))
    elif layout == 1:
        text = "%s %s (%s)" % (prefix, ref, ", ".join(body))
    else:
        text = "%s %s (\n    %s\n)" % (prefix, ref, "\n  , ".join(body))
    for c in clauses:
        text += ("\n" if layout != 1 else " ") + c
    return text + ";", ref, ("table_name", sch, name, [n for n, _, _ in cols])


ALL_COMBOS = [(False, False), (False, True), (True, False), (True, True)]


def check(ck):
    rnd = ck.rnd
    quick = ck.quick()
    FOLL = followers()
    _check_metadata(ck)

    def some_modes(k, always=("bigquery",)):
        """k modes incl. the ones in `always`, the rest drawn at random (thorough: all 15)"""
        if not quick:
            return list(MODES)
        rest = [m for m in MODES[1:] if m not in always]
        return list(always) + rnd.sample(rest, max(0, k - len(always)))

    def some_combos(k, thorough_all=True):
        if not quick and thorough_all:
            return list(ALL_COMBOS)
        if k <= 1:
            return [rnd.choice(ALL_COMBOS)]
        return [(False, False)] + rnd.sample(ALL_COMBOS[1:], k - 1)

    all_modes = list(MODES) if not quick else MODES[1:]
    # (i) every dialect clause alone x every mode
    for text, tag in CLAUSES:
        ddl, ref, exp = make_table("t1", clauses=[text])
        run_case(ck, "clause-x-mode", tag, ddl, all_modes, ALL_COMBOS if not quick else [(False, False)], expect=[exp], tags=("clause:" + tag,))
    # (ii) every CREATE prefix x qualification x every mode
    for pi, pre in enumerate(PREFIXES):
        for qi, q in enumerate(QUALS):
            if quick and (pi + qi) % 4:
                continue
            ddl, ref, exp = make_table("t1", qual=q, prefix=pre)
            run_case(ck, "prefix-x-qualification-x-mode", (pre, q), ddl, all_modes, some_combos(2), expect=[exp], tags=("prefix:" + pre,))
    # (iii) every column option / table-level item x every mode
    for o in COL_OPTS:
        ddl, ref, exp = make_table("t1", cols=[("a", "int", o), ("b", "varchar(10)", ""), ("c", "int", "")])
        run_case(ck, "column-option-x-mode", o, ddl, all_modes, ALL_COMBOS if not quick else [(False, False)], expect=[exp], tags=("colopt:" + o,))
    for it in TABLE_ITEMS:
        ddl, ref, exp = make_table("t1", items=[it])
        run_case(ck, "table-item-x-mode", it, ddl, all_modes, ALL_COMBOS if not quick else [(False, False)], expect=[exp], tags=("item:" + it,))
    # (iv) every ALTER / INDEX follower x table qualification x every mode
    for fi, (ftext, ftag, ftr) in enumerate(FOLL):
        for qi, q in enumerate(QUALS):
            if quick and qi not in (1, 2 + fi % (len(QUALS) - 2)):
                continue
            ddl, ref, exp = make_table("t1", qual=q)
            cols = ftr(exp[3]) if ftr else exp[3]
            script = ddl + "\n" + ftext.replace("{T}", ref)
            run_case(ck, "follower-x-qualification-x-mode", (ftext, q), script, all_modes if not quick else some_modes(4), some_combos(2, thorough_all=False),
                     expect=[exp[:3] + (cols,)], tags=("follower:" + ftag,))
    # (iv-b) a table created with a three-part name (project.schema.table) and altered / indexed through its two-part
    # name: the statement still names that table (projects are not part of a table's identity in any mode)
    for fi, (ftext, ftag, ftr) in enumerate(FOLL):
        if quick and fi % 3:
            continue
        for q in [x for x in QUALS if x[1]]:
            ddl, ref, exp = make_table("t1", qual=q)
            if ref.count(".") != 2:
                continue
            ref2 = ref.split(".", 1)[1]
            cols = ftr(exp[3]) if ftr else exp[3]
            script = ddl + "\n" + ftext.replace("{T}", ref2)
            run_case(ck, "follower-without-project-x-mode", (ftext, q), script, all_modes if not quick else ["bigquery"] + some_modes(2), some_combos(2, thorough_all=False),
                     expect=[exp[:3] + (cols,)], tags=("follower:" + ftag,))
    # (v) non-table entities and column-less tables (CLONE / LIKE) alone (they are interleaved with tables in (vi))
    for text, ident in OTHERS:
        e = ident + ((None if ident[0] != "table_name" else []),)
        run_case(ck, "other-entities-x-mode", text, text, all_modes, some_combos(2), expect=[e], tags=("other",))
    # (v') tables derived from a table DEFINED EARLIER in the script (CLONE / LIKE / (LIKE ..)), alone and followed by an ALTER
    src, _, _ = make_table("t0", qual=("s1", None))
    for text, ident in OTHERS[10:]:
        for tail in ("", "\nALTER TABLE %s.%s ADD restored_at timestamp;" % (ident[1], ident[2])):
            run_case(ck, "derived-after-source-x-mode", (text, bool(tail)), src + "\n" + text + tail, all_modes, some_combos(2), tags=("other", "derived-after-source"))
    # (v'') a trailing `word (x)` clause the grammar files under some dialect key although x is no column of the table
    # (MySQL MERGE ... UNION (t), INCLUDE (x), PCTFREE (10), ...): no mode turns the parse into an error
    for text in ("ENGINE = MERGE UNION (log_2023)", "PCTFREE (10)", "INCLUDE (zz)", "BUCKETS (4)"):
        ddl_x, _, _ = make_table("t0", qual=("s1", None), clauses=[text])
        run_case(ck, "foreign-paren-clause-x-mode", text, ddl_x, all_modes, some_combos(2), tags=("other", "foreign-paren-clause"))
    # (vi) random scripts
    n_rand = 70 if quick else 600
    for i in range(n_rand):
        parts, expect, tags = [], [], []
        for ti in range(rnd.randint(1, 3)):
            name = rnd.choice(["t%d", "t%d", "Tbl_%d", "ORDERS%d", "order_Items%d"]) % ti
            q = rnd.choice(QUALS)
            ncols = rnd.choice([3, 3, 4, 6, 9])
            names = ["a", "b", "c"] + rnd.sample(["id", "name", "qty", "price", "created", "status", "note", "flag", "amount", "location", "engine", "dataset", "project", "options", "temp"], ncols - 3)
            cols = []
            for n in names:
                o = rnd.choice(COL_OPTS) if rnd.random() < 0.5 else ""
                if o.startswith(("PRIMARY KEY", "CHECK", "GENERATED", "DISTKEY")) and n != "a":
                    o = "NOT NULL"
                cols.append((n, rnd.choice(TYPES), o))
            items = rnd.sample(TABLE_ITEMS, rnd.choice([0, 0, 1, 1, 2]))
            if any(c[2].startswith("PRIMARY KEY") for c in cols):
                items = [x for x in items if "PRIMARY KEY" not in x]
            if sum("PRIMARY KEY" in x for x in items) > 1 or sum(x.startswith("CONSTRAINT f1") for x in items) > 1 or sum(" ix1 " in x for x in items) > 1:
                items = items[:1]
            fam = rnd.choice(sorted(FAMILIES))
            cl = [c for c in FAMILIES[fam] if rnd.random() < 0.45]
            ddl, ref, exp = make_table(name, qual=q, prefix=rnd.choice(PREFIXES[:3] + PREFIXES) if rnd.random() < 0.5 else "CREATE TABLE", cols=cols, items=items, clauses=cl, layout=rnd.randrange(3))
            parts.append(ddl)
            ecols = exp[3]
            used = set()
            # followers that remove / rename a column go last (an ALTER .. FOREIGN KEY naming a column the table no longer has
            # re-adds it -- a quirk outside this property)
            for ftext, ftag, ftr in sorted(rnd.sample(FOLL, rnd.choice([0, 1, 1, 2, 3])), key=lambda f: f[1] in ("alter-drop", "alter-rename")):
                kind = ftag if ftag.startswith(("alter-fk", "index")) else "-".join(ftag.split("-")[:2])[:9]
                if kind in used:
                    continue
                used.add(kind)
                parts.append(ftext.replace("{T}", ref))
                tags.append("follower:" + ftag)
                if ftr:
                    ecols = ftr(ecols)
            expect.append(exp[:3] + (ecols,))
            tags += ["clause-family:" + fam] if cl else []
            if rnd.random() < 0.4:
                text, ident = rnd.choice(OTHERS[:10])
                if not any(e[:3] == ident for e in expect):
                    parts.append(text)
                    expect.append(ident + (None,))
        run_case(ck, "random-scripts", i, "\n\n".join(parts), some_modes(4), some_combos(2, thorough_all=False), expect=expect, tags=tuple(tags))
    # (vii) regression corpus
    cp = corpus()
    for i, (cid, ddl) in enumerate(cp):
        if quick:
            others = [m for m in MODES[1:] if m != "bigquery"]
            modes = ["bigquery"] + [others[(i + j * 5) % len(others)] for j in range(2 - i % 2)]
            combos = [ALL_COMBOS[i % 4]]
        else:
            modes, combos = list(MODES), ALL_COMBOS
        run_case(ck, "regression-corpus", cid, ddl, modes, combos)
    return ("scripts generated from an abstract description (tables = prefix x qualification x columns with options x table-level items x dialect clauses; "
            "ALTER / INDEX followers; sequences, types, domains, schemas, databases, tablespaces) and the regression corpus; contract per (script, mode, normalize_names, "
            "group_by_type): no exception where the default mode succeeds, same entities in the same order (default-mode entities and column names also equal the "
            "generated description), table common fields equal the default mode (eight column attributes, index modulo `clustered`, bigquery schema->dataset rename undone), "
            "non-table entities equal, dialect-specific fields absent outside their documented modes and present (unconditional ones) inside, equal values across modes; "
            "documented-modes table cross-checked against the field metadata",
            "%d clauses, %d prefixes x %d qualifications, %d column options, %d table items, %d followers x qualifications, %d other entities: %s; %d random scripts of 1-3 tables x %s; "
            "%d corpus scripts x %s" % (len(CLAUSES), len(PREFIXES), len(QUALS), len(COL_OPTS), len(TABLE_ITEMS), len(FOLL), len(OTHERS),
                                         "14 non-default modes, sampled flag combinations / qualifications" if quick else "15 modes x 4 (normalize_names, group_by_type) combinations (followers: 2)",
                                         n_rand, "4 modes x 2 flag combinations" if quick else "15 modes x 2 flag combinations", len(cp),
                                         "2-3 rotating modes (bigquery always) x 1 rotating flag combination" if quick else "15 modes x 4 flag combinations"))
