"""C19 BOUNDED stand-in: file, dump and command-line entry points agree with the in-memory API.

Oracle (from the statement, not from current behaviour):
  * reference value   = DDLParser(decoded text, **parser_settings).run(**run kwargs) on a fresh object (no file, no dump);
                        the decoded text is known to the generator (it produced the text and encoded it itself; for the
                        cross-codec cases the decoded text is bytes.decode(codec), i.e. Python's codec, not the library);
  * expected dump     = <target dir>/<file name up to its first dot>_schema.json, computed by the generator from the
                        (base, dotted segments) pair the file name was built from -- never by splitting the name again;
  * expected tree     = snapshot of the whole case directory before the call + exactly that file (+ missing ancestors).
Everything happens below one tempfile.mkdtemp() directory that is removed at the end; the command is run in-process
(sys.argv + simple_ddl_parser.cli.main(), cwd changed) and, for a sample, as a subprocess.
"""
import ast
import contextlib
import io
import json
import logging
import os
import shutil
import subprocess
import sys
import tempfile
import tokenize

from bounded import stmts as S
from bounded.common import MODES, corpus, jdump

# ----------------------------------------------------------------------------------------------- texts
WORDS = {
    "ascii": ["plain", "n/a", "two words"],
    "lat": ["café", "Größe", "año", "ÿ naïve"],
    "cyr": ["Привет", "комментарий", "Ёжик",
            "таблица заказов"],
    "wide": ["日本語", "€uro", "\U0001f600 ok", "Привет café"],
}
ALL_FAMS = ["ascii", "lat", "cyr", "wide"]
# encoding name as passed to parse_from_file -> families of non-ASCII words it can encode
ENCODINGS = [("utf-8", ALL_FAMS), ("utf-16", ALL_FAMS), ("latin-1", ["lat", "ascii"]), ("cp1251", ["cyr", "ascii"]),
             ("utf-8-sig", ALL_FAMS), ("utf-16-le", ALL_FAMS), ("utf-16-be", ALL_FAMS), ("utf-32", ALL_FAMS),
             ("cp1252", ["lat", "ascii"]), ("iso8859-15", ["lat", "ascii"]), ("koi8-r", ["cyr", "ascii"]), ("iso8859-5", ["cyr", "ascii"]),
             ("cp866", ["cyr", "ascii"]), ("ascii", ["ascii"]), ("UTF8", ALL_FAMS), ("Latin1", ["lat", "ascii"]), ("windows-1251", ["cyr", "ascii"])]
BAD = ["CREATE TABLE t (id int) FOO BAR BAZ (;", "CREATE PABLE t (x int);", "ALTER TABLE t;", "SELECT a ^ b FROM orders;", "CREATE TRIGGER x;"]
COLN = ["id", "name", "qty", "price", "created", "status", "ref_id", "note", "flag", "amount", "order", "comment", "type", "value"]
SETTINGS = [("none", None), ("empty", {}), ("silent-false", {"silent": False}), ("silent-true", {"silent": True}),
            ("normalize", {"normalize_names": True}), ("normalize-false-silent-false", {"normalize_names": False, "silent": False}),
            ("silent-false-normalize", {"silent": False, "normalize_names": True}), ("debug-false", {"debug": False}),
            ("debug-false-silent-false", {"debug": False, "silent": False})]


def gen_table(rnd, fam, i, maxcols):
    def w():
        return rnd.choice(WORDS[fam])
    tname = rnd.choice(["orders_%d" % i, "shop.items_%d" % i, '"Users %d"' % i, "[dbo].[T%d]" % i, "`t%d`" % i, '"%s"' % w(), "schema_%d" % i])
    cols = []
    for j in range(rnd.randint(1, maxcols)):
        parts = ["%s%d" % (rnd.choice(COLN), j) if rnd.random() < 0.8 else '"%s %d"' % (w(), j), rnd.choice(S.TYPES)[0]]
        if rnd.random() < 0.3:
            parts.append("NOT NULL")
        r = rnd.random()
        if r < 0.4:
            parts.append("DEFAULT '%s'" % w())
        elif r < 0.55:
            parts.append("DEFAULT %d" % rnd.randint(0, 99))
        if rnd.random() < 0.3:
            parts.append("COMMENT '%s'" % w())
        if j == 0 and rnd.random() < 0.4:
            parts.append("PRIMARY KEY")
        cols.append(" ".join(parts))
    layout = rnd.randrange(3)
    tail = rnd.choice(["", "", " COMMENT '%s'" % w()])
    if layout == 0:
        return "CREATE TABLE %s (\n    %s\n)%s;" % (tname, ",\n    ".join(cols), tail)
    if layout == 1:
        return "CREATE TABLE %s (%s)%s;" % (tname, ", ".join(cols), tail)
    return "CREATE TABLE %s (\n    %s\n)%s;" % (tname, "\n  , ".join(cols), tail)


def gen_script(rnd, fam, idx=0, big=False, bad=False):
    """abstract: 1..n units out of {generated table, line comment, block comment, repository statement kinds, hive table}
    with non-ASCII words of one family inside comments / string literals / quoted names; optionally one unparsable statement"""
    def w():
        return rnd.choice(WORDS[fam])
    sup = list(S.SUPPORTED.values())
    grp = ["\n".join(g) for g in S.GROUPS.values()]
    parts = []
    for i in range(rnd.randint(1, 6 if big else 3)):
        kind = rnd.choice(["table", "table", "table", "line", "block", "supported", "group", "hql", "trailing"])
        if kind == "table":
            parts.append(gen_table(rnd, fam, idx * 10 + i, 12 if big else 5))
        elif kind == "line":
            parts.append("-- %s %s" % (w(), w()))
        elif kind == "block":
            parts.append("/* %s\n   %s */" % (w(), w()))
        elif kind == "supported":
            parts.append(rnd.choice(sup))
        elif kind == "group":
            parts.append(rnd.choice(grp))
        elif kind == "hql":
            parts.append("CREATE EXTERNAL TABLE logs_%d (\n    ts string COMMENT '%s',\n    msg string\n)\nCOMMENT '%s'\nSTORED AS PARQUET\nLOCATION 's3://bucket/%s';"
                         % (idx * 10 + i, w(), w(), w().replace(" ", "_")))
        else:
            parts.append("CREATE TABLE c_%d (x int); -- %s" % (idx * 10 + i, w()))
    if not any(p.startswith("CREATE") for p in parts):
        parts.append(gen_table(rnd, fam, idx * 10 + 9, 4))
    if bad:
        parts.insert(rnd.randrange(len(parts) + 1), rnd.choice(BAD))
    return "\n".join(parts) + rnd.choice(["", "\n", "\n\n"])


# ----------------------------------------------------------------------------------------------- file names
# a file name is built as base + "".join("." + seg); the dump name the statement asks for is base + "_schema.json"
BASES = ["plain", "orders", "My Table", "таблица", "a-b_c", "x", "schema", "UPPER", "t_schema", "0", "table", "sql_dump"]
SEGS_ACCEPTED = [["sql"], ["ddl"], ["hql"], ["bql"], ["v2", "sql"], ["table", "sql"], ["2024", "01", "ddl"], ["1", "2", "hql"], ["sql", "sql"], ["txt", "bql"], ["json", "ddl"]]
SEGS_FOREIGN = [[], ["txt"], ["sql", "bak"], ["json"], ["sqlx"], ["xsql"], ["dd"], ["sql", "txt"], ["sql_"], ["hql", "orig"], ["ddl~"]]
SEGS_CASE = [["SQL"], ["Ddl"], ["v1", "HQL"]]  # single-file runs only (the statement says nothing about letter case in directory mode)
FOREIGN_BARE = ["sql", "ddl", "readme", "hql"]  # names that ARE an extension word but have no dot


def fname(base, segs):
    return base + "".join("." + s for s in segs)


def namekind(segs):
    return "no-dot" if not segs else "one-dot" if len(segs) == 1 else "multi-dot"


# where the input file lives, as the path string handed to the API / command ({abs} = an absolute directory with a dot in it)
LOCS = [("cwd", "{n}"), ("dot-slash", "./{n}"), ("sub", "sub/{n}"), ("dotted-parent", "dir.v1/{n}"), ("sibling", "../sib.d/{n}"),
        ("abs", "{abs}/in.abs/{n}"), ("deep", "a/b.c/d/{n}"), ("abs-plain", "{abs}/plain/{n}")]
# (id, -t / dump_path argument or None for the default "schemas", state of the directory before the call)
TARGETS = [("default-missing", None, "missing"), ("default-populated", None, "populated"), ("rel-missing", "out", "missing"), ("rel-empty", "out", "empty"),
           ("rel-populated", "out", "populated"), ("nested-missing", "deep/er/out", "missing"), ("nested-partial", "deep/er/out", "partial"),
           ("trailing-slash", "out/", "missing"), ("dotted-missing", "out.d", "missing"), ("dotted-populated", "res.v2/json", "populated"),
           ("parent", "../other", "missing"), ("abs-missing", "{abs}/t.abs/out", "missing"), ("abs-populated", "{abs}/t.abs/out", "populated"), ("cwd", ".", "empty")]
STALE = ("[" + "0, " * 4000 + "0]").encode()


class Case:
    """one directory tree: <case>/w is the working directory, <case>/abs.area holds the absolute-path inputs / targets"""

    def __init__(self, env):
        env.n += 1
        self.dir = os.path.join(env.root, "k%d" % env.n)
        self.cwd = os.path.join(self.dir, "w")
        self.abs = os.path.join(self.dir, "abs.area")
        os.makedirs(self.cwd)
        os.makedirs(self.abs)

    def arg(self, template, **kw):
        return template.format(abs=self.abs, **kw)

    def real(self, p):
        return os.path.normpath(os.path.join(self.cwd, p))

    def rel(self, p):
        return os.path.relpath(self.real(p), self.dir)

    def put(self, p, data):
        rp = self.real(p)
        os.makedirs(os.path.dirname(rp), exist_ok=True)
        with open(rp, "wb") as f:
            f.write(data)

    def prepare_target(self, targ, state, bases):
        tdir = self.real(targ if targ is not None else "schemas")
        if state == "partial":
            os.makedirs(os.path.dirname(os.path.dirname(tdir)), exist_ok=True)
        elif state in ("empty", "populated"):
            os.makedirs(tdir, exist_ok=True)
        if state == "populated":
            self.put(os.path.join(tdir, "keep.txt"), b"keep me")
            self.put(os.path.join(tdir, "zzz_schema.json"), b"[1]")
            for b in bases:
                self.put(os.path.join(tdir, b + "_schema.json"), STALE)
        return tdir

    def tree(self):
        out = {}
        for dp, dns, fns in os.walk(self.dir):
            for d in dns:
                out[os.path.relpath(os.path.join(dp, d), self.dir)] = None
            for f in fns:
                with open(os.path.join(dp, f), "rb") as fh:
                    out[os.path.relpath(os.path.join(dp, f), self.dir)] = fh.read()
        return out

    def close(self):
        shutil.rmtree(self.dir, ignore_errors=True)


class Env:
    def __init__(self, ck, root):
        self.ck, self.rnd, self.root, self.n = ck, ck.rnd, root, 0
        self.cache = {}
        self.stats = dict(reference_raised=0, reference_result_has_non_ascii_escape=0, subprocess_runs=0)

    def ref(self, text, settings=None, **run_kw):
        """the in-memory API on a fresh object"""
        key = (text, tuple(sorted((settings or {}).items())), tuple(sorted(run_kw.items())))
        if key not in self.cache:
            from simple_ddl_parser import DDLParser
            r = outcome(lambda: DDLParser(text, **(settings or {})).run(**run_kw))
            if r[0] == "exc":
                self.stats["reference_raised"] += 1
            elif "\\\\u0" in jdump(r[1]) or "\\\\x" in jdump(r[1]) or "\\\\0" in jdump(r[1]):
                self.stats["reference_result_has_non_ascii_escape"] += 1
            self.cache[key] = r
        return self.cache[key]


def outcome(fn):
    try:
        return ("ok", fn())
    except Exception as e:  # noqa
        return ("exc", type(e).__name__, str(e)[:300])


def same(a, b):
    if a[0] != b[0]:
        return False
    if a[0] == "exc":
        return a[1:] == b[1:]
    return a[1] == b[1] and type(a[1]) is type(b[1]) and jdump(a[1]) == jdump(b[1])


@contextlib.contextmanager
def in_dir(d):
    old = os.getcwd()
    os.chdir(d)
    try:
        yield
    finally:
        os.chdir(old)


def as_json(v):
    return json.loads(v) if isinstance(v, str) else json.loads(json.dumps(v))


def ancestors(paths):
    out = set()
    for p in paths:
        p = os.path.dirname(p)
        while p and p != ".":
            out.add(p)
            p = os.path.dirname(p)
    return out


def dump_problems(before, after, expected, allowed_dirs=()):
    """expected: {path relative to the case dir: JSON value}. -> list of (kind, detail), most specific first"""
    probs = []
    created = sorted(q for q in after if q not in before)
    for p, val in expected.items():
        data = after.get(p)
        if data is not None and before.get(p) == data and data == STALE:
            data = None  # the stale dump that was there before the call is still there, untouched
        if data is None:
            new_dumps = [q for q in created if after[q] is not None and q.endswith("_schema.json") and q not in expected]
            probs.append(("dump-file-name" if new_dumps else "dump-not-written", dict(expected_file=p, created=created)))
            continue
        try:
            got = json.loads(data.decode("utf-8"))
        except Exception as e:  # noqa
            probs.append(("dump-content-differs", dict(file=p, observed="not JSON (%s): %r ... %r" % (type(e).__name__, data[:80], data[-40:]), expected=val)))
            continue
        if jdump(got) != jdump(val):
            probs.append(("dump-content-differs", dict(file=p, observed=got, expected=val)))
    ok_dirs = ancestors(expected) | set(allowed_dirs) | ancestors(allowed_dirs)
    extra = [q for q in created if q not in expected and not (after[q] is None and q in ok_dirs)]
    if extra:
        probs.append(("dump-extra-files", dict(created=extra, expected=sorted(expected))))
    changed = [q for q in before if q not in expected and (q not in after or after[q] != before[q])]
    if changed:
        probs.append(("unrelated-file-changed", dict(changed=changed)))
    return probs


def nodump_problems(before, after):
    created = sorted(q for q in after if q not in before)
    probs = []
    if any(after[q] is not None for q in created):
        probs.append(("no-dump-writes-file", dict(created=created)))
    elif created:
        probs.append(("no-dump-creates-directory", dict(created=created)))
    changed = [q for q in before if q not in after or after[q] != before[q]]
    if changed:
        probs.append(("unrelated-file-changed", dict(changed=changed)))
    return probs


# ----------------------------------------------------------------------------------------------- the command
def run_cli(argv, cwd, sub=False):
    """-> (outcome, stdout)"""
    if sub:
        env = dict(os.environ, PYTHONIOENCODING="utf-8", PYTHONDONTWRITEBYTECODE="1")
        r = subprocess.run([sys.executable, "-c", "from simple_ddl_parser.cli import main; main()"] + list(argv), cwd=cwd, capture_output=True, text=True, encoding="utf-8", env=env)
        if r.returncode == 0:
            return ("ok", None), r.stdout
        last = (r.stderr.strip().splitlines() or [""])[-1]
        return ("exc", last.split(":")[0].split(".")[-1], last.split(":", 1)[-1].strip()[:300]), r.stdout
    from simple_ddl_parser import cli
    old_argv = sys.argv
    out, err = io.StringIO(), io.StringIO()
    sys.argv = ["sdp"] + list(argv)
    try:
        with in_dir(cwd), contextlib.redirect_stdout(out), contextlib.redirect_stderr(err):
            try:
                cli.main()
                res = ("ok", None)
            except SystemExit as e:
                res = ("ok", None) if e.code in (None, 0) else ("exc", "SystemExit", str(e.code) + " " + err.getvalue()[-200:])
            except Exception as e:  # noqa
                res = ("exc", type(e).__name__, str(e)[:300])
    finally:
        sys.argv = old_argv
    return res, out.getvalue()


def printed_values(text):
    """the top-level bracketed Python literals in the text the command printed (format-agnostic: pprint or print). None if unreadable"""
    vals, depth, start = [], 0, None
    offs, pos = [], 0
    for ln in text.splitlines(keepends=True):
        offs.append(pos)
        pos += len(ln)
    try:
        for tok in tokenize.generate_tokens(io.StringIO(text).readline):
            if tok.type != tokenize.OP:
                continue
            if tok.string in "([{":
                if depth == 0:
                    start = offs[tok.start[0] - 1] + tok.start[1]
                depth += 1
            elif tok.string in ")]}":
                depth -= 1
                if depth == 0:
                    vals.append(ast.literal_eval(text[start:offs[tok.end[0] - 1] + tok.end[1]]))
    except Exception:  # noqa
        return None
    return vals


def cli_argv(rnd, path, targ, mode, v, no_dump):
    groups = []
    if targ is not None:
        groups.append(rnd.choice([["-t", targ], ["--target", targ], ["--target=" + targ], ["-t" + targ]]))
    if mode is not None:
        groups.append(rnd.choice([["-o", mode], ["--output-mode", mode], ["--output-mode=" + mode]] + ([["-o" + mode]] if mode else [])))
    if v:
        groups.append(["-v"])
    if no_dump:
        groups.append(["--no-dump"])
    rnd.shuffle(groups)
    groups.insert(rnd.choice([0, len(groups), rnd.randrange(len(groups) + 1)]), [path])
    return [a for g in groups for a in g]


# ----------------------------------------------------------------------------------------------- A: parse_from_file == in-memory
def call_file_api(rnd, path, enc, settings, run_kw, style=None):
    """parse_from_file with the arguments given positionally / by keyword / left out when they are the documented defaults"""
    from simple_ddl_parser import parse_from_file
    style = style if style is not None else rnd.randrange(3)
    if style == 0:
        return outcome(lambda: parse_from_file(path, enc, settings, **run_kw))
    kw = dict(run_kw)
    if not (style == 2 and enc == "utf-8"):
        kw["encoding"] = enc
    if not (style == 2 and settings is None):
        kw["parser_settings"] = settings
    return outcome(lambda: parse_from_file(path, **kw))


def rand_run_kw(rnd, modes):
    kw = {}
    if rnd.random() < 0.7:
        kw["output_mode"] = rnd.choice(modes)
    if rnd.random() < 0.35:
        kw["group_by_type"] = rnd.random() < 0.8
    if rnd.random() < 0.25:
        kw["json_dump"] = rnd.random() < 0.8
    return kw


def one_file_case(env, set_name, key, text, enc, settings, run_kw, raw=None, decoded=None, name=None, loc=None, style=None):
    ck, rnd = env.ck, env.rnd
    raw = raw if raw is not None else text.encode(enc)
    decoded = decoded if decoded is not None else text
    base, segs = name or (rnd.choice(BASES), rnd.choice(SEGS_ACCEPTED + SEGS_FOREIGN + SEGS_CASE))
    lid, ltpl = loc or rnd.choice(LOCS)
    case = Case(env)
    try:
        path = case.arg(ltpl, n=fname(base, segs))
        case.put(path, raw)
        before = case.tree()
        exp = env.ref(decoded, settings, **run_kw)
        with in_dir(case.cwd):
            got = call_file_api(rnd, path, enc, settings, run_kw, style)
        info = dict(ddl=decoded, file=case.rel(path), encoding=enc, ctor=settings, run=run_kw, observed=got, expected=exp)
        if not same(got, exp):
            cls = "c19:file-result-differs" if got[0] == exp[0] == "ok" else "c19:file-exception-differs"
            ck.fail(set_name, key, cls, info)
            return
        probs = nodump_problems(before, case.tree())
        if probs:
            ck.fail(set_name, key, "c19:file-read-" + probs[0][0], dict(info, **probs[0][1]))
            return
        ck.ok(set_name, key, dict(ddl=decoded[:200], encoding=enc, ctor=settings, run=run_kw))
    finally:
        case.close()


def set_a(env):
    ck, rnd = env.ck, env.rnd
    quick = ck.quick()
    modes = MODES
    # A1: every encoding x every word family it can encode x every settings variant, good and unparsable text
    for ei, (enc, fams) in enumerate(ENCODINGS):
        for fi, fam in enumerate(fams):
            for si, (sid, settings) in enumerate(SETTINGS):
                if quick and (ei + fi + si) % 3:
                    continue
                for bad in (False, True):
                    text = gen_script(rnd, fam, idx=si, bad=bad)
                    run_kw = rand_run_kw(rnd, modes) if not bad else {}
                    one_file_case(env, "file-vs-memory/encoding-x-settings", (enc, fam, sid, bad), text, enc, settings, run_kw)
    # A2: random scripts, random everything
    for i in range(150 if quick else 3000):
        enc, fams = rnd.choice(ENCODINGS[:4] if rnd.random() < 0.6 else ENCODINGS)
        fam = rnd.choice(fams)
        text = gen_script(rnd, fam, idx=i, big=not quick or i % 5 == 0, bad=rnd.random() < 0.25)
        one_file_case(env, "file-vs-memory/random", i, text, enc, rnd.choice(SETTINGS)[1], rand_run_kw(rnd, modes))
    # A3: the repository's own test DDLs, in every encoding that can encode them
    cp = corpus()
    for i, (cid, ddl) in enumerate(cp if not quick else cp[::7]):
        for enc, _ in (rnd.sample(ENCODINGS, 2) if quick else ENCODINGS[:8]):
            try:
                raw = ddl.encode(enc)
            except UnicodeEncodeError:
                continue
            if "\r" in ddl:
                continue
            sid, settings = rnd.choice(SETTINGS)
            one_file_case(env, "file-vs-memory/corpus", (cid, enc), ddl, enc, settings, rand_run_kw(rnd, modes), raw=raw)
    # A4: bytes written by one codec, read by another (decoded text = Python's codec applied to the bytes)
    cross = [("utf-8-sig", "utf-8", "wide"), ("cp1251", "latin-1", "cyr"), ("cp1251", "koi8-r", "cyr"), ("latin-1", "cp1251", "lat"), ("utf-8", "latin-1", "cyr"),
             ("utf-8", "cp1252", "ascii"), ("utf-16", "utf-16-le", "wide"), ("utf-8", "cp866", "lat")]
    for ci, (wenc, renc, fam) in enumerate(cross):
        for j in range(2 if quick else 12):
            text = gen_script(rnd, fam, idx=j)
            raw = text.encode(wenc)
            try:
                decoded = raw.decode(renc)
            except UnicodeDecodeError:
                continue
            if "\r" in decoded or "\x85" in decoded:
                continue
            one_file_case(env, "file-vs-memory/cross-codec", (wenc, renc, j), text, renc, rnd.choice(SETTINGS)[1], rand_run_kw(rnd, modes), raw=raw, decoded=decoded)


# ----------------------------------------------------------------------------------------------- B: dump=True through the API
def name_class(prefix, kind, segs, lid):
    return "c19:%s%s:%s%s" % (prefix, kind, namekind(segs), ":dotted-path" if lid in ("dot-slash", "dotted-parent", "sibling", "abs", "deep") and len(segs) < 2 else "")


def one_dump_case(env, set_name, key, name, loc, target, text, enc, settings, run_kw, how):
    ck, rnd = env.ck, env.rnd
    base, segs = name
    lid, ltpl = loc
    tid, ttpl, tstate = target
    case = Case(env)
    try:
        path = case.arg(ltpl, n=fname(base, segs))
        targ = case.arg(ttpl) if ttpl is not None else None
        case.put(path, text.encode(enc))
        tdir = case.prepare_target(targ, tstate, [base])
        before = case.tree()
        exp = env.ref(text, settings, **run_kw)
        kw = dict(run_kw, dump=True)
        if targ is not None:
            kw["dump_path"] = targ
        with in_dir(case.cwd):
            if how == "run":
                from simple_ddl_parser import DDLParser
                got = outcome(lambda: DDLParser(text, **(settings or {})).run(file_path=path, **kw))
            else:
                got = call_file_api(rnd, path, enc, settings, kw)
        after = case.tree()
        info = dict(ddl=text, file=case.rel(path), encoding=enc, ctor=settings, run=kw, how=how, target_state=tstate, observed=got, expected=exp)
        if not same(got, exp):
            ck.fail(set_name, key, "c19:dump-changes-result" if got[0] == exp[0] == "ok" else "c19:dump-exception-differs", info)
            return
        if exp[0] == "exc":
            ck.ok(set_name, key)
            return
        expected = {os.path.relpath(os.path.join(tdir, base + "_schema.json"), case.dir): as_json(exp[1])}
        probs = dump_problems(before, after, expected)
        if probs:
            kind, detail = probs[0]
            cls = name_class("", kind, segs, lid) if kind in ("dump-file-name", "dump-not-written") else "c19:%s%s" % (kind, ":target-" + tstate if kind == "dump-content-differs" else "")
            ck.fail(set_name, key, cls, dict(info, **detail))
            return
        ck.ok(set_name, key, dict(file=case.rel(path), target=tid, run=kw))
    finally:
        case.close()


def all_names():
    names = []
    for i, segs in enumerate(SEGS_ACCEPTED + SEGS_FOREIGN + SEGS_CASE):
        names.append((BASES[i % len(BASES)], segs))
    return names


def set_b(env):
    ck, rnd = env.ck, env.rnd
    quick = ck.quick()
    names = all_names()
    grid = []
    if quick:
        for n in names:
            grid.append((n, rnd.choice(LOCS), rnd.choice(TARGETS)))
        for t in TARGETS:
            grid.append((rnd.choice(names), rnd.choice(LOCS), t))
        for loc in LOCS:
            grid.append((rnd.choice(names), loc, rnd.choice(TARGETS)))
    else:
        grid = [(n, rnd.choice(LOCS), t) for n in names for t in TARGETS] + [(n, loc, rnd.choice(TARGETS)) for n in names for loc in LOCS]
    for i in range(80 if quick else 1200):
        grid.append(((rnd.choice(BASES), rnd.choice(SEGS_ACCEPTED + SEGS_FOREIGN + SEGS_CASE)), rnd.choice(LOCS), rnd.choice(TARGETS)))
    for i, (name, loc, target) in enumerate(grid):
        enc, fams = rnd.choice(ENCODINGS[:4] if rnd.random() < 0.8 else ENCODINGS)
        text = gen_script(rnd, rnd.choice(fams), idx=i, big=not quick and i % 3 == 0, bad=rnd.random() < 0.1)
        how = "run" if rnd.random() < 0.15 else "parse_from_file"
        one_dump_case(env, "api-dump", (i, fname(*name), loc[0], target[0]), name, loc, target, text, enc, rnd.choice(SETTINGS)[1], rand_run_kw(rnd, MODES), how)


# ----------------------------------------------------------------------------------------------- C: sdp <file>
BAD_MODES = ["nosuch", "SQL", "postgresql", "hql ", ""]


def check_printed(stdout, expected_values):
    vals = printed_values(stdout)
    if vals is None:
        return "unreadable"
    if sorted(jdump(v) for v in vals) != sorted(jdump(v) for v in expected_values):
        return "differs"
    return None


def one_cli_file_case(env, set_name, key, name, loc, target, text, mode, v, no_dump, sub=False):
    ck, rnd = env.ck, env.rnd
    base, segs = name
    lid, ltpl = loc
    tid, ttpl, tstate = target
    case = Case(env)
    try:
        path = case.arg(ltpl, n=fname(base, segs))
        targ = case.arg(ttpl) if ttpl is not None else None
        case.put(path, text.encode("utf-8"))
        tdir = case.prepare_target(targ, tstate, [base])
        before = case.tree()
        exp = env.ref(text, None, **({"output_mode": mode} if mode is not None else {}))
        argv = cli_argv(rnd, path, targ, mode, v, no_dump)
        res, stdout = run_cli(argv, case.cwd, sub)
        after = case.tree()
        shown = [a.replace(case.dir, "<case>") for a in argv]
        info = dict(ddl=text, file=case.rel(path), argv=shown, subprocess=sub, target_state=tstate, run=dict(output_mode=mode or "sql"), observed=res, expected=exp, stdout=stdout[-400:])
        if exp[0] == "exc":
            if res[0] != "exc" or res[1] != exp[1] or (not sub and res[2] != exp[2]):
                ck.fail(set_name, key, "c19:cli-exception-differs", info)
            else:
                ck.ok(set_name, key)
            return
        if res[0] != "ok":
            ck.fail(set_name, key, "c19:cli-raises", info)
            return
        if no_dump:
            probs = nodump_problems(before, after)
        else:
            probs = dump_problems(before, after, {os.path.relpath(os.path.join(tdir, base + "_schema.json"), case.dir): as_json(exp[1])})
        if probs:
            kind, detail = probs[0]
            cls = name_class("cli-", kind, segs, lid) if kind in ("dump-file-name", "dump-not-written") else "c19:cli-" + kind
            ck.fail(set_name, key, cls, dict(info, **detail))
            return
        if v or no_dump:
            bad = check_printed(stdout, [exp[1]])
            if bad:
                ck.fail(set_name, key, "c19:cli-printed-result-" + bad, info)
                return
        ck.ok(set_name, key, dict(argv=shown))
    finally:
        case.close()


def set_c(env):
    ck, rnd = env.ck, env.rnd
    quick = ck.quick()
    names = all_names()
    cases = []
    # every mode (and no -o), every target kind, every name at least once
    for m in [None] + MODES:
        cases.append((rnd.choice(names), rnd.choice(LOCS), rnd.choice(TARGETS), m))
    for t in TARGETS:
        cases.append((rnd.choice(names), rnd.choice(LOCS), t, rnd.choice([None] + MODES)))
    for n in names:
        cases.append((n, rnd.choice(LOCS), rnd.choice(TARGETS), rnd.choice([None] + MODES)))
    for i in range(60 if quick else 1500):
        cases.append(((rnd.choice(BASES), rnd.choice(SEGS_ACCEPTED + SEGS_FOREIGN + SEGS_CASE)), rnd.choice(LOCS), rnd.choice(TARGETS), rnd.choice([None, None] + MODES)))
    for i, (name, loc, target, mode) in enumerate(cases):
        text = gen_script(rnd, rnd.choice(ALL_FAMS), idx=i, big=not quick and i % 3 == 0, bad=rnd.random() < 0.1)
        v, no_dump = rnd.random() < 0.35, rnd.random() < 0.3
        one_cli_file_case(env, "cli-file", (i, fname(*name), loc[0], target[0], mode, v, no_dump), name, loc, target, text, mode, v, no_dump)
    for i, m in enumerate(BAD_MODES):
        for no_dump in (False, True):
            one_cli_file_case(env, "cli-file/unknown-mode", (m, no_dump), rnd.choice(names), rnd.choice(LOCS), rnd.choice(TARGETS), gen_script(rnd, "ascii", idx=i), m, False, no_dump)


# ----------------------------------------------------------------------------------------------- D: sdp <directory>
DIR_LOCS = [("plain", "ddls"), ("dotted", "ddl.v2"), ("dot-slash", "./in"), ("abs-dotted", "{abs}/in.d"), ("trailing-slash", "ddls/"), ("cwd", "."), ("nested", "nested/in.put"), ("sibling", "../sib.d"),
            # legitimate directory names that are special to glob / fnmatch
            ("brackets", "release[2024]"), ("star", "v*final"), ("question", "what?")]


def one_cli_dir_case(env, set_name, key, files, dloc, target, mode, v, no_dump, sub=False):
    """files: list of (base, segs, text, accepted)"""
    ck, rnd = env.ck, env.rnd
    did, dtpl = dloc
    tid, ttpl, tstate = target
    case = Case(env)
    try:
        dpath = case.arg(dtpl)
        targ = case.arg(ttpl) if ttpl is not None else None
        os.makedirs(case.real(dpath), exist_ok=True)
        for base, segs, text, acc in files:
            case.put(os.path.join(case.real(dpath), fname(base, segs)), text.encode("utf-8"))
        tdir = case.prepare_target(targ, tstate, [f[0] for f in files if f[3]])
        before = case.tree()
        run_kw = {"output_mode": mode} if mode is not None else {}
        exp = {f[0]: env.ref(f[2], None, **run_kw) for f in files if f[3]}
        if any(r[0] != "ok" for r in exp.values()):
            return
        argv = cli_argv(rnd, dpath, targ, mode, v, no_dump)
        res, stdout = run_cli(argv, case.cwd, sub)
        after = case.tree()
        shown = [a.replace(case.dir, "<case>") for a in argv]
        names = [fname(f[0], f[1]) for f in files]
        info = dict(directory=case.rel(dpath), files={fname(f[0], f[1]): f[2] for f in files}, ddl="\n".join(f[2] for f in files), argv=shown, subprocess=sub, target_state=tstate,
                    run=dict(output_mode=mode or "sql"), observed=res, stdout=stdout[-400:])
        if res[0] != "ok":
            ck.fail(set_name, key, "c19:cli-dir-raises", info)
            return
        rel = lambda b: os.path.relpath(os.path.join(tdir, b + "_schema.json"), case.dir)  # noqa
        if no_dump:
            probs = nodump_problems(before, after)
        else:
            probs = dump_problems(before, after, {rel(b): as_json(r[1]) for b, r in exp.items()}, allowed_dirs=[os.path.relpath(tdir, case.dir)])
        if probs:
            kind, detail = probs[0]
            cls = "c19:cli-dir-" + kind
            if kind in ("dump-file-name", "dump-not-written"):
                segs = [f[1] for f in files if rel(f[0]) == detail["expected_file"]][0]
                cls = "c19:cli-dir-%s:%s" % ("file-skipped" if kind == "dump-not-written" else kind, namekind(segs))
            elif kind == "dump-extra-files":
                foreign = [f for f in files if not f[3] and rel(f[0]) in detail["created"]]
                if foreign:
                    cls = "c19:cli-dir-foreign-file-processed:%s" % (".".join(foreign[0][1]) or "no-dot")
            ck.fail(set_name, key, cls, {**info, "expected": {rel(b): r[1] for b, r in exp.items()}, "names": names, **detail})
            return
        if v or no_dump:
            bad = check_printed(stdout, [r[1] for r in exp.values()])
            if bad:
                ck.fail(set_name, key, "c19:cli-dir-printed-result-" + bad, dict(info, expected=[r[1] for r in exp.values()]))
                return
        ck.ok(set_name, key, dict(argv=shown, names=names))
    finally:
        case.close()


def gen_dir(env, i, big):
    rnd = env.rnd
    k_acc = rnd.randint(0 if i % 9 == 8 else 1, 8 if big else 4)
    k_for = rnd.randint(0, 4 if big else 3)
    bases = rnd.sample(BASES + ["b%d" % j for j in range(8)], k_acc + k_for)
    files = []
    for j, b in enumerate(bases):
        acc = j < k_acc
        if not acc and rnd.random() < 0.25:
            b, segs = rnd.choice(FOREIGN_BARE), []
            if any(f[0] == b for f in files):
                continue
        else:
            segs = rnd.choice(SEGS_ACCEPTED if acc else SEGS_FOREIGN)
        files.append((b, segs, gen_script(rnd, rnd.choice(ALL_FAMS), idx=i * 10 + j), acc))
    rnd.shuffle(files)
    return files


def set_d(env):
    ck, rnd = env.ck, env.rnd
    quick = ck.quick()
    n = 60 if quick else 800
    for i in range(n):
        files = gen_dir(env, i, big=not quick and i % 4 == 0)
        dloc = DIR_LOCS[i % len(DIR_LOCS)] if i < 2 * len(DIR_LOCS) else rnd.choice(DIR_LOCS)
        target = TARGETS[i % len(TARGETS)] if i < 2 * len(TARGETS) else rnd.choice(TARGETS)
        mode = ([None] + MODES)[i % 16] if i < 32 else rnd.choice([None] + MODES)
        v, no_dump = rnd.random() < 0.35, rnd.random() < 0.25
        one_cli_dir_case(env, "cli-directory", (i, tuple(sorted(fname(f[0], f[1]) for f in files)), dloc[0], target[0], mode, v, no_dump), files, dloc, target, mode, v, no_dump)


# ----------------------------------------------------------------------------------------------- E: the command as a separate process
def set_e(env):
    ck, rnd = env.ck, env.rnd
    quick = ck.quick()
    names = all_names()
    for i in range(6 if quick else 40):
        name = names[(i * 5 + 4) % len(names)]
        mode = rnd.choice([None] + MODES)
        v, no_dump = rnd.random() < 0.4, i % 3 == 2
        one_cli_file_case(env, "cli-subprocess/file", (i, fname(*name), mode, v, no_dump), name, rnd.choice(LOCS), rnd.choice(TARGETS), gen_script(rnd, rnd.choice(ALL_FAMS), idx=i), mode, v, no_dump, sub=True)
        env.stats["subprocess_runs"] += 1
    for i in range(4 if quick else 25):
        files = gen_dir(env, 1000 + i, big=False)
        mode = rnd.choice([None] + MODES)
        v, no_dump = rnd.random() < 0.4, i % 4 == 3
        one_cli_dir_case(env, "cli-subprocess/directory", (i, tuple(sorted(fname(f[0], f[1]) for f in files)), mode, v, no_dump), files, rnd.choice(DIR_LOCS), rnd.choice(TARGETS), mode, v, no_dump, sub=True)
        env.stats["subprocess_runs"] += 1


def check(ck):
    logging.disable(logging.CRITICAL)
    root = tempfile.mkdtemp(prefix="c19_")
    old = os.getcwd()
    env = Env(ck, root)
    try:
        set_a(env)
        set_b(env)
        set_c(env)
        set_d(env)
        set_e(env)
    finally:
        os.chdir(old)
        shutil.rmtree(root, ignore_errors=True)
        logging.disable(logging.NOTSET)
    ck.notes["c19_non_vacuity"] = env.stats
    ck.notes["c19_not_asserted"] = ["letter case of extensions in directory mode", "names ending in a dot / starting with a dot", "sub-directories in directory mode",
                                    "state of the target directory when the API raises", "stdout when neither -v nor --no-dump is given", "default locale encoding (encoding=None)",
                                    "CRLF files (text-mode newline translation; the in-memory API gives different answers for \\r\\n and \\n texts)"]
    rule = ("temp-dir runs of parse_from_file / DDLParser.run(file_path=) / the sdp command against the in-memory API on a fresh object. Inputs: generated scripts (tables with non-ASCII words in "
            "comments, string literals, quoted names; repository statement kinds; optional unparsable statement) and the regression corpus x %d encodings (utf-8/16/32 with and without BOM, latin-1, cp1251, "
            "cp1252, koi8-r, iso8859-5/15, cp866, ascii, alias spellings; cross-codec files) x %d parser_settings variants (incl. falsy values) x run kwargs (15 modes, group_by_type, json_dump) x "
            "file names built from (base, dotted segments) (no dot, one, several dots; spaces; non-ASCII; upper-case extension) x %d input locations (./, dotted parents, absolute, ../) x %d target kinds "
            "(default schemas, missing, nested missing, existing empty, existing with other files and a stale dump, trailing slash, dotted, absolute, '.') x command flags (-t/--target[=], -o/--output-mode[=], -v, --no-dump, "
            "any order) x directory mode (1-8 accepted files incl. multi-dot names + foreign names such as x.sql.bak, w.xsql, bare 'sql'). Contract: same return value or same exception type and message; "
            "exactly one new file <target>/<base up to first dot>_schema.json whose JSON equals the result (stale content replaced), nothing else created, changed or deleted, input untouched; --no-dump leaves the "
            "tree unchanged; -v/--no-dump print the result; directory mode == one API call per .sql/.ddl/.hql/.bql file and none for the others; unknown -o rejected like the API"
            % (len(ENCODINGS), len(SETTINGS), len(LOCS), len(TARGETS)))
    bound = "tier %s: %s; scripts of 1-%d statements, tables of 1-%d columns; %d subprocess runs" % (
        ck.tier, ", ".join("%s=%d" % kv for kv in sorted(ck.sets.items())), 3 if ck.quick() else 6, 5 if ck.quick() else 12, env.stats["subprocess_runs"])
    return rule, bound
