"""C15 BOUNDED stand-in: parser objects do not interfere, sequentially or across threads.

Oracle from the statement: whatever the interleaving of {construct, run} operations of several DDLParser objects (and
under concurrent threads), each run() returns what that object returns when it is the only parser in the process
(reference: a fresh object constructed and run with nothing in between)."""
import itertools
import threading

from bounded import stmts as S
from bounded.common import corpus, jdump

SCRIPTS = [
    ("CREATE TABLE [dbo].[TO_Requests] (\n    [Request_ID] [int] NOT NULL,\n    [user_id] [int]\n);", dict(normalize_names=True)),
    ('CREATE TABLE "accounts" (\n    "id" int PRIMARY KEY,\n    "name" varchar(20) DEFAULT \'x\'\n);\nCREATE INDEX "ix" ON "accounts" ("name");', dict()),
    ("CREATE TABLE orders (id int, qty int);\nALTER TABLE orders ADD price decimal(8,2);\nSELECT a ^ b FROM orders;", dict(silent=True)),
    ("CREATE SEQUENCE dev.ids INCREMENT BY 5 START WITH 10;\nCREATE TABLE t2 (`a` int, `b` text);", dict(normalize_names=True)),
    ("ALTER TABLE shop.orders ADD CONSTRAINT fk FOREIGN KEY (cid) REFERENCES customers (id);", dict()),      # table not defined here: raises
    ("CREATE TABLE shop.orders (id int, cid int);\nCREATE INDEX i1 ON shop.orders (cid);", dict()),
    ("CREATE TABLE x (a int) STORED AS PARQUET LOCATION 's3://b/x';\n-- trailing comment", dict()),
    ("CREATE PABLE broken (a int);", dict(silent=False)),
]


def solo(ddl, ctor, run_kw):
    from simple_ddl_parser import DDLParser
    try:
        return ("ok", DDLParser(ddl, **ctor).run(**run_kw))
    except Exception as e:  # noqa
        return ("exc", type(e).__name__, str(e)[:160])


def check(ck):
    from simple_ddl_parser import DDLParser
    rnd = ck.rnd
    cp = [d for _, d in corpus()]
    pool = SCRIPTS + [(d, dict()) for d in (cp[::9] if ck.quick() else cp[::3])]
    run_kws = [dict(), dict(output_mode="hql"), dict(group_by_type=True), dict(output_mode="bigquery", group_by_type=True)]
    ref = {}

    def reference(i, k):
        if (i, k) not in ref:
            ref[(i, k)] = solo(pool[i][0], pool[i][1], run_kws[k])
        return ref[(i, k)]

    # (i) every interleaving of construct / run (run possibly twice) for 2 objects; sampled for 3 objects
    def interleavings(n, runs):
        ops = []
        for o in range(n):
            ops.append([("c", o)] + [("r", o)] * runs)
        seqs = set()

        def rec(pos, acc):
            if all(pos[o] == len(ops[o]) for o in range(n)):
                seqs.add(tuple(acc))
                return
            for o in range(n):
                if pos[o] < len(ops[o]):
                    pos[o] += 1
                    rec(pos, acc + [ops[o][pos[o] - 1]])
                    pos[o] -= 1
        rec([0] * n, [])
        return sorted(seqs)
    plans = [(2, 1, interleavings(2, 1)), (2, 2, interleavings(2, 2))]
    three = interleavings(3, 1)
    plans.append((3, 1, three if not ck.quick() else rnd.sample(three, 12)))
    n_sets = 10 if ck.quick() else 60
    for n, runs, seqs in plans:
        for s in range(n_sets):
            fixed = [[5, 4], [4, 5], [0, 3], [1, 0], [2, 7]]     # defining / using object pairs, differing flags
            objs_idx = (fixed[s] + rnd.sample(range(len(pool)), n))[:n] if s < len(fixed) else rnd.sample(range(len(pool)), n)
            ks = [rnd.randrange(len(run_kws)) for _ in range(n)]
            for seq in seqs:
                objs, results = {}, {}
                key = (n, runs, tuple(objs_idx), tuple(ks), seq)
                bad = None
                for op, o in seq:
                    if op == "c":
                        try:
                            objs[o] = DDLParser(pool[objs_idx[o]][0], **pool[objs_idx[o]][1])
                        except Exception as e:  # noqa
                            bad = "construct raised %s" % type(e).__name__
                            break
                    else:
                        try:
                            got = ("ok", objs[o].run(**run_kws[ks[o]]))
                        except Exception as e:  # noqa
                            got = ("exc", type(e).__name__, str(e)[:160])
                        exp = reference(objs_idx[o], ks[o])
                        if jdump(list(got)) != jdump(list(exp)):
                            bad = "object %d differs from running alone" % o
                            results = dict(observed=got, expected=exp, ddl=pool[objs_idx[o]][0], ctor=pool[objs_idx[o]][1], run=run_kws[ks[o]])
                            break
                if bad:
                    ck.fail("interleavings", key, "c15:interleaving-changes-result", dict(problem=bad, sequence=[list(x) for x in seq],
                                                                                          scripts=[pool[i][0][:200] for i in objs_idx], **results))
                else:
                    ck.ok("interleavings", key, dict(sequence=[list(x) for x in seq]))
    # (ii) concurrent threads: construct + run in each thread, several rounds
    n_rounds = 6 if ck.quick() else 40
    for rd in range(n_rounds):
        idxs = [rnd.randrange(len(pool)) for _ in range(8)]
        ks = [rnd.randrange(len(run_kws)) for _ in range(8)]
        out = [None] * 8
        barrier = threading.Barrier(8)

        def work(j):
            barrier.wait()
            for _ in range(3):
                out[j] = solo(pool[idxs[j]][0], pool[idxs[j]][1], run_kws[ks[j]])
        ths = [threading.Thread(target=work, args=(j,)) for j in range(8)]
        [t.start() for t in ths]
        [t.join() for t in ths]
        for j in range(8):
            exp = reference(idxs[j], ks[j])
            if jdump(list(out[j])) != jdump(list(exp)):
                ck.fail("threads", (rd, j, idxs[j], ks[j]), "c15:concurrent-run-differs", dict(ddl=pool[idxs[j]][0], ctor=pool[idxs[j]][1], run=run_kws[ks[j]], observed=out[j], expected=exp))
            else:
                ck.ok("threads", (rd, j, idxs[j], ks[j]))
    return ("all interleavings of {construct, run[, run]} for 2 parser objects and (sampled) for 3, over scripts with different flags (normalize_names, silent), ALTER / INDEX on tables defined "
            "only in another object, failing scripts; 8 concurrent threads constructing and running; contract: every run() equals the same object's solo result",
            "%d object sets x (6 + 90 + %d) interleavings; %d rounds x 8 threads x 3 runs" % (n_sets, len(plans[2][2]), n_rounds))
