"""C11 bounded stand-in: dialect clauses written after the column list are captured under their documented key
(top level in the owning dialect's mode, under table_properties in the default mode), combine without overwriting
one another, and leave the rest of the table exactly as without them.

Oracle (never a snapshot of today's output of the clause-carrying statement):
  * the clause catalogue below maps an abstract clause (kind + generated value) to its text and to the key/value the
    property statement documents for it;
  * metamorphic part: result(body + clauses) == result(body) with exactly the catalogue's keys added.
"""
import copy
import itertools

from bounded.common import entities, jdump, parse

# ----------------------------------------------------------------------------------------------------------------------
# table bodies (abstract description -> text); the body itself is only sanity-checked (names), C01/C02 own the rest
# ----------------------------------------------------------------------------------------------------------------------
FIRST_COLS = [("id", "int NOT NULL"), ("name", "varchar(40)"), ("amount", "decimal(10,2) DEFAULT 0"), ("created_at", "timestamp"),
              ("region", "varchar(8) NOT NULL"), ("flag", "char(1) DEFAULT 'N'"), ("qty", "bigint"), ("day", "date")]
# columns named like keywords of the after-columns token table (the body alone parses them; they are never referenced from a clause)
KW_COLS = [("location", "varchar(10)"), ("engine", "int"), ("stored", "int NOT NULL"), ("format", "varchar(3)"), ("tablespace", "varchar(5)"), ("storage", "int"),
           ("partition", "int"), ("options", "varchar(9) DEFAULT 'o'"), ("using", "int"), ("in", "int"), ("comment", "varchar(100)"), ("on", "int"), ("tag", "int")]

# the last element inside the column list: (slug, text using {a} {b} = first two column names, adds a column named c_last?)
ENDINGS = [
    ("plain", "c_last int", True),
    ("sized", "c_last varchar(20)", True),
    ("sized2", "c_last decimal(12,4)", True),
    ("not-null", "c_last int NOT NULL", True),
    ("null", "c_last int NULL", True),
    ("default-int", "c_last int DEFAULT 0", True),
    ("default-str", "c_last varchar(5) DEFAULT 'x'", True),
    ("default-call", "c_last timestamp DEFAULT now()", True),
    ("not-null-default", "c_last int NOT NULL DEFAULT 1", True),
    ("pk", "c_last int PRIMARY KEY", True),
    ("unique", "c_last int UNIQUE", True),
    ("ref", "c_last int REFERENCES r (k)", True),
    ("ref-schema", "c_last int REFERENCES o.r (k)", True),
    ("col-check", "c_last int CHECK (c_last > 0)", True),
    ("col-comment", "c_last int COMMENT 'cc'", True),
    ("ref-on-delete", "c_last int REFERENCES r (k) ON DELETE CASCADE", True),
    ("ref-on-update-delete", "c_last int REFERENCES r (k) ON UPDATE CASCADE ON DELETE CASCADE", True),
    ("auto-increment", "c_last int AUTO_INCREMENT", True),
    ("collate", "c_last varchar(5) COLLATE utf8_bin", True),
    ("generated", "c_last int GENERATED ALWAYS AS ({a} * 2)", True),
    ("encode", "c_last int ENCODE zstd", True),
    ("array-type", "c_last array<string>", True),
    ("map-type", "c_last map<string, int>", True),
    ("struct-type", "c_last struct<x:int, y:string>", True),
    ("pg-array", "c_last int[]", True),
    ("with-time-zone", "c_last timestamp with time zone", True),
    ("t-pk", "PRIMARY KEY ({a})", False),
    ("t-pk2", "PRIMARY KEY ({a}, {b})", False),
    ("t-unique", "UNIQUE ({b})", False),
    ("t-cpk", "CONSTRAINT pk_t PRIMARY KEY ({a})", False),
    ("t-cuq", "CONSTRAINT uq_t UNIQUE ({a}, {b})", False),
    ("t-fk", "FOREIGN KEY ({b}) REFERENCES r (k)", False),
    ("t-cfk", "CONSTRAINT fk_t FOREIGN KEY ({b}) REFERENCES o.r (k)", False),
    ("t-check", "CONSTRAINT ck_t CHECK ({a} > 0)", False),
]
ENDING_BY_SLUG = {e[0]: e for e in ENDINGS}

HEADERS = {  # slug -> text before the table name
    "plain": "CREATE TABLE",
    "ine": "CREATE TABLE IF NOT EXISTS",
    "lower": "create table",
    "external": "CREATE EXTERNAL TABLE",
    "replace": "CREATE OR REPLACE TABLE",
    "temp": "CREATE TEMPORARY TABLE",
    "transient-ine": "CREATE TRANSIENT TABLE IF NOT EXISTS",
}
TABLE_NAMES = [(None, "t_main"), ("s1", "orders"), (None, "Events"), ("dw", "fact_sales_2024"), ("s1", "x"), ("[dbo]", "[Orders]"), ('"sch"', '"Tbl"'), ("`db1`", "`t2`")]


class Body:
    """abstract table: header, schema, name, 2..n leading columns, one ending"""

    def __init__(self, header, schema, name, cols, ending, layout):
        self.header, self.schema, self.name, self.cols, self.ending, self.layout = header, schema, name, cols, ending, layout
        _, text, adds = ENDING_BY_SLUG[ending]
        self.col_names = [c[0] for c in cols] + (["c_last"] if adds else [])
        kw = set(c[0] for c in KW_COLS)
        self.ref_cols = [c for c in self.col_names if c not in kw]   # columns a clause may name
        self.items = ["%s %s" % c for c in cols] + [text.format(a=cols[0][0], b=cols[1][0])]

    def text(self):
        full = "%s.%s" % (self.schema, self.name) if self.schema else self.name
        if self.layout == 0:
            return "%s %s (%s)" % (HEADERS[self.header], full, ", ".join(self.items))
        if self.layout == 1:
            return "%s %s (\n    %s\n)" % (HEADERS[self.header], full, ",\n    ".join(self.items))
        return "%s %s\n(\n    %s\n  )" % (HEADERS[self.header], full, "\n  , ".join(self.items))

    def key(self):
        return (self.header, self.schema, self.name, tuple(c[0] for c in self.cols), self.ending, self.layout)


def random_body(rnd, ending=None, ncols=None, name=None):
    n = ncols or rnd.choice([2, 2, 3, 4, 6, 8])
    cols = rnd.sample(FIRST_COLS, n)
    extra = rnd.sample(KW_COLS, rnd.choice([0, 0, 1, 2]))
    for c in extra:  # the first two columns stay plain (the endings name them)
        cols.insert(rnd.randint(2, len(cols)), c)
    schema, nm = name or rnd.choice(TABLE_NAMES)
    return Body(rnd.choice(list(HEADERS)), schema, nm, cols, ending or rnd.choice(ENDINGS)[0], rnd.randrange(3))


# ----------------------------------------------------------------------------------------------------------------------
# clause catalogue.  A clause instance = (clause id, text, {key: value}, placement, keyword spelling)
# placement: 'base'  - key is a field of every table (top level in every mode)
#            'field' - top level in the owning mode, under table_properties in the default mode
#            'props' - under table_properties in the default mode; the library also keeps it there in the owning mode
#                      (pinned by its unit tests), so in the owning mode either place is accepted
# ----------------------------------------------------------------------------------------------------------------------
IDENTS = ["ts_main", "fg2", "Data01", "x9", "users_space", "a1", "SECONDARY", '"Ts_Q"']
PATHS = ["s3://bucket/path/t1", "/user/hive/warehouse/db.db/t", "hdfs://nn:8020/data/x_1", "gs://b-1/dir.2/", "wasb://c@acc/p"]
WORDS = ["weekly sales", "t1", "Raw events 2024", "x", "do not drop!"]
DELIMS = ["|", ":", "$", "~", "^", "!", "@", "%"]
DQ_WORDS = ['"customer\'s orders"', '"it\'s"', '"plain words"']       # double-quoted values; an apostrophe inside is text


def _q(s):
    return "'%s'" % s


def _kw(text, style):
    """keyword spelling: 0 upper, 1 lower, 2 Title"""
    return text if style == 0 else (text.lower() if style == 1 else " ".join(w[:1].upper() + w[1:].lower() for w in text.split(" ")))


class Clause:
    def __init__(self, cid, group, placement, make, multi_col=False):
        self.cid, self.group, self.placement, self.make, self.multi_col = cid, group, placement, make, multi_col


def _mk_stored_as(rnd, b, st):
    v = rnd.choice(["PARQUET", "ORC", "TEXTFILE", "parquet", "Avro", "SEQUENCEFILE", "RCFILE"])
    return "%s %s" % (_kw("STORED AS", st), v), {"stored_as": v}


def _mk_stored_as_io(rnd, b, st):
    i, o = rnd.choice(["org.apache.hadoop.mapred.TextInputFormat", "com.x.In"]), rnd.choice(["org.apache.hadoop.hive.ql.io.HiveIgnoreKeyTextOutputFormat", "com.x.Out"])
    return "%s %s %s %s" % (_kw("STORED AS INPUTFORMAT", st), _q(i), _kw("OUTPUTFORMAT", st), _q(o)), {"stored_as": {"inputformat": _q(i), "outputformat": _q(o)}}


def _mk_location(rnd, b, st):
    v = _q(rnd.choice(PATHS))
    return "%s %s" % (_kw("LOCATION", st), v), {"location": v}


def _mk_row_format_delimited(rnd, b, st):
    return _kw("ROW FORMAT DELIMITED", st), {"row_format": "DELIMITED" if st == 0 else _kw("DELIMITED", st)}


def _mk_row_format_serde(rnd, b, st):
    v = _q(rnd.choice(["org.apache.hadoop.hive.serde2.OpenCSVSerde", "org.openx.data.jsonserde.JsonSerDe", "com.x.Serde"]))
    return "%s %s" % (_kw("ROW FORMAT SERDE", st), v), {"row_format": {"serde": True, "java_class": v}}


def _mk_terminated(prefix, key):
    def mk(rnd, b, st):
        v = _q("," if (prefix == "FIELDS" and rnd.random() < 0.3) else rnd.choice(DELIMS))
        return "%s %s" % (_kw(prefix + " TERMINATED BY", st), v), {key: v}
    return mk


def _mk_tblproperties(rnd, b, st):
    n = rnd.choice([1, 1, 2, 3])
    ks = rnd.sample(["transactional", "orc.compress", "skip.header.line.count", "creator", "EXTERNAL"], n)
    vs = [rnd.choice(["true", "SNAPPY", "1", "etl_user", "TRUE"]) for _ in ks]
    return "%s (%s)" % (_kw("TBLPROPERTIES", st), ", ".join("%s=%s" % (_q(k), _q(v)) for k, v in zip(ks, vs))), {"tblproperties": {_q(k): _q(v) for k, v in zip(ks, vs)}}


def _mk_partitioned_by(rnd, b, st):
    n = rnd.choice([1, 1, 2, 3])
    names = rnd.sample(["dt", "country", "p_year", "p_month", "batch"], n)
    types = [rnd.choice([("string", "string", None), ("int", "int", None), ("date", "date", None), ("varchar(10)", "varchar", 10)]) for _ in names]
    return ("%s (%s)" % (_kw("PARTITIONED BY", st), ", ".join("%s %s" % (nm, t[0]) for nm, t in zip(names, types))),
            {"partitioned_by": [{"name": nm, "type": t[1], "size": t[2]} for nm, t in zip(names, types)]})


def _mk_clustered_by(rnd, b, st):
    cols = rnd.sample(b.ref_cols, rnd.choice([1, 1, 2]))
    n = rnd.choice([2, 4, 16, 256])
    return "%s (%s) %s %d %s" % (_kw("CLUSTERED BY", st), ", ".join(cols), _kw("INTO", st), n, _kw("BUCKETS", st)), {"clustered_by": cols, "into_buckets": n}


def _mk_comment(rnd, b, st):
    v = _q(rnd.choice(WORDS))
    return "%s %s" % (_kw("COMMENT", st), v), {"comment": v}


def _mk_eq(word, key, values, glue=None):
    def mk(rnd, b, st):
        v = rnd.choice(values)
        g = glue if glue is not None else rnd.choice(["=", " = "])
        return "%s%s%s" % (_kw(word, st), g, v), {key: v}
    return mk


def _mk_tablespace(rnd, b, st):
    v = rnd.choice(IDENTS)
    return "%s %s" % (_kw("TABLESPACE", st), v), {"tablespace": {"tablespace_name": v, "properties": None, "type": None, "temporary": False}}


def _mk_storage(rnd, b, st):
    ks = rnd.sample(["INITIAL", "NEXT", "MINEXTENTS", "MAXEXTENTS", "PCTINCREASE"], rnd.choice([1, 2, 3]))
    vs = [rnd.choice(["5m", "64K", "1", "UNLIMITED", "0"]) for _ in ks]
    return "%s (%s)" % (_kw("STORAGE", st), " ".join("%s %s" % kv for kv in zip(ks, vs))), {"storage": {k.lower(): v for k, v in zip(ks, vs)}}


def _mk_organization_index(rnd, b, st):
    return _kw("ORGANIZATION INDEX", st), {"organization_index": True}


def _mk_diststyle(rnd, b, st):
    v = rnd.choice(["EVEN", "KEY", "ALL", "AUTO", "even"])
    return "%s %s" % (_kw("DISTSTYLE", st), v), {"diststyle": v}


def _mk_distkey(rnd, b, st):
    c = rnd.choice(b.ref_cols)
    return "%s (%s)" % (_kw("DISTKEY", st), c), {"distkey": c}


def _mk_cluster_by_par(rnd, b, st):
    cols = rnd.sample(b.ref_cols, rnd.choice([1, 2, 2, 3]) if len(b.ref_cols) >= 3 else 1)
    return "%s (%s)" % (_kw("CLUSTER BY", st), ", ".join(cols)), {"cluster_by": cols}


def _mk_cluster_by_bare(n_cols):
    def mk(rnd, b, st):
        cols = rnd.sample(b.ref_cols, n_cols)
        return "%s %s" % (_kw("CLUSTER BY", st), ", ".join(cols)), {"cluster_by": cols}
    return mk


def _mk_int_eq(word, key):
    def mk(rnd, b, st):
        v = rnd.choice([0, 1, 7, 30, 90])
        return "%s%s%d" % (_kw(word, st), rnd.choice(["=", " = "]), v), {key: v}
    return mk


def _mk_change_tracking(rnd, b, st):
    v = rnd.choice(["TRUE", "FALSE", "true", "false"])
    return "%s%s%s" % (_kw("CHANGE_TRACKING", st), rnd.choice(["=", " = "]), v), {"change_tracking": v.lower() == "true"}


def _mk_with_tag(rnd, b, st):
    n = rnd.choice([1, 1, 2])
    names = rnd.sample(["cost_center", "db1.sch.pii", "sch.owner_tag", "env"], n)
    vals = [rnd.choice(["finance", "tag1", "prod", "x_1"]) for _ in names]
    items = ["%s=%s" % (nm, _q(v)) for nm, v in zip(names, vals)]
    return "%s (%s)" % (_kw("WITH TAG", st), ", ".join(items)), {"with_tag": items[0] if n == 1 else items}


def _mk_on(rnd, b, st):
    v = rnd.choice(["[PRIMARY]", "[fg_data]", "fg2", "[SECONDARY]"])
    return "%s %s" % (_kw("ON", st), v), {"on": v}


def _mk_textimage_on(rnd, b, st):
    v = rnd.choice(["[PRIMARY]", "[fg_lob]", "fg3"])
    return "%s %s" % (_kw("TEXTIMAGE_ON", st), v), {"textimage_on": v}


def _mk_with_options(rnd, b, st):
    n = rnd.choice([1, 1, 2, 3])
    ks = rnd.sample(["DATA_COMPRESSION", "SYSTEM_VERSIONING", "LEDGER", "FILLFACTOR", "PAD_INDEX"], n)
    vs = [rnd.choice(["PAGE", "ROW", "OFF", "80", "NONE"]) for _ in ks]
    return ("%s (%s)" % (_kw("WITH", st), ", ".join("%s = %s" % kv for kv in zip(ks, vs))),
            {"with": {"properties": [{"name": k, "value": v} for k, v in zip(ks, vs)], "on": None}})


def _mk_options(rnd, b, st):
    n = rnd.choice([1, 1, 2, 3])
    ks = rnd.sample(["description", "friendly_name", "kms_key_name", "labels_x"], n)
    vs = [rnd.choice([_q(rnd.choice(WORDS)), _q(rnd.choice(WORDS)), rnd.choice(DQ_WORDS)]) for _ in ks]
    return "%s (%s)" % (_kw("OPTIONS", st), ", ".join("%s=%s" % kv for kv in zip(ks, vs))), {"options": [{k: v} for k, v in zip(ks, vs)]}


def _mk_partition_by_col(rnd, b, st):
    c = rnd.choice(b.ref_cols)
    return "%s %s" % (_kw("PARTITION BY", st), c), {"partition_by": {"columns": [c], "type": None}}


def _mk_partition_by_func(rnd, b, st):
    c = rnd.choice(b.ref_cols)
    f = rnd.choice(["DATE", "TIMESTAMP_TRUNC", "DATE_TRUNC", "DATETIME_TRUNC"])
    if f == "DATE":
        return "%s DATE(%s)" % (_kw("PARTITION BY", st), c), {"partition_by": {"columns": [c], "type": "DATE"}}
    u = rnd.choice(["MONTH", "DAY", "YEAR", "HOUR"])
    return "%s %s(%s, %s)" % (_kw("PARTITION BY", st), f, c, u), {"partition_by": {"columns": [c], "type": f, "trunc_by": u}}


def _mk_partition_by_method(rnd, b, st):
    m = rnd.choice(["RANGE", "LIST", "HASH"])
    cols = rnd.sample(b.ref_cols, min(len(b.ref_cols), rnd.choice([1, 2, 2, 3])))
    return "%s %s (%s)" % (_kw("PARTITION BY", st), m, ", ".join(cols)), {"partition_by": {"columns": cols, "type": m}}


def _mk_inherits(rnd, b, st):
    s, t = rnd.choice([(None, "parent_t"), ("public", "identifier"), ("s1", "base_orders")])
    return "%s (%s)" % (_kw("INHERITS", st), "%s.%s" % (s, t) if s else t), {"inherits": {"schema": s, "table_name": t}}


def _mk_using(rnd, b, st):
    v = rnd.choice(["parquet", "CSV", "iceberg", "DELTA", "orc"])
    return "%s %s" % (_kw("USING", st), v), {"using": v}


def _mk_in(rnd, b, st):
    v = rnd.choice(IDENTS)
    return "%s %s" % (_kw("IN", st), v), {"tablespace": v}


def _mk_index_in(rnd, b, st):
    v = rnd.choice(IDENTS)
    return "%s %s" % (_kw("INDEX IN", st), v), {"index_in": v}


def _mk_organize_by(rnd, b, st):
    v = rnd.choice(["ROW", "COLUMN"])
    return "%s %s" % (_kw("ORGANIZE BY", st), v), {"organize_by": v}


CATALOGUE = [
    # Hive
    Clause("stored-as", "hql", "field", _mk_stored_as),
    Clause("stored-as-io", "hql", "field", _mk_stored_as_io),
    Clause("location", "hql", "field", _mk_location),
    Clause("row-format-delimited", "hql", "field", _mk_row_format_delimited),
    Clause("row-format-serde", "hql", "field", _mk_row_format_serde),
    Clause("fields-terminated", "hql", "field", _mk_terminated("FIELDS", "fields_terminated_by")),
    Clause("lines-terminated", "hql", "field", _mk_terminated("LINES", "lines_terminated_by")),
    Clause("map-keys-terminated", "hql", "field", _mk_terminated("MAP KEYS", "map_keys_terminated_by")),
    Clause("collection-items-terminated", "hql", "field", _mk_terminated("COLLECTION ITEMS", "collection_items_terminated_by")),
    Clause("tblproperties", "hql", "field", _mk_tblproperties),
    Clause("partitioned-by", "hql", "base", _mk_partitioned_by),
    Clause("clustered-by", "hql", "field", _mk_clustered_by),
    Clause("comment", "hql", "base", _mk_comment),
    # MySQL
    Clause("engine", "mysql", "field", _mk_eq("ENGINE", "engine", ["InnoDB", "MyISAM", "MEMORY", "innodb"])),
    Clause("default-charset", "mysql", "field", _mk_eq("DEFAULT CHARSET", "default_charset", ["utf8", "utf8mb4", "latin1"])),
    Clause("auto-increment", "mysql", "field", _mk_int_eq("AUTO_INCREMENT", "auto_increment")),
    # Oracle
    Clause("tablespace", "oracle", "base", _mk_tablespace),
    Clause("storage", "oracle", "field", _mk_storage),
    Clause("organization-index", "oracle", "field", _mk_organization_index),
    # Redshift
    Clause("diststyle", "redshift", "field", _mk_diststyle),
    Clause("distkey", "redshift", "field", _mk_distkey),
    # Snowflake
    Clause("cluster-by-par", "snowflake", "field", _mk_cluster_by_par),
    Clause("comment-eq", "snowflake", "base", _mk_eq("COMMENT", "comment", [_q(w) for w in WORDS] + DQ_WORDS)),
    Clause("data-retention", "snowflake", "props", _mk_int_eq("DATA_RETENTION_TIME_IN_DAYS", "data_retention_time_in_days")),
    Clause("max-data-extension", "snowflake", "props", _mk_int_eq("MAX_DATA_EXTENSION_TIME_IN_DAYS", "max_data_extension_time_in_days")),
    Clause("change-tracking", "snowflake", "props", _mk_change_tracking),
    Clause("with-tag", "snowflake", "field", _mk_with_tag),
    # MSSQL
    Clause("on", "mssql", "field", _mk_on),
    Clause("textimage-on", "mssql", "field", _mk_textimage_on),
    Clause("with-options", "mssql", "field", _mk_with_options),
    # BigQuery
    Clause("options", "bigquery", "field", _mk_options),
    Clause("partition-by-col", "bigquery", "base", _mk_partition_by_col),
    Clause("partition-by-func", "bigquery", "base", _mk_partition_by_func),
    Clause("cluster-by-bare", "bigquery", "field", _mk_cluster_by_bare(1)),
    Clause("cluster-by-bare-multi", "bigquery", "field", _mk_cluster_by_bare(2), multi_col=True),
    # PostgreSQL
    Clause("inherits", "postgres", "field", _mk_inherits),
    Clause("partition-by-method", "postgres", "base", _mk_partition_by_method),
    # Spark
    Clause("using", "spark_sql", "props", _mk_using),
    # DB2
    Clause("in-tablespace", "ibm_db2", "base", _mk_in),
    Clause("index-in", "ibm_db2", "field", _mk_index_in),
    Clause("organize-by", "ibm_db2", "field", _mk_organize_by),
]
BY_ID = {c.cid: c for c in CATALOGUE}
GROUPS = {}
for _c in CATALOGUE:
    GROUPS.setdefault(_c.group, []).append(_c)


def _keys_of(clause):
    """keys a clause writes (for compatibility: two clauses writing the same key are not combined)"""
    import random
    return set(clause.make(random.Random(0), Body("plain", None, "t", FIRST_COLS[:3], "plain", 0), 0)[1])


CLAUSE_KEYS = {c.cid: _keys_of(c) for c in CATALOGUE}


def compatible(cids):
    seen = set()
    for cid in cids:
        if CLAUSE_KEYS[cid] & seen:
            return False
        seen |= CLAUSE_KEYS[cid]
    return True


# ----------------------------------------------------------------------------------------------------------------------
# one table statement with clauses
# ----------------------------------------------------------------------------------------------------------------------
class Stmt:
    def __init__(self, body, clauses, clause_layout):
        """clauses: list of (cid, text, expected dict, placement, keyword spelling)"""
        self.body, self.clauses, self.clause_layout = body, clauses, clause_layout

    def text(self, with_clauses=True):
        t = self.body.text()
        if with_clauses and self.clauses:
            sep = [" ", "\n", "\n    "][self.clause_layout]
            t += sep + sep.join(c[1] for c in self.clauses)
        return t + ";"


def make_stmt(rnd, body, cids, style=None, clause_layout=None, allow_defects=False):
    """allow_defects=False keeps the statement out of the input classes of DEFECT_CLASSES (they have their own sets)"""
    cids = list(cids)
    if not allow_defects:
        cids = ["cluster-by-bare" if c == "cluster-by-bare-multi" else c for c in cids]
        if "organization-index" in cids:  # the order every Oracle manual uses: ORGANIZATION INDEX first
            cids.remove("organization-index")
            cids.insert(0, "organization-index")
    cl = []
    for cid in cids:
        st = style if style is not None else rnd.choice([0, 0, 0, 1, 2])
        if cid == "default-charset" and st == 2 and not allow_defects:
            st = 1
        text, exp = BY_ID[cid].make(rnd, body, st)
        cl.append((cid, text, exp, BY_ID[cid].placement, st))
    return Stmt(body, cl, rnd.randrange(3) if clause_layout is None else clause_layout)


def _norm(x):
    """numbers are compared as written (the library keeps some as text): 4 == '4'"""
    if isinstance(x, bool) or x is None:
        return x
    if isinstance(x, (int, float)):
        return str(x)
    if isinstance(x, dict):
        return {k: _norm(v) for k, v in x.items()}
    if isinstance(x, (list, tuple)):
        return [_norm(v) for v in x]
    return x


_base_cache = {}


def _parse_cached(ddl, mode):
    k = (ddl, mode)
    if k not in _base_cache:
        if len(_base_cache) > 20000:
            _base_cache.clear()
        _base_cache[k] = parse(ddl, output_mode=mode)
    return copy.deepcopy(_base_cache[k])


# witness classes of defects of the unchanged tree; each is decided from the generated INPUT only
DEFECT_CLASSES = [
    # BigQuery "CLUSTER BY a, b" (no parentheses, two or more columns): after the column list a comma is lexed as a plain ID
    ("c11:bare-cluster-by-several-columns", lambda ids, cl: any(BY_ID[c].multi_col for c in ids)),
    # "ORGANIZATION INDEX" written directly after "TABLESPACE x" or "STORAGE (...)": swallowed by their open-ended 'id id' property lists
    ("c11:organization-index-after-tablespace-or-storage", lambda ids, cl: any(c == "organization-index" and i > 0 and ids[i - 1] in ("tablespace", "storage") for i, c in enumerate(ids))),
    # "Default Charset=x" spelled neither all-upper nor all-lower
    ("c11:default-charset-mixed-case-keyword", lambda ids, cl: any(c[0] == "default-charset" and c[4] == 2 for c in cl)),
]


def known_class(stmts, mode):
    for name, pred in DEFECT_CLASSES:
        for s in stmts:
            if pred([c[0] for c in s.clauses], s.clauses):
                return name
    return None


def _compare_table(fail, i, s, got, b, mode):
    """got: table i of the result for statement s (with clauses); b: the same table without clauses"""
    exp = copy.deepcopy(b)
    clause_keys = {}
    for cid, text, kv, placement, _st in s.clauses:
        for k, v in kv.items():
            top = placement == "base" or (placement == "field" and mode != "sql") or (placement == "props" and mode != "sql" and k in got)
            clause_keys[k] = (cid, top)
            if top:
                exp[k] = v
            else:
                exp.setdefault("table_properties", {})[k] = v
    g, e = _norm(got), _norm(exp)
    if jdump(g) == jdump(e):
        return True
    # --- classify the difference: clause keys first, then the rest of the table
    nb = _norm(b)
    gprops = g.get("table_properties") if isinstance(g.get("table_properties"), dict) else {}
    for k, (cid, top) in clause_keys.items():
        want = e[k] if top else e["table_properties"][k]
        kw = dict(table=i, clause=cid, clause_key=k, expected_value=want, observed=got, expected=exp)
        if top:
            if k in g and jdump(g[k]) == jdump(want):
                continue
            if k in gprops:
                return fail("c11:clause-wrong-placement", observed_place="table_properties", **kw)
            if k not in g or (k in nb and jdump(g[k]) == jdump(nb[k])):
                return fail("c11:clause-not-captured", **kw)
            return fail("c11:clause-wrong-value", observed_value=g[k], **kw)
        if k in gprops and jdump(gprops[k]) == jdump(want):
            continue
        if k not in gprops:
            if k in g and k not in nb:
                return fail("c11:clause-wrong-placement", observed_place="top level", **kw)
            return fail("c11:clause-not-captured", **kw)
        return fail("c11:clause-wrong-value", observed_value=gprops[k], **kw)
    for k in e:
        if k not in g:
            return fail("c11:body-key-lost", table=i, body_key=k, observed=got, expected=exp)
    for k in g:
        if k not in e:
            return fail("c11:unexpected-key", table=i, extra_key=k, extra_value=g[k], observed=got, expected=exp)
    if jdump(g.get("table_properties")) != jdump(e.get("table_properties")):
        extra = [k for k in gprops if k not in e.get("table_properties", {})]
        return fail("c11:unexpected-table-property", table=i, extra_keys=extra, observed=got, expected=exp)
    for k in e:
        if jdump(g[k]) != jdump(e[k]):
            return fail("c11:body-changed", table=i, body_key=k, observed_value=g[k], expected_value=e[k], observed=got, expected=exp)
    return True


def verify(ck, set_name, key, stmts, mode):
    """stmts: list of Stmt forming one script; checks every table of the script in `mode`.
    Reference for table i: the i-th statement WITHOUT its clauses, parsed alone by a fresh parser."""
    script = "\n\n".join(s.text() for s in stmts)
    run = dict(output_mode=mode)
    info = dict(ddl=script, run=run, clauses=[[c[0] for c in s.clauses] for s in stmts], body=[s.body.key() for s in stmts])
    schema_key = "dataset" if mode == "bigquery" else "schema"
    known = known_class(stmts, mode)

    def fail(cls, **kw):
        d = dict(info)
        d.update(kw)
        if known:
            d["generic_class"] = cls
        ck.fail(set_name, key, known or cls, d)
        return False

    # --- the bodies alone: one table each, named as generated, the generated columns in order (all the generator itself promises
    #     about a body; the rest of the body is compared with / without clauses)
    bents = []
    for s in stmts:
        base = _parse_cached(s.text(False), mode)
        e = entities(base[1])[0] if base[0] == "ok" else None
        if not (e and len(e) == 1 and isinstance(e[0], dict) and e[0].get("table_name") == s.body.name and e[0].get(schema_key) == s.body.schema
                and [c.get("name") for c in e[0].get("columns", [])] == s.body.col_names):
            return fail("c11:table-without-clauses-misparsed", ddl=s.text(False), ddl_with_clauses=script, observed=list(base),
                        expected=dict(table_name=s.body.name, schema=s.body.schema, columns=s.body.col_names))
        bents.append(e[0])

    r = parse(script, output_mode=mode)
    if r[0] != "ok":
        return fail("c11:exception", observed=list(r), expected="a result")
    ents, _ = entities(r[1])
    if len(ents) != len(stmts) or not all(isinstance(e, dict) and "table_name" in e for e in ents):
        return fail("c11:table-lost", observed=ents, expected="%d tables" % len(stmts))
    for i, (s, got, b) in enumerate(zip(stmts, ents, bents)):
        if not _compare_table(fail, i, s, got, b, mode):
            return False
    ck.ok(set_name, key, dict(ddl=script[:300], mode=mode))
    return True


def verify_with_neighbours(ck, set_name, key, parts, mode):
    """parts: Stmt objects and plain statement texts (ALTER / INDEX / SEQUENCE / DROP ... around the tables).
    Reference: the same script with the clauses removed; entity i of both results must agree up to the clause keys."""
    stmts = [x for x in parts if isinstance(x, Stmt)]
    script = "\n".join(x.text() if isinstance(x, Stmt) else x for x in parts)
    base_script = "\n".join(x.text(False) if isinstance(x, Stmt) else x for x in parts)
    info = dict(ddl=script, run=dict(output_mode=mode), clauses=[[c[0] for c in s.clauses] for s in stmts], body=[s.body.key() for s in stmts])
    known = known_class(stmts, mode)

    def fail(cls, **kw):
        d = dict(info)
        d.update(kw)
        if known:
            d["generic_class"] = cls
        ck.fail(set_name, key, known or cls, d)
        return False

    base = _parse_cached(base_script, mode)
    by_name = {s.body.name: s for s in stmts}
    bents = entities(base[1])[0] if base[0] == "ok" else None
    if bents is None or sorted(e.get("table_name") for e in bents if isinstance(e, dict) and e.get("table_name") in by_name) != sorted(by_name):
        return fail("c11:table-without-clauses-misparsed", ddl=base_script, ddl_with_clauses=script, observed=list(base), expected="tables %s" % sorted(by_name))
    r = parse(script, output_mode=mode)
    if r[0] != "ok":
        return fail("c11:exception", observed=list(r), expected="a result")
    ents = entities(r[1])[0]
    if len(ents) != len(bents):
        return fail("c11:table-lost", observed=ents, expected=bents)
    for i, (got, b) in enumerate(zip(ents, bents)):
        s = by_name.get(b.get("table_name")) if isinstance(b, dict) and "columns" in b and b.get("columns") else None
        if s is None:
            if jdump(got) != jdump(b):
                return fail("c11:neighbour-entity-changed", entity=i, observed=got, expected=b)
        elif not (isinstance(got, dict) and _compare_table(fail, i, s, got, b, mode)):
            if not isinstance(got, dict):
                return fail("c11:table-lost", observed=ents, expected=bents)
            return False
    ck.ok(set_name, key, dict(ddl=script[:300], mode=mode))
    return True


def neighbours_for(rnd, st):
    """statements around table `st` that refer to it (by the generated names) or are independent of it -> (before, after)"""
    b = st.body
    full = "%s.%s" % (b.schema, b.name) if b.schema else b.name
    a, c = b.cols[0][0], b.cols[1][0]
    after_pool = [
        "ALTER TABLE %s ADD zzz_added int;" % full,
        "ALTER TABLE %s ADD CONSTRAINT fk_n FOREIGN KEY (%s) REFERENCES r_n (k);" % (full, c),
        "ALTER TABLE %s ADD CONSTRAINT uq_n UNIQUE (%s);" % (full, a),
        "ALTER TABLE %s ADD PRIMARY KEY (%s);" % (full, a),
        "CREATE INDEX ix_n ON %s (%s);" % (full, a),
        "CREATE UNIQUE INDEX ux_n ON %s (%s, %s);" % (full, a, c),
        "CREATE SEQUENCE sq_after START 10;",
        "DROP TABLE gone_n;",
        "CREATE TABLE plain_after (k int, v varchar(3));",
    ]
    before_pool = ["CREATE SEQUENCE sq_before INCREMENT 2;", "CREATE SCHEMA sch_before;", "CREATE TABLE plain_before (k int PRIMARY KEY);", "DROP TABLE gone_b;",
                   "CREATE TYPE mood_n AS ENUM ('a', 'b');"]
    return rnd.sample(before_pool, rnd.randint(0, 2)), rnd.sample(after_pool, rnd.randint(1, 3))


# ----------------------------------------------------------------------------------------------------------------------
def check(ck):
    rnd = ck.rnd
    quick = ck.quick()
    owners = sorted(GROUPS)

    # (1) every clause alone x every form of the last body element x {owning mode, sql}
    n1 = 0
    for c in CATALOGUE:
        endings = [e[0] for e in ENDINGS]
        if quick:
            endings = ["plain"] + rnd.sample(endings[1:], 6)
        for ei, end in enumerate(endings):
            body = random_body(rnd, ending=end)
            st = make_stmt(rnd, body, [c.cid], style=ei % 3, allow_defects=True)
            for mode in (c.group, "sql"):
                verify(ck, "single-clause", (c.cid, end, mode), [st], mode)
                n1 += 1

    # (2) all ordered pairs of compatible clauses of one dialect
    n2 = 0
    for g in owners:
        for a, b2 in itertools.permutations(GROUPS[g], 2):
            if not compatible([a.cid, b2.cid]):
                continue
            for rep in range(1 if quick else 6):
                body = random_body(rnd)
                st = make_stmt(rnd, body, [a.cid, b2.cid], allow_defects=True)
                for mode in (g, "sql"):
                    verify(ck, "ordered-pairs", (a.cid, b2.cid, rep, mode), [st], mode)
                n2 += 1

    # (3) random ordered subsets of 3..k compatible clauses
    n3 = 300 if quick else 8000
    kmax = 4 if quick else 6
    for i in range(n3):
        g = owners[i % len(owners)]
        pool = [c.cid for c in GROUPS[g]]
        cids = []
        for c in rnd.sample(pool, len(pool)):
            if len(cids) < rnd.randint(3, kmax) and compatible(cids + [c]):
                cids.append(c)
        body = random_body(rnd)
        st = make_stmt(rnd, body, cids)
        mode = g if (i // len(owners)) % 2 else "sql"
        verify(ck, "ordered-subsets", (i, tuple(c[0] for c in st.clauses), mode), [st], mode)

    # (4) two tables carrying the same clause kind with different values (a value must stay with its own table)
    n4 = 0
    for c in CATALOGUE:
        for rep in range(1 if quick else 4):
            names = rnd.sample(TABLE_NAMES, 2)
            for _ in range(10):
                s1 = make_stmt(rnd, random_body(rnd, name=names[0]), [c.cid], style=0)
                s2 = make_stmt(rnd, random_body(rnd, name=names[1]), [c.cid], style=0)
                if jdump(s1.clauses[0][2]) != jdump(s2.clauses[0][2]):
                    break
            for mode in (c.group, "sql"):
                verify(ck, "same-clause-in-two-tables", (c.cid, rep, mode), [s1, s2], mode)
                n4 += 1

    # (5) scripts of 2-3 tables, each with its own clause list
    n5 = 100 if quick else 3000
    for i in range(n5):
        g = owners[i % len(owners)]
        pool = [c.cid for c in GROUPS[g]]
        nt = rnd.choice([2, 2, 3])
        names = rnd.sample(TABLE_NAMES, nt)
        shared = rnd.sample(pool, min(len(pool), rnd.randint(1, 2)))
        stmts = []
        for ti in range(nt):
            cids = [c for c in shared if rnd.random() < 0.8]
            for c in rnd.sample(pool, len(pool))[: rnd.randint(0, 3)]:
                if c not in cids and compatible(cids + [c]):
                    cids.append(c)
            rnd.shuffle(cids)
            if not compatible(cids):
                cids = cids[:1]
            stmts.append(make_stmt(rnd, random_body(rnd, name=names[ti]), cids))
        mode = g if (i // len(owners)) % 2 else "sql"
        verify(ck, "multi-table-scripts", (i, g, mode), stmts, mode)

    # (6) the table with clauses between other statements (ALTER / INDEX on it, sequences, schemas, plain tables, DROP)
    n6 = 80 if quick else 1200
    for i in range(n6):
        g = owners[i % len(owners)]
        pool = [c.cid for c in GROUPS[g]]
        cids = []
        for c in rnd.sample(pool, len(pool)):
            if len(cids) < rnd.randint(1, 3) and compatible(cids + [c]):
                cids.append(c)
        st = make_stmt(rnd, random_body(rnd, name=rnd.choice(TABLE_NAMES[:4])), cids)
        before, after = neighbours_for(rnd, st)
        mode = g if (i // len(owners)) % 2 else "sql"
        verify_with_neighbours(ck, "with-neighbour-statements", (i, g, mode), before + [st] + after, mode)

    rule = ("CREATE TABLE statements generated from an abstract body (%d headers x %d names x 2-10 leading columns x %d forms of the last element x 3 layouts) "
            "plus ordered lists of clauses from a catalogue of %d clause kinds in %d dialect groups (generated values, keyword spelling upper/lower/Title, 3 clause layouts); "
            "contract: one table per statement; every catalogue key present with the generated value - top level in the owning mode, under table_properties in mode sql "
            "(always-present table fields at top level in both); every other key of the result equal to the result of the same statement without clauses; "
            "scripts of 2-3 tables: each table carries its own clause values (reference: each statement without clauses parsed alone); "
            "table between ALTER / INDEX / SEQUENCE / SCHEMA / TYPE / DROP statements: every entity as in the same script without the clauses" % (len(HEADERS), len(TABLE_NAMES), len(ENDINGS), len(CATALOGUE), len(GROUPS)))
    bound = ("single clauses x %s endings x 2 modes (%d runs); all ordered compatible pairs per dialect x 2 modes (%d statements); %d ordered subsets of 3..%d clauses; "
             "%d runs of two tables with the same clause kind; %d scripts of 2-3 tables; %d scripts with neighbour statements"
             % ("7 sampled" if quick else "all %d" % len(ENDINGS), n1, n2, n3, kmax, n4, n5, n6))
    return rule, bound
