"""Per-property BOUNDED stand-ins: run-level contracts on DDLParser.run over enumerated / sampled inputs.
Every function takes a Checker and returns (rule text, bound text)."""
import itertools
import json

from bounded import stmts as S
from bounded.common import MODES, corpus, entities, jdump, parse


def _cols_view(col):
    return {k: col.get(k) for k in ("name", "type", "size", "nullable", "default")}


# ------------------------------------------------------------------ C01
def c01(ck):
    rnd = ck.rnd
    seqs = S.option_sequences(3 if ck.quick() else 4)
    # (i) every option sequence at each of three column positions
    for si, opts in enumerate(seqs):
        for pos in range(3):
            t = S.TYPES[(si + pos) % len(S.TYPES)]
            d = S.DEFAULTS[(si * 3 + pos) % len(S.DEFAULTS)]
            target = S.column("c_t", t, list(opts), d)
            others = [S.column("a", S.TYPES[0], []), S.column("b", S.TYPES[2], ["NOT NULL"])]
            cols = others[:pos] + [target] + others[pos:]
            ddl, exp = S.table("tbl", cols, layout=si % 3)
            _c01_one(ck, "option-sequences", (opts, pos), ddl, [exp])
    # (ii) N tables x M columns, random options
    n_rand = 150 if ck.quick() else 1500
    for i in range(n_rand):
        tables, ddls = [], []
        for ti in range(rnd.randint(1, 4)):
            cols = []
            names = rnd.sample(["id", "name", "qty", "price", "created", "status", "ref_id", "note", "flag", "amount", "order", "comment", "type", "value"], rnd.randint(1, 9))
            for nm in names:
                opts = list(rnd.choice(seqs))
                cols.append(S.column(nm, rnd.choice(S.TYPES), opts, rnd.choice(S.DEFAULTS)))
            ddl, exp = S.table("t%d" % ti, cols, layout=rnd.randrange(3), schema=rnd.choice([None, "s1"]))
            tables.append(exp)
            ddls.append(ddl)
        _c01_one(ck, "random-scripts", i, "\n\n".join(ddls), tables)
    return ("tables generated from an abstract schema (columns x ordered option lists x type/size/default forms x 3 layouts); contract: "
            "result lists exactly the declared columns in order with declared name/type/size/nullable/default; distinct = distinct (option sequence, position) or script index",
            "option sequences of length <= %d over 6 options at 3 positions; %d random scripts of 1-4 tables x 1-9 columns" % (3 if ck.quick() else 4, n_rand))


def _c01_class(ddl, why):
    return "c01:" + why


def _c01_one(ck, set_name, key, ddl, expected_tables):
    r = parse(ddl)
    if r[0] != "ok":
        ck.fail(set_name, key, "c01:exception", dict(ddl=ddl, observed=r))
        return
    ents, _ = entities(r[1])
    if len(ents) != len(expected_tables):
        ck.fail(set_name, key, "c01:table-count", dict(ddl=ddl, observed=len(ents), expected=len(expected_tables)))
        return
    for got, exp in zip(ents, expected_tables):
        gcols = [_cols_view(c) for c in got.get("columns", [])]
        ecols = [_cols_view(c) for c in exp["columns"]]
        if got.get("table_name") != exp["table_name"] or got.get("schema") != exp["schema"]:
            ck.fail(set_name, key, "c01:table-name", dict(ddl=ddl, observed=[got.get("schema"), got.get("table_name")], expected=[exp["schema"], exp["table_name"]]))
            return
        if gcols != ecols:
            why = "column-count" if len(gcols) != len(ecols) else "column-attributes"
            ck.fail(set_name, key, "c01:" + why, dict(ddl=ddl, observed=gcols, expected=ecols))
            return
    ck.ok(set_name, key, dict(ddl=ddl[:300]))


# ------------------------------------------------------------------ C17
SEQ_OPTS = [("INCREMENT", "increment", "n"), ("INCREMENT BY", "increment_by", "n"), ("START", "start", "n"), ("START WITH", "start_with", "n"),
            ("MINVALUE", "minvalue", "n"), ("MAXVALUE", "maxvalue", "n"), ("NO MINVALUE", "minvalue", False), ("NO MAXVALUE", "maxvalue", False),
            ("CACHE", "cache", "n"), ("CACHE", "cache", True), ("ORDER", "order", True), ("NOORDER", "noorder", True)]
SEQ_VALUES = [0, 1, -1, 7, 2 ** 31, -(2 ** 31), 2 ** 63 - 1, -(2 ** 63), 9223372036854775807, 15]


def _case(word, rnd):
    return rnd.choice([word, word.lower(), word.title(), "".join(c.upper() if rnd.random() < 0.5 else c.lower() for c in word)])


def c17(ck):
    rnd = ck.rnd
    max_len = 3 if ck.quick() else 4
    n = 0
    combos = []
    for k in range(0, max_len + 1):
        for opts in itertools.permutations(range(len(SEQ_OPTS)), k):
            keys = [SEQ_OPTS[i][1] for i in opts]
            if len(set(keys)) != len(keys):
                continue
            combos.append(opts)
    if ck.quick():
        combos = [c for c in combos if len(c) <= 2] + rnd.sample([c for c in combos if len(c) == 3], 400)
    for opts in combos:
        parts, exp = [], {}
        for i in opts:
            text, key, val = SEQ_OPTS[i]
            words = " ".join(_case(w, rnd) for w in text.split())
            if val == "n":
                v = rnd.choice(SEQ_VALUES)
                parts.append("%s %d" % (words, v))
                exp[key] = v
            else:
                parts.append(words)
                exp[key] = val
        schema = rnd.choice([None, "dev", '"Dev"'])
        name = rnd.choice(["ids", "Seq_1", "`s`"])
        full = "%s.%s" % (schema, name) if schema else name
        sep = rnd.choice([" ", "\n    "])
        ddl = "%s %s %s%s%s;" % (_case("CREATE", rnd), _case("SEQUENCE", rnd), full, sep if parts else "", sep.join(parts))
        exp_ent = dict(schema=schema, sequence_name=name, **exp)
        # alone, and between two tables whose columns are named like sequence options
        before = "CREATE TABLE a (increment int, cache int);"
        after = "CREATE TABLE b (start int, minvalue int NOT NULL);"
        for variant, script in (("alone", ddl), ("between", before + "\n" + ddl + "\n" + after)):
            r = parse(script)
            key = (opts, variant)
            if r[0] != "ok":
                ck.fail("sequence-options", key, "c17:exception", dict(ddl=script, observed=r))
                continue
            ents, _ = entities(r[1])
            seqs = [e for e in ents if "sequence_name" in e]
            if len(seqs) != 1 or seqs[0] != exp_ent:
                ck.fail("sequence-options", key, "c17:wrong-entity", dict(ddl=script, observed=seqs, expected=exp_ent))
                continue
            if variant == "between":
                alone = [parse(before)[1][0], parse(after)[1][0]]
                tabs = [e for e in ents if "table_name" in e]
                if tabs != alone:
                    ck.fail("sequence-options", key, "c17:leak-into-neighbour", dict(ddl=script, observed=tabs, expected=alone))
                    continue
            ck.ok("sequence-options", key, dict(ddl=ddl))
    return ("CREATE SEQUENCE with ordered option subsets, random keyword case, values incl. +-2^31, +-2^63; contract: exact entity (one key per option, exact int / False / True), "
            "neighbouring tables unchanged", "option sequences of length <= %d (%d sequences), each alone and between two tables" % (max_len, len(combos)))


# ------------------------------------------------------------------ C13
def c13(ck):
    rnd = ck.rnd
    pool = list(S.SUPPORTED.values()) + [g for gs in S.GROUPS.values() for g in [" \n".join(gs)]] + ["SET hive.x = 1;", "-- a comment line\nCREATE TABLE c1 (x int); -- trailing"]
    # session settings of several shapes (list values, TO, no '='): whatever the flat result reports for them has a bucket
    # a TABLESPACE clause on non-table statements: the entity keeps ONE kind
    pool += ["CREATE DATABASE sales TABLESPACE salesspace;", "CREATE SCHEMA s9 TABLESPACE ts9;", "CREATE TYPE ty9 AS ENUM ('a') TABLESPACE x9;"]
    pool += ["SET search_path = app, public;", "SET search_path TO app, audit, public;", "SET statement_timeout = 0;", "SET NAMES utf8mb4;",
             "SET hive.exec.dynamic.partition.mode=nonstrict;"]
    scripts = [[s] for s in pool]
    for i in range(60 if ck.quick() else 600):
        scripts.append(rnd.sample(pool, rnd.randint(2, 6)))
    # "appears exactly once": a script that repeats a statement (re-run or concatenated migrations) has equal entities in
    # the flat list; each occurrence is an entity of its own and keeps its place
    for s in pool:
        scripts.append([s, s])
        scripts.append([s, rnd.choice(pool), s])
    # statements whose target table is not defined in the script: flat and grouped agree (both raise, or both report it)
    orphans = ["ALTER TABLE nowhere ADD c int;", "CREATE INDEX ix_nowhere ON nowhere (c);", "ALTER TABLE s1.nowhere ADD CONSTRAINT pk_n PRIMARY KEY (id);"]
    for o in orphans:
        scripts.append([o])
        for s in rnd.sample(pool, 4):
            scripts.append([s, o])
            scripts.append([o, s])
    scripts += [[d] for _, d in corpus()]
    buckets = {"table_name": "tables", "sequence_name": "sequences", "type_name": "types", "domain_name": "domains", "schema_name": "schemas",
               "tablespace_name": "tablespaces", "database_name": "databases", "value": "ddl_properties"}
    modes = ["sql"] if ck.quick() else MODES
    for si, sc in enumerate(scripts):
        ddl = "\n".join(sc)
        for mode in (modes if si % 7 else MODES):
            flat = parse(ddl, output_mode=mode)
            grouped = parse(ddl, output_mode=mode, group_by_type=True)
            key = (si, mode)
            if flat[0] != "ok" or grouped[0] != "ok":
                if flat[0] != grouped[0] or flat[1:] != grouped[1:]:
                    ck.fail("flat-vs-grouped", key, "c13:exception-differs", dict(ddl=ddl, run=dict(output_mode=mode), observed=[flat, grouped]))
                else:
                    ck.ok("flat-vs-grouped", key)
                continue
            g = grouped[1]
            problems = []
            if not isinstance(g, dict):
                problems.append("grouped result is not a dict")
            else:
                for b in ["tables", "types", "sequences", "domains", "schemas", "ddl_properties"]:
                    if b not in g:
                        problems.append("bucket %s missing" % b)
                exp = {}
                comments = []
                for e in flat[1]:
                    marks = [k for k in list(buckets) + ["comments"] if k in e]
                    if len(marks) != 1:
                        # "the bucket of its kind" presupposes that an entity has ONE kind: an entity carrying two kind keys
                        # (or none) is filed by whichever key the grouping looks at first
                        problems.append("flat entity with kind keys %s: its kind is ambiguous" % marks)
                    if "comments" in e and len(marks) == 1:
                        comments.extend(e["comments"])
                        continue
                    for k in buckets:
                        if k in e:
                            exp.setdefault(buckets[k], []).append(e)
                            break
                # lossless, stated directly: every flat entity is found exactly as often in the buckets as in the flat list
                in_buckets = [x for b, v in g.items() if b != "comments" and isinstance(v, list) for x in v]
                for e in flat[1]:
                    if "comments" in e and len(e) == 1:
                        continue
                    if in_buckets.count(e) != flat[1].count(e):
                        problems.append("flat entity with keys %s appears %d times in the flat list and %d times in the buckets: entity lost"
                                        % (sorted(e)[:4], flat[1].count(e), in_buckets.count(e)))
                        break
                for b in set(list(exp) + [k for k in g if k != "comments"]):
                    if g.get(b, []) != exp.get(b, []):
                        problems.append("bucket %s differs" % b)
                if g.get("comments", []) != comments:
                    problems.append("comments differ")
            if not problems and si % 5 == 0:
                # writing the dump file does not change what is returned
                import os as _os, tempfile as _tf, shutil as _sh
                dd = _tf.mkdtemp(prefix="c13dump_")
                try:
                    dumped = parse(ddl, output_mode=mode, group_by_type=True, dump=True, dump_path=dd, file_path=_os.path.join(dd, "script.sql"))
                finally:
                    _sh.rmtree(dd, ignore_errors=True)
                if dumped != grouped:
                    problems.append("grouped result with dump=True differs from the result without dump")
            if problems:
                ck.fail("flat-vs-grouped", key, "c13:" + problems[0].split()[0] + "-" + problems[0].split()[-1], dict(ddl=ddl, run=dict(output_mode=mode), problems=problems, observed=g, flat=flat[1]))
            else:
                ck.ok("flat-vs-grouped", key, dict(ddl=ddl[:200], mode=mode))
    return ("scripts mixing every entity kind (pool of %d statements, random mixes, regression corpus) x output modes; contract: grouped == order-preserving partition of flat by kind, "
            "comments gathered, six base buckets present" % len(pool), "%d scripts x %s" % (len(scripts), "1 mode (every 7th script: 15 modes)" if ck.quick() else "15 modes"))


# ------------------------------------------------------------------ C03
def _units():
    units = [(k, [v]) for k, v in S.SUPPORTED.items()] + [(k, v) for k, v in S.GROUPS.items()]
    # statements that carry a comment of each style: what a comment line is does not depend on the neighbours' comments
    units += [("hash-comment-inside", ["CREATE TABLE hc (\n    id int,\n# the customer that placed the order\n    customer_id int,\n    total decimal(10,2)\n);"]),
              ("dash-comment-inside", ["CREATE TABLE dc (\n    id int, -- the key\n    note varchar(20)\n);"]),
              ("block-comment-before", ["/* audit trail */\nCREATE TABLE bc (x int, y int);"])]
    return units


def c03(ck):
    rnd = ck.rnd
    units = _units()
    single = {}
    for k, sts in units:
        r = parse("\n".join(sts))
        single[k] = r
    uns = list(S.UNSUPPORTED.items())

    def expected(keys):
        out = []
        for k in keys:
            if single[k][0] != "ok":
                return None
            out.extend(entities(single[k][1])[0])
        return out

    def check(set_name, key, keys, script):
        exp = expected(keys)
        r = parse(script)
        if exp is None:
            return
        if r[0] != "ok":
            ck.fail(set_name, key, "c03:exception", dict(ddl=script, observed=r))
            return
        got = entities(r[1])[0]
        if jdump(got) != jdump(exp):
            ck.fail(set_name, key, "c03:differs-from-concatenation", dict(ddl=script, observed=got, expected=exp))
        else:
            ck.ok(set_name, key, dict(ddl=script[:200]))
    # ordered pairs
    for (k1, s1), (k2, s2) in itertools.permutations(units, 2):
        check("ordered-pairs", (k1, k2), [k1, k2], "\n".join(s1 + s2))
    # triples (sampled)
    for i in range(150 if ck.quick() else 2000):
        ks = rnd.sample(units, 3)
        check("triples", tuple(k for k, _ in ks), [k for k, _ in ks], "\n\n".join("\n".join(s) for _, s in ks))
    # unsupported statements inserted at every position of a pair
    pairs = list(itertools.permutations(units, 2))
    for ui, (uk, us) in enumerate(uns):
        for (k1, s1), (k2, s2) in (rnd.sample(pairs, 12 if ck.quick() else 80)):
            for pos in range(3):
                parts = ["\n".join(s1), "\n".join(s2)]
                parts.insert(pos, us)
                check("unsupported-inserted", (uk, k1, k2, pos), [k1, k2], "\n".join(parts))
    # an earlier statement that names the same table (DROP TABLE t; / an older CREATE TABLE t) does not capture the
    # ALTER / INDEX that follows the later definition: [earlier] + (CREATE; ALTER) == earlier alone + (CREATE; ALTER) alone
    for gk, gs in S.GROUPS.items():
        tname = gs[0].split()[2]
        for ek, earlier in (("drop", "DROP TABLE %s;" % tname), ("older-create", "CREATE TABLE %s (\n    legacy_col int\n);" % tname)):
            e0, g0 = parse(earlier), parse("\n".join(gs))
            if e0[0] != "ok" or g0[0] != "ok":
                continue
            r = parse(earlier + "\n" + "\n".join(gs))
            exp = entities(e0[1])[0] + entities(g0[1])[0]
            if r[0] != "ok" or jdump(entities(r[1])[0]) != jdump(exp):
                ck.fail("same-table-named-earlier", (gk, ek), "c03:earlier-statement-captures-alter-or-index", dict(ddl=earlier + "\n" + "\n".join(gs), observed=r, expected=exp))
            else:
                ck.ok("same-table-named-earlier", (gk, ek))
    # ... and neither does a LATER statement that names the same table (a tear-down DROP TABLE t; / a re-definition):
    # (CREATE; ALTER) + [later] == (CREATE; ALTER) alone + later alone
    for gk, gs in S.GROUPS.items():
        tname = gs[0].split()[2]
        for ek, later in (("drop", "DROP TABLE %s;" % tname), ("newer-create", "CREATE TABLE %s (\n    fresh_col int\n);" % tname)):
            e0, g0 = parse(later), parse("\n".join(gs))
            if e0[0] != "ok" or g0[0] != "ok":
                continue
            r = parse("\n".join(gs) + "\n" + later)
            exp = entities(g0[1])[0] + entities(e0[1])[0]
            if r[0] != "ok" or jdump(entities(r[1])[0]) != jdump(exp):
                ck.fail("same-table-named-later", (gk, ek), "c03:later-statement-captures-alter-or-index", dict(ddl="\n".join(gs) + "\n" + later, observed=r, expected=exp))
            else:
                ck.ok("same-table-named-later", (gk, ek))
    # corpus statements next to generated ones
    cp = [d for _, d in corpus() if d.strip().endswith(";")]
    for i, d in enumerate(cp if not ck.quick() else cp[::3]):
        r0 = parse(d)
        if r0[0] != "ok":
            continue
        k, s = units[i % len(units)]
        if single[k][0] != "ok":
            continue
        for order in (0, 1):
            script = ("\n".join(s) + "\n" + d) if order else (d + "\n" + "\n".join(s))
            exp = (entities(single[k][1])[0] + entities(r0[1])[0]) if order else (entities(r0[1])[0] + entities(single[k][1])[0])
            r = parse(script)
            if r[0] != "ok" or jdump(entities(r[1])[0]) != jdump(exp):
                ck.fail("corpus-neighbours", (i, order), "c03:corpus-differs-from-concatenation", dict(ddl=script, observed=r, expected=exp))
            else:
                ck.ok("corpus-neighbours", (i, order))
    return ("scripts of ;-terminated statements: ordered pairs and sampled triples of %d statement units (ALTER/INDEX grouped with their table), %d unsupported statement families inserted at every position, "
            "corpus scripts next to generated ones; contract: entities == in-order concatenation of the units parsed alone" % (len(units), len(uns)),
            "all ordered pairs, %s triples, %d unsupported families x sampled pairs x 3 positions" % ("150" if ck.quick() else "2000", len(uns)))


# ------------------------------------------------------------------ C14
def c14(ck):
    import copy
    import subprocess
    import sys
    import os
    import tempfile
    from simple_ddl_parser import DDLParser
    pool = list(S.SUPPORTED.values()) + ["\n".join(g) for g in S.GROUPS.values()] + [
        "-- leading comment\nCREATE TABLE c1 (x int); -- trailing\n/* block */\nCREATE TABLE c2 (y int);",
        "CREATE TABLE u1 (x int)",  # unterminated last statement
        "SET a = 1;\nCREATE TABLE s1 (x int);\nSET b = 2;",
        "CREATE TABLE c3 (x int);\n/* open comment never closed\n more",
    ] + [d for _, d in corpus()][:: (4 if ck.quick() else 1)]
    cwd = tempfile.mkdtemp(prefix="c14_")
    old = os.getcwd()
    os.chdir(cwd)
    try:
        for i, ddl in enumerate(pool):
            arg = str(ddl)
            for m2 in (["sql", "hql"] if ck.quick() else ["sql", "hql", "bigquery", "mssql"]):
                key = (i, m2)
                try:
                    p = DDLParser(ddl)
                    r1 = p.run()
                    snap = copy.deepcopy(r1)
                    r_mid = p.run(output_mode=m2, group_by_type=True)
                    r2 = p.run()
                    fresh = DDLParser(ddl).run()
                except Exception as e:
                    f1 = parse(ddl)
                    if f1[0] == "exc":
                        ck.ok("rerun-histories", key)
                    else:
                        ck.fail("rerun-histories", key, "c14:rerun-raises", dict(ddl=ddl, observed="%s: %s" % (type(e).__name__, e)))
                    continue
                bad = None
                if jdump(r1) != jdump(snap):
                    bad = "earlier-result-mutated"
                elif jdump(r2) != jdump(snap):
                    bad = "rerun-differs"
                elif jdump(fresh) != jdump(snap):
                    bad = "fresh-object-differs"
                elif arg != ddl:
                    bad = "argument-mutated"
                elif os.listdir(cwd):
                    bad = "files-created"
                if bad:
                    ck.fail("rerun-histories", key, "c14:" + bad, dict(ddl=ddl, run2=dict(output_mode=m2, group_by_type=True), first=snap, second=r2, fresh=fresh, files=os.listdir(cwd)))
                else:
                    ck.ok("rerun-histories", key, dict(ddl=ddl[:200]))
        # other process / hash seeds
        scripts = pool[:: (6 if ck.quick() else 2)]
        here = [parse(d) for d in scripts]
        code = ("import sys, json\nfrom simple_ddl_parser import DDLParser\nout=[]\nfor d in json.load(open(sys.argv[1])):\n"
                "    try:\n        out.append(['ok', DDLParser(d).run()])\n    except Exception as e:\n        out.append(['exc', type(e).__name__, str(e)[:200]])\nprint(json.dumps(out))")
        jf = os.path.join(cwd, "..", os.path.basename(cwd) + "_in.json")
        json.dump(scripts, open(jf, "w"))
        for hs in (["0", "1"] if ck.quick() else ["0", "1", "2", "12345"]):
            env = dict(os.environ, PYTHONHASHSEED=hs)
            r = subprocess.run([sys.executable, "-c", code, jf], capture_output=True, text=True, env=env, cwd=cwd)
            try:
                there = json.loads(r.stdout.strip().splitlines()[-1])
            except Exception:
                ck.fail("subprocess-hashseed", hs, "c14:subprocess-crash", dict(observed=(r.stdout + r.stderr)[-500:]))
                continue
            for i, (a, b) in enumerate(zip(here, there)):
                if jdump(list(a)) != jdump(b):
                    ck.fail("subprocess-hashseed", (hs, i), "c14:other-process-differs", dict(ddl=scripts[i], hashseed=hs, here=a, there=b))
                else:
                    ck.ok("subprocess-hashseed", (hs, i))
        os.unlink(jf)
    finally:
        os.chdir(old)
        import shutil
        shutil.rmtree(cwd, ignore_errors=True)
    return ("call histories run(); run(other mode, grouped); run() on one object, a fresh object, another process under different PYTHONHASHSEED; contract: equal results, first result not mutated, "
            "argument unchanged, no files created in the working directory", "%d scripts x 2-4 intermediate modes; %d scripts x %d hash seeds" % (len(pool), len(scripts), 2 if ck.quick() else 4))


# ------------------------------------------------------------------ C16
def c16(ck):
    from simple_ddl_parser import DDLParserError, SimpleDDLParserException
    rnd = ck.rnd
    units = _units()
    uns = list(S.UNSUPPORTED.items()) + [("bad_create", "CREATE TRIGGER x;"), ("bad_alter", "ALTER TABLE t;"), ("quote", "SELECT 'abc FROM t;"), ("pable", "CREATE PABLE t (x int);")]
    # supported DDL: never raises under silent=False, identical results
    sup = [("\n".join(s), k) for k, s in units] + [(d, i) for i, (_, d) in enumerate(corpus())]
    for ddl, k in sup:
        a = parse(ddl, ctor=dict(silent=True))
        b = parse(ddl, ctor=dict(silent=False))
        if a[0] == "exc":
            ck.fail("supported", k, "c16:silent-true-raises", dict(ddl=ddl, observed=a))
        elif b[0] == "exc":
            if b[1] in ("DDLParserError",):
                ck.notes.setdefault("corpus_scripts_rejected_when_not_silent", []).append(str(k))
                ck.ok("supported", k)
            else:
                ck.fail("supported", k, "c16:non-library-exception-when-not-silent", dict(ddl=ddl, observed=b))
        elif jdump(a[1]) != jdump(b[1]):
            ck.fail("supported", k, "c16:silent-changes-result", dict(ddl=ddl, observed=[a[1], b[1]]))
        else:
            ck.ok("supported", k)
    # unsupported statements inserted
    for uk, us in uns:
        for (k1, s1) in (units if not ck.quick() else rnd.sample(units, 6)):
            for pos in (0, 1):
                parts = ["\n".join(s1)]
                parts.insert(pos, us)
                script = "\n".join(parts)
                key = (uk, k1, pos)
                a = parse(script, ctor=dict(silent=True))
                b = parse(script, ctor=dict(silent=False))
                alone = parse("\n".join(s1))
                if a[0] == "exc":
                    ck.fail("unsupported-inserted", key, "c16:silent-true-raises:" + a[1], dict(ddl=script, observed=a))
                elif alone[0] == "ok" and jdump(entities(a[1])[0]) != jdump(entities(alone[1])[0]):
                    ck.fail("unsupported-inserted", key, "c16:unsupported-statement-yields-entity", dict(ddl=script, observed=a[1], expected=alone[1]))
                elif b[0] == "exc" and b[1] != "DDLParserError":
                    ck.fail("unsupported-inserted", key, "c16:wrong-exception-type:" + b[1], dict(ddl=script, observed=b))
                elif b[0] == "ok" and jdump(a[1]) != jdump(b[1]):
                    ck.fail("unsupported-inserted", key, "c16:silent-changes-result", dict(ddl=script, observed=[a[1], b[1]]))
                else:
                    ck.ok("unsupported-inserted", key, dict(ddl=script[:160], silent_false=b[0]))
    # a session option written without ';' (T-SQL: SET ANSI_NULLS ON) followed by an unsupported statement: the statement is
    # still rejected when not silent, and yields nothing (and changes nothing) when silent
    for so in ("SET ANSI_NULLS ON", "SET QUOTED_IDENTIFIER ON", "set nocount on"):
        for uk, us in uns:
            if uk in ("go", "use") or us.upper().startswith(("SET", "GO", "USE")):
                continue
            script = so + "\n" + us
            a, b, alone = parse(script, ctor=dict(silent=True)), parse(script, ctor=dict(silent=False)), parse(so)
            rejected_alone = parse(us, ctor=dict(silent=False))[0] == "exc"
            key = (so, uk)
            if a[0] == "exc":
                ck.fail("after-unterminated-set", key, "c16:silent-true-raises:" + a[1], dict(ddl=script, observed=a))
            elif alone[0] == "ok" and jdump(a[1]) != jdump(alone[1]):
                ck.fail("after-unterminated-set", key, "c16:unsupported-statement-changes-result", dict(ddl=script, observed=a[1], expected=alone[1]))
            elif rejected_alone and b[0] != "exc":
                ck.fail("after-unterminated-set", key, "c16:unsupported-statement-not-rejected-when-not-silent", dict(ddl=script, ctor=dict(silent=False), observed=b, expected="DDLParserError"))
            else:
                ck.ok("after-unterminated-set", key, dict(ddl=script[:160]))
    # unknown output modes
    for m in ["nosuch", "SQL", "postgresql", "", "sq", "post", "my", "hql ", "big"]:
        for silent in (True, False):
            r = parse("CREATE TABLE t (x int);", ctor=dict(silent=silent), output_mode=m)
            ok = r[0] == "exc" and r[1] == "SimpleDDLParserException" and all(v in r[2] for v in ("hql", "mysql", "sql", "oracle", "bigquery"))
            (ck.ok if ok else ck.fail)(*(("unknown-mode", (m, silent)) + (() if ok else ("c16:unknown-mode-not-rejected", dict(ddl="CREATE TABLE t (x int);", run=dict(output_mode=m), observed=r)))))
    assert issubclass(DDLParserError, SimpleDDLParserException)
    return ("supported scripts (generated units + regression corpus) and the same with unsupported statements inserted x silent {True, False}; contract: silent never raises and the unsupported statement yields nothing, "
            "not-silent raises only DDLParserError, equal results when neither raises, unknown modes rejected naming the valid ones",
            "%d supported scripts; %d unsupported families x %s units x 2 positions; 9 unknown modes" % (len(sup), len(uns), "6 sampled" if ck.quick() else "all"))


CHECKS = {"C01": c01, "C03": c03, "C13": c13, "C14": c14, "C16": c16, "C17": c17}
