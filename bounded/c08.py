"""C08 bounded stand-in: comments never change what is parsed and are reported separately.

Metamorphic contract on DDLParser(...).run(...): for a comment-free script B generated from an abstract description
(tables x columns x layouts, one statement of every supported kind, ALTER/INDEX groups, unterminated statements,
GO/USE lines, SET lines) and the script B+ obtained by inserting comments (whole-line '--', '#', '/* */', block comments
spanning several lines, trailing '--' and '/* */' after the code of a line), with quote-free ASCII text:

  (E) run(B+) has exactly the entities of run(B) (everything except the comments entry; flat or grouped, any mode);
  (S) there is at most one comments entry and it is a list of strings;
  (T) every item of the comments entry is (modulo white space / runs of commas, which pre-processing re-spaces) a
      substring of one inserted comment (markers included), and the items can be assigned to the inserted comments in
      non-decreasing source order.  (T) implies that no item contains anything that was code, and (E) implies that no
      comment text shows up inside an entity.

Defects of the unchanged tree are decided from the INPUT (which comment forms were inserted), see tags_of() / build():
  TAG_INDENTED   indented (not column 0) block comment of >= 3 lines, or of 2 lines whose closing line contains '--' or '/*'
  TAG_BLOCK_DASH '--' on the opening (or only) line of a '/* */' comment (whole-line, trailing or multi-line)
  TAG_TDASH_OPEN '/*' in the text of a trailing '--' comment
  TAG_QUOTE_LED  comment line before (or trailing comment on the line before) a line that starts with \\w*'
  TAG_LAST_STMT  comment line after the last line, where that line is a one-line statement reached from a statement
                 without ';' over one-line statements only (the comment-free script loses that statement)
A failing script of such a class is reported under the class only if its other insertions alone are harmless."""
import re

from bounded import stmts as S
from bounded.common import MODES, corpus, jdump, parse

# ------------------------------------------------------------------ input classes with a known defect (decided from the input)
TAG_INDENTED = "c08:indented-multi-line-block-comment-with-inner-line-or-marker-on-later-line"
TAG_TDASH_OPEN = "c08:trailing-dash-comment-text-contains-block-open-marker"
TAG_BLOCK_DASH = "c08:block-comment-line-contains-double-dash"
TAG_QUOTE_LED = "c08:comment-before-line-starting-with-quote"
TAG_LAST_STMT = "c08:comment-line-after-last-one-line-statement-behind-unterminated-statement"

MARKERS = ("--", "/*", "*/")


# ------------------------------------------------------------------ comment model
def c_dash(text, indent=""):
    return dict(kind="dash", lines=[indent + "--" + text], text=text)


def c_hash(text, indent=""):
    return dict(kind="hash", lines=[indent + "#" + text], text=text)


def c_block1(text, indent="", tail=""):
    return dict(kind="block1", lines=[indent + "/*" + text + "*/" + tail], text=text)


def c_blockn(texts, indent="", cont="", own_close=False, tail=""):
    """block comment spanning len(texts) (+1 if the closing marker has its own line) lines"""
    lines = [indent + "/*" + texts[0]] + [cont + t for t in texts[1:]]
    if own_close:
        lines.append(cont + "*/" + tail)
    else:
        lines[-1] += "*/" + tail
    return dict(kind="blockN", lines=lines, text="\n".join(texts))


def c_tdash(text, glue=" "):
    return dict(kind="tdash", suffix=glue + "--" + text, text=text)


def c_tblock(text, glue=" ", tail=""):
    return dict(kind="tblock", suffix=glue + "/*" + text + "*/" + tail, text=text)


def body(com):
    return "\n".join(com["lines"]) if "lines" in com else com["suffix"]


def valid(com):
    """the inserted text really is ONE comment of its style (quote-free, markers where the style puts them)"""
    b = body(com)
    if any(q in b for q in "'\"`\\\t\r") or any(ord(ch) == 127 for ch in b):      # non-ASCII text is text like any other
        return False
    k = com["kind"]
    if k in ("dash", "hash", "tdash"):
        return "\n" not in b
    s = b.strip()
    if not s.startswith("/*") or s.find("*/") != len(s) - 2:
        return False  # the first close marker must be the one that ends the comment ('/*/' is excluded as well)
    if k in ("block1", "tblock"):
        return "\n" not in b
    return len(com["lines"]) >= 2


def tags_of(com):
    """known-defect input classes this comment belongs to"""
    k, out = com["kind"], set()
    if k == "tdash" and "/*" in com["text"]:
        out.add(TAG_TDASH_OPEN)
    if k == "block1" and "--" in com["lines"][0]:
        out.add(TAG_BLOCK_DASH)
    if k == "tblock" and "--" in com["suffix"]:
        out.add(TAG_BLOCK_DASH)
    if k == "blockN":
        indented = com["lines"][0][:1] == " "
        # an indented opening line does not switch the multi-line mode on: later lines are handled like code lines
        if indented and (len(com["lines"]) >= 3 or any(m in ln for ln in com["lines"][1:] for m in ("--", "/*"))):
            out.add(TAG_INDENTED)
        if "--" in com["lines"][0]:
            out.add(TAG_BLOCK_DASH)
    return out


QUOTE_LED = re.compile(r"^\w*'")
NEW_STMT = re.compile(r"^\s*(ALTER|CREATE|DROP|SET) ", re.I)


def last_line_starts_open_statement(lines):
    """the last line starts a statement and, going back over one-line statements, a statement that is not ';'-terminated
    precedes it (each such statement is only parsed when the next one starts, so the script alone loses the last one:
    it is parsed only if some further line follows)"""
    ls = [ln for ln in lines if ln.strip()]
    i = len(ls) - 1
    if i < 1 or not NEW_STMT.match(ls[i]):
        return False
    while i >= 1:
        if not ls[i - 1].rstrip().endswith(";"):
            return True
        if not NEW_STMT.match(ls[i - 1]):
            return False
        i -= 1
    return False


def build(lines, inserts, final_newline=False):
    """inserts: list of ('w', i, com) whole-line comment before line i (i == len(lines): after the last line) or
    ('t', i, com) trailing comment on line i.  -> (script text, comments in source order, script-level tags)"""
    out, order, tags = [], [], set()
    for i in range(len(lines) + 1):
        for w, idx, c in inserts:
            if w == "w" and idx == i:
                out.extend(c["lines"])
                order.append(c)
                tags |= tags_of(c)
                if i < len(lines) and QUOTE_LED.match(lines[i]):
                    tags.add(TAG_QUOTE_LED)
                if i == len(lines) and last_line_starts_open_statement(lines):
                    tags.add(TAG_LAST_STMT)
        if i < len(lines):
            t = [c for w, idx, c in inserts if w == "t" and idx == i]
            assert len(t) <= 1
            out.append(lines[i] + (t[0]["suffix"] if t else ""))
            if t:
                order.append(t[0])
                tags |= tags_of(t[0])
                if i + 1 < len(lines) and QUOTE_LED.match(lines[i + 1]):
                    tags.add(TAG_QUOTE_LED)
    return "\n".join(out) + ("\n" if final_newline else ""), order, tags


# ------------------------------------------------------------------ oracle
def split_result(res):
    """-> (entities part, comments items, structural problem or None); flat list or grouped dict"""
    if isinstance(res, dict):
        ents = {k: v for k, v in res.items() if k != "comments"}
        com = res.get("comments", [])
        bad = None if isinstance(com, list) and all(isinstance(x, str) for x in com) else "comments bucket is not a list of strings"
        return ents, com if bad is None else [], bad
    ents, entries = [], []
    for e in res:
        if isinstance(e, dict) and "comments" in e and set(e.keys()) == {"comments"}:
            entries.append(e["comments"])
        else:
            ents.append(e)
    bad = None
    if len(entries) > 1:
        bad = "more than one comments entry"
    elif entries and not (isinstance(entries[0], list) and all(isinstance(x, str) for x in entries[0])):
        bad = "comments entry is not a list of strings"
    return ents, (entries[0] if entries and bad is None else []), bad


def _norm(s):
    # non-ASCII characters are reported as escape sequences (the input goes through unicode_escape: C07's business): compare the
    # ASCII skeleton of the text - drop the escapes from what is reported and the non-ASCII characters from what was written
    s = re.sub(r"\\+(u[0-9a-fA-F]{4}|x[0-9a-fA-F]{2}|0[0-9a-fA-F]{2})", "", s)
    s = "".join(c for c in s if ord(c) < 128)
    return re.sub(r",+", ",", re.sub(r"\s+", "", s))


def comments_problem(items, order):
    """None, or ('foreign', item) / ('order', item): greedy monotone assignment of items to the inserted comments"""
    bodies = [_norm(body(c)) for c in order]
    j = 0
    for it in items:
        n = _norm(it)
        if not n:
            continue
        hit = next((x for x in range(j, len(bodies)) if n in bodies[x]), None)
        if hit is None:
            return ("order" if any(n in b for b in bodies) else "foreign", it)
        j = hit
    return None


class Runner:
    def __init__(self, ck):
        self.ck = ck
        self.base_cache = {}
        self.skipped = 0

    def base(self, text, ctor, run_kw):
        k = (text, jdump(ctor), jdump(run_kw))
        if k not in self.base_cache:
            self.base_cache[k] = parse(text, ctor=ctor, **(run_kw or {}))
        return self.base_cache[k]

    def verdict(self, lines, inserts, ctor, run_kw, final_newline):
        """-> None (holds) or (generic class suffix, info)"""
        base_text = "\n".join(lines) + ("\n" if final_newline else "")
        b = self.base(base_text, ctor, run_kw)
        if b[0] != "ok":
            return "skip"
        ddl, order, _ = build(lines, inserts, final_newline)
        r = parse(ddl, ctor=ctor, **(run_kw or {}))
        kinds = sorted({c["kind"] for c in order})
        kind = kinds[0] if len(kinds) == 1 else "several-kinds"
        info = dict(ddl=ddl, base_ddl=base_text, inserted=[body(c) for c in order])
        if ctor:
            info["ctor"] = ctor
        if run_kw:
            info["run"] = run_kw
        if r[0] != "ok":
            return ("exception-after-" + kind, dict(info, observed=list(r), expected="no exception (the script without the comments parses)"))
        bents, _, _ = split_result(b[1])
        ents, items, bad = split_result(r[1])
        if jdump(ents) != jdump(bents):
            if isinstance(ents, list) and isinstance(bents, list) and len(ents) != len(bents):
                why = "entity-lost-after-" if len(ents) < len(bents) else "entity-added-after-"
            else:
                why = "entity-changed-after-"
            return (why + kind, dict(info, observed=r[1], expected=bents))
        if bad:
            return ("comments-entry-malformed", dict(info, observed=r[1], expected=bad))
        p = comments_problem(items, order)
        if p:
            why = "comments-entry-out-of-source-order" if p[0] == "order" else "comments-entry-item-not-from-a-comment-after-" + kind
            return (why, dict(info, observed=items, offending_item=p[1], expected="every item is a piece of one inserted comment, in source order"))
        return None

    def case(self, set_name, key, lines, inserts, ctor=None, run_kw=None, final_newline=False):
        ck = self.ck
        for _, _, c in inserts:
            assert valid(c), c
        _, _, tags = build(lines, inserts, final_newline)
        if len(tags) > 1:
            self.skipped += 1  # generators keep scripts to one known-defect input class; never expected
            return
        v = self.verdict(lines, inserts, ctor, run_kw, final_newline)
        if v == "skip":
            self.skipped += 1
            return
        if v is None:
            ck.ok(set_name, key, dict(ddl=build(lines, inserts, final_newline)[0][:300]))
            return
        cls = "c08:" + v[0]
        if tags:
            tag = next(iter(tags))
            if tag in (TAG_QUOTE_LED, TAG_LAST_STMT):
                rest = None  # property of the position, not of one insertion
            else:
                rest = [i for i in inserts if not tags_of(i[2])]
            # the known-defect class is reported only if the untagged insertions alone are harmless;
            # otherwise the failure of the untagged insertions is reported under its own (generic) class
            v2 = None if rest is None else self.verdict(lines, rest, ctor, run_kw, final_newline)
            if v2 is None or v2 == "skip":
                cls = tag
            else:
                cls, v = "c08:" + v2[0], v2
        ck.fail(set_name, key, cls, v[1])


# ------------------------------------------------------------------ comment text
START_TEXTS = [
    "CREATE TABLE zz (q int);", "create table zz (q int)", "ALTER TABLE orders ADD zz int;", "DROP TABLE orders;", "SET x = 1;", "set a=b",
    "GO", "go", "USE db2;", "Use customer_id (not the natural key), when joining", "INSERT INTO t VALUES (1, 2);", "GRANT ALL ON t TO u;",
    "DELETE FROM t;", "Delete this later", "COMMENT ON TABLE t IS gone", "PRIMARY KEY (id),", "CONSTRAINT c1 UNIQUE (id)", ");", ") ;", "(", ")", ",", ";",
    "id int,", "zz int NOT NULL,", "zz int", "", " ", "-", "*", "=", "a=b", ",,", "( , ; )", "TODO: drop; recreate (see #42), then ALTER",
    "STORED AS TEXTFILE", "INCREMENT BY 7", "CREATE SEQUENCE sq START 3;", "REFERENCES other (id)", "NOT NULL DEFAULT 5", "*** section ***", "- - - - -", "=====", "#", "# hash", "%$@!?&|~^<>[]{}+.:",
    "na\u00efve \u2014 caf\u00e9", "a \u2013 b \u2014 c", "\u2014", "see \u00a7 4 \u2014 keys",
]
WORDS = ["CREATE TABLE", "ALTER TABLE", "DROP TABLE", "SET", "GO", "USE", "INSERT INTO", "GRANT", "DELETE FROM", "Use", "go", "Insert", "PRIMARY KEY",
         "NOT NULL", "DEFAULT", "REFERENCES", "UNIQUE", "CHECK", "CONSTRAINT", "FOREIGN KEY", "COMMENT", "INDEX", "CREATE SEQUENCE", "INCREMENT BY",
         "STORED AS", "LOCATION", "PARTITIONED BY", "AS", "ON", "int", "varchar(10)", "decimal(10,2)", "NULL", "SELECT", "FROM", "WITH", "TBLPROPERTIES",
         "ENGINE", "COLLATE", "CLUSTER BY", "OPTIONS", "LIKE", "CLONE", "TABLESPACE", "IF NOT EXISTS", "TEMPORARY", "EXTERNAL", "ENUM", "DOMAIN", "START WITH",
         "id", "customer_id", "note", "x", "orders", "shop.orders", "t1", "zz", "todo", "fixme", "v2", "see", "ticket", "the", "old", "key", "42", "3.14",
         ",", "(", ")", ";", "=", ".", ":", "*", "/", "-", "<", ">", "%", "!", "?", "@", "[", "]", "{", "}", "|", "+", "&", "#", "( , ; )", ");", "(a, b)", "a=b", "\u2014", "\u2013", "caf\u00e9"]
MARKER_TEXTS = ["--", "/*", "*/", "---", "/**", "--/*", "-- x /* y", "/* x -- y", "x--y", "x/*y", "x*/y"]


def _demark(t):
    while any(m in t for m in MARKERS):
        t = t.replace("--", "- -").replace("/*", "/ *").replace("*/", "* /")
    return t


def rand_text(rnd, lo=0, hi=6):
    n = rnd.randint(lo, hi)
    toks = [rnd.choice(WORDS) for _ in range(n)]
    t = ""
    for i, w in enumerate(toks):
        t += ("" if i == 0 else rnd.choice([" ", " ", " ", "", "  "])) + w
    return _demark(rnd.choice(["", " ", " ", ""]) + t + rnd.choice(["", "", " ", ";", " ;"]))


def marker_text(rnd, markers):
    return rand_text(rnd, 0, 2) + rnd.choice(["", " "]) + rnd.choice(markers) + rnd.choice(["", " "]) + rand_text(rnd, 0, 2)


def block_ok(t):
    """text usable on the first line of a block comment"""
    return not t.startswith("/")


WHOLE_KINDS = ["dash", "hash", "block1", "block2", "block3", "block3own", "block4"]
TRAIL_KINDS = ["tdash", "tblock"]


def make(rnd, kind, text=None, role=0, indent=None, markers=None):
    """one comment of the kind; `text` (else random) goes to line `role` of a multi-line block; other lines random"""
    def rt():
        return marker_text(rnd, markers) if markers and rnd.random() < 0.5 else rand_text(rnd)
    if text is None:
        text = rt()
    ind = rnd.choice(["", "", "  ", "    "]) if indent is None else indent
    if kind == "dash":
        return c_dash(text, ind)
    if kind == "hash":
        return c_hash(text, ind)
    if kind in ("block1", "tblock") and not block_ok(text):
        text = " " + text
    if kind == "block1":
        return c_block1(text, ind, rnd.choice(["", "", " ", "  "]))
    if kind == "tdash":
        return c_tdash(text, rnd.choice([" ", " ", "", "  "]))
    if kind == "tblock":
        return c_tblock(text, rnd.choice([" ", " ", "", "  "]), rnd.choice(["", "", " "]))
    n = {"block2": 2, "block3": 3, "block3own": 2, "block4": 4}[kind]
    texts = [rand_text(rnd) for _ in range(n)]
    texts[role % n] = text
    if not block_ok(texts[0]):
        texts[0] = " " + texts[0]
    # multi-line block comments start in column 0 unless an indent is requested explicitly (see TAG_INDENTED)
    return c_blockn(texts, indent or "", rnd.choice(["", "", "  ", "      "]), kind == "block3own", rnd.choice(["", "", " "]))


def fix(com, rnd, kind):
    """regenerate until the comment is valid (random texts can glue a close marker together)"""
    for _ in range(50):
        if valid(com):
            return com
        com = make(rnd, kind)
    raise AssertionError("cannot build a valid comment of kind " + kind)


# ------------------------------------------------------------------ base scripts
COL_NAMES = ["id", "name", "qty", "price", "created", "status", "ref_id", "note", "flag", "amount", "order_no", "descr", "kind", "value"]


def gen_table(rnd, name, ncols, layout, schema=None):
    """-> (lines, expected (table_name, schema, [column names]))"""
    seqs = S.option_sequences(2)
    names = rnd.sample(COL_NAMES, ncols)
    cols = [S.column(nm, rnd.choice(S.TYPES), list(rnd.choice(seqs)), rnd.choice(S.DEFAULTS))[0] for nm in names]
    full = "%s.%s" % (schema, name) if schema else name
    if layout == 0:
        lines = ["CREATE TABLE %s (" % full] + ["    %s%s" % (c, "," if i < ncols - 1 else "") for i, c in enumerate(cols)] + [");"]
    elif layout == 1:
        lines = ["CREATE TABLE %s (%s);" % (full, ", ".join(cols))]
    elif layout == 2:
        lines = ["CREATE TABLE %s (" % full] + ["  %s %s" % (" " if i == 0 else ",", c) for i, c in enumerate(cols)] + [");"]
    elif layout == 3:
        lines = ["CREATE TABLE %s" % full, "("] + ["    %s%s" % (c, "," if i < ncols - 1 else "") for i, c in enumerate(cols)] + [")", ";"]
    elif layout == 4:
        lines = ["CREATE TABLE %s (" % full] + ["%s%s" % (c, "," if i < ncols - 1 else "") for i, c in enumerate(cols)] + [");"]
    else:  # 5: not terminated by ';' (the next CREATE / end of script ends it)
        lines = ["CREATE TABLE %s (" % full] + ["  %s%s" % (c, "," if i < ncols - 1 else "") for i, c in enumerate(cols)] + [")"]
    return lines, (name, schema, names)


def fixed_units():
    units = [(k, v.split("\n")) for k, v in S.SUPPORTED.items()] + [(k, "\n".join(v).split("\n")) for k, v in S.GROUPS.items()]
    units += [
        ("go_use", "CREATE TABLE g1 (\n  x int\n);\nGO\nCREATE TABLE g2 (\n  y int NOT NULL\n);\nUSE db2;\nCREATE TABLE g3 (z int);".split("\n")),
        ("unterminated", "CREATE TABLE u1 (\n  x int,\n  y varchar(5)\n)\nCREATE TABLE u2 (\n  z int\n)\nALTER TABLE u1 ADD w int".split("\n")),
        ("set_between", "SET search_path = shop;\nCREATE TABLE s1 (\n  x int\n);\nSET b = 2;\nCREATE TABLE s2 (y int);".split("\n")),
        ("hql_part", "CREATE EXTERNAL TABLE ev (\n    ts string,\n    msg string COMMENT 'text of it'\n)\nPARTITIONED BY (dt string)\nSTORED AS PARQUET\nLOCATION 's3://bucket/ev';".split("\n")),
        ("strings", "CREATE TABLE q1 (\n  a varchar(5) DEFAULT 'x, y' NOT NULL,\n  b varchar(9) DEFAULT 'p' COMMENT 'q (r)',\n  c int\n);".split("\n")),
        # literals holding the OTHER quote character an odd number of times: the quote state of a line is per quote kind
        ("mixed_quotes", "CREATE TABLE q2 (\n  a varchar(5) DEFAULT '\"' NOT NULL,\n  b varchar(40) COMMENT 'say \"hi\" to o\"neil',\n  c int\n);".split("\n")),
    ]
    return units


def usable(rn, name, lines, expect=None):
    """keep a base only if the comment-free script parses and (for generated tables) lists the declared tables / columns"""
    r = rn.base("\n".join(lines), None, None)
    if r[0] != "ok":
        rn.ck.notes.setdefault("bases_dropped", []).append(name)
        return False
    ents = split_result(r[1])[0]
    if not ents:
        rn.ck.notes.setdefault("bases_dropped", []).append(name)
        return False
    if expect is not None:
        got = [(e.get("table_name"), e.get("schema"), [c.get("name") for c in e.get("columns", [])]) for e in ents]
        if got != expect:
            rn.ck.notes.setdefault("bases_dropped", []).append(name)
            return False
    return True


def gen_script(rnd, units, tag):
    """random script: 1-4 units (generated tables and fixed statements) -> (lines, expected tables or None)"""
    lines, expect, all_tables = [], [], True
    for ui in range(rnd.randint(1, 4)):
        if rnd.random() < 0.6:
            ls, ex = gen_table(rnd, "%s_t%d" % (tag, ui), rnd.randint(1, 7), rnd.choice([0, 0, 1, 2, 3, 4, 5]), rnd.choice([None, None, "s1"]))
            expect.append(ex)
        else:
            k, ls = rnd.choice(units)
            all_tables = False
        lines += ls
        if rnd.random() < 0.3:
            lines.append("")
    while lines and lines[-1] == "":
        lines.pop()
    return lines, ([(n, s, c) for n, s, c in expect] if all_tables else None)


# ------------------------------------------------------------------ corpus positions
def corpus_positions(lines):
    """-> (whole-line positions, lines that may take a trailing comment): only where no quote is open and the
    neighbourhood is free of existing comments / quote-led lines"""
    whole, trail = [], []
    openq = False
    state = []
    for ln in lines:
        state.append(openq)
        for q in "'\"`":
            if ln.count(q) % 2:
                openq = True  # conservative: after an unbalanced line nothing further is used
    state.append(openq)
    for i in range(len(lines) + 1):
        if state[i]:
            break
        if i < len(lines) and QUOTE_LED.match(lines[i]):
            continue
        whole.append(i)
    for i, ln in enumerate(lines):
        if state[i] or state[i + 1]:
            break
        if not ln.strip() or any(m in ln for m in ("--", "#", "/*", "*/", "'", '"', "`")):
            continue
        if i + 1 < len(lines) and QUOTE_LED.match(lines[i + 1]):
            continue
        trail.append(i)
    return whole, trail


# ------------------------------------------------------------------ the check
def check(ck):
    rnd = ck.rnd
    quick = ck.quick()
    rn = Runner(ck)
    units = [(k, ls) for k, ls in fixed_units() if usable(rn, k, ls)]
    sets = {}

    def count(name, n=1):
        sets[name] = sets.get(name, 0) + n

    # bases for the systematic sets: generated tables in every layout + every fixed unit + two-unit scripts
    bases = []
    for layout in range(6):
        for ncols in ((1, 3) if quick else (1, 2, 3, 6)):
            ls, ex = gen_table(rnd, "g%d_%d" % (layout, ncols), ncols, layout, "s1" if (layout + ncols) % 2 else None)
            tail, tex = gen_table(rnd, "after%d" % layout, 2, 1 if layout != 5 else 5)
            if usable(rn, "gen-l%d-c%d" % (layout, ncols), ls + tail, [ex, tex]):
                bases.append(("gen-l%d-c%d" % (layout, ncols), ls + tail))
    for k, ls in units:
        bases.append((k, ls))
    if not quick:
        for i in range(25):
            a, b = rnd.sample(units, 2)
            if usable(rn, "pair-%s-%s" % (a[0], b[0]), a[1] + b[1]):
                bases.append(("pair-%s-%s" % (a[0], b[0]), a[1] + b[1]))

    # (1) one whole-line comment of every style before / between / after every line
    reps = 1 if quick else 3
    for bname, lines in bases:
        for pos in range(len(lines) + 1):
            for kind in WHOLE_KINDS:
                if quick and kind == "block4":
                    continue
                for rep in range(reps):
                    com = fix(make(rnd, kind), rnd, kind)
                    rn.case("whole-line/every-position", (bname, pos, kind, rep), lines, [("w", pos, com)])
                    count("whole-line/every-position")
    # (2) one trailing comment after the code of every line
    for bname, lines in bases:
        for li, ln in enumerate(lines):
            if not ln.strip():
                continue
            for kind in TRAIL_KINDS:
                for rep in range(reps):
                    com = fix(make(rnd, kind), rnd, kind)
                    rn.case("trailing/every-line", (bname, li, kind, rep), lines, [("t", li, com)])
                    count("trailing/every-line")

    # (3) text matrix: statement-shaped / punctuation-only texts x style x line role x position
    mat = [
        ("terminated", "CREATE TABLE orders (\n  id int NOT NULL,\n  customer_id int,\n  note varchar(20) DEFAULT 'n/a'\n);\nCREATE TABLE customers (\n  cid int,\n  name varchar(30)\n);".split("\n")),
        ("unterminated", "CREATE TABLE orders (\n  id int NOT NULL,\n  customer_id int\n)\nCREATE TABLE customers (\n  cid int\n)\nALTER TABLE orders ADD z int".split("\n")),
        ("sequence-go", "CREATE SEQUENCE dev.ids\n    INCREMENT BY 5\n    START WITH 10;\nGO\nCREATE TABLE after_go (\nx int,\ny int\n);".split("\n")),
    ]
    mat = [(n, ls) for n, ls in mat if usable(rn, "matrix-" + n, ls)]
    for ti, text in enumerate(START_TEXTS):
        for ki, kind in enumerate(WHOLE_KINDS + TRAIL_KINDS):
            nrole = {"block2": 2, "block3": 3, "block3own": 2, "block4": 4}.get(kind, 1)
            roles = range(nrole) if not quick else [(ti + ki) % nrole]
            for role in roles:
                for mi, (mname, lines) in enumerate(mat):
                    allpos = list(range(len(lines) + 1)) if kind in WHOLE_KINDS else list(range(len(lines)))
                    if quick:
                        poss = [allpos[(ti * 7 + ki * 3 + mi * 5 + role) % len(allpos)]]
                    else:
                        poss = allpos
                    for pos in poss:
                        com = make(rnd, kind, text=text, role=role)
                        if not valid(com):
                            continue
                        rn.case("text-matrix", (ti, kind, role, mname, pos), lines, [("w" if kind in WHOLE_KINDS else "t", pos, com)])
                        count("text-matrix")

    # (4) comment markers of another style inside the text (incl. the known-defect input classes); "block2i" = indented 2-line block
    mlines = mat[0][1]
    n_m = len(mlines)
    for mi, mk in enumerate(MARKER_TEXTS):
        for kind in WHOLE_KINDS + ["block2i"] + TRAIL_KINDS:
            if "*/" in mk and kind not in ("dash", "hash", "tdash"):
                continue
            whole = kind not in TRAIL_KINDS
            nrole = {"block2": 2, "block2i": 2, "block3": 3, "block3own": 2, "block4": 4}.get(kind, 1)
            for role in range(nrole):
                allpos = sorted({0, 2, 3, min(5, n_m), n_m}) if whole else sorted({0, 1, 3, min(4, n_m - 1), n_m - 1})
                k = len(allpos)
                for pos in (allpos if not quick else sorted({allpos[(mi + role) % k], allpos[(mi + role + 2) % k]})):
                    text = rnd.choice([" ", ""]) + rnd.choice(["see", "old loader hints", "x", ""]) + rnd.choice([" ", ""]) + mk + rnd.choice([" ", ""]) + rnd.choice(["and ( , ; )", "y", "", "end"])
                    # the other lines of a multi-line block are free of markers, so `role` decides the input class
                    if kind == "block2i":
                        com = make(rnd, "block2", text=text, role=role, indent=rnd.choice(["  ", "    "]))
                    else:
                        com = make(rnd, kind, text=text, role=role)
                    if not valid(com) or len(tags_of(com)) > 1:
                        continue
                    rn.case("marker-texts", (mk, kind, role, pos), mlines, [("w" if whole else "t", pos, com)])
                    count("marker-texts")

    # (5) indented block comments spanning lines (2 lines: fine; 3 or more: known-defect input class)
    for bi, (bname, lines) in enumerate(mat + bases[:: (6 if quick else 2)]):
        for pos in range(len(lines) + 1):
            for kind in (["block2", "block3", "block3own", "block4"] if not quick else [["block2", "block3"], ["block3own", "block4"]][(bi + pos) % 2]):
                com = make(rnd, kind, indent=rnd.choice(["  ", "    ", " "]))
                if not valid(com) or len(tags_of(com)) > 1:
                    continue
                rn.case("indented-blocks", (bname, pos, kind), lines, [("w", pos, com)])
                count("indented-blocks")

    # (6) random scripts with several comments of mixed styles
    n_rand = 350 if quick else 9000
    for i in range(n_rand):
        lines, expect = gen_script(rnd, units, "r%d" % i)
        if not usable(rn, "random-%d" % i, lines, expect):
            continue
        fin = rnd.random() < 0.3
        allow_markers = rnd.random() < 0.2
        inserts, used_trail, script_tags = [], set(), set()
        for _ in range(rnd.randint(2, 7)):
            for _try in range(20):
                if rnd.random() < 0.6:
                    kind = rnd.choice(WHOLE_KINDS)
                    com = make(rnd, kind, markers=MARKER_TEXTS[:9] if allow_markers else None, indent=(rnd.choice([" ", "  "]) if rnd.random() < 0.1 else "") if kind.startswith("block") and kind != "block1" else None)
                    ins = ("w", rnd.randint(0, len(lines)), com)
                else:
                    kind = rnd.choice(TRAIL_KINDS)
                    cand = [li for li, ln in enumerate(lines) if ln.strip() and li not in used_trail]
                    if not cand:
                        continue
                    com = make(rnd, kind, markers=MARKER_TEXTS[:9] if allow_markers else None)
                    ins = ("t", rnd.choice(cand), com)
                if not valid(com):
                    continue
                t = tags_of(com)
                if len(script_tags | t) > 1:
                    continue
                script_tags |= t
                if ins[0] == "t":
                    used_trail.add(ins[1])
                inserts.append(ins)
                break
        rn.case("random-multi", i, lines, inserts, final_newline=fin)
        count("random-multi")

    # (7) output modes / grouped output
    n_modes = 8 if quick else 60
    for i in range(n_modes):
        lines, expect = gen_script(rnd, units, "m%d" % i)
        if not usable(rn, "modes-%d" % i, lines, expect):
            continue
        inserts, used = [], set()
        for _ in range(rnd.randint(2, 5)):
            if rnd.random() < 0.6:
                kind = rnd.choice(WHOLE_KINDS)
                inserts.append(("w", rnd.randint(0, len(lines)), fix(make(rnd, kind, indent="" if kind not in ("dash", "hash", "block1") else None), rnd, kind)))
            else:
                cand = [li for li, ln in enumerate(lines) if ln.strip() and li not in used]
                if cand:
                    kind = rnd.choice(TRAIL_KINDS)
                    li = rnd.choice(cand)
                    used.add(li)
                    inserts.append(("t", li, fix(make(rnd, kind), rnd, kind)))
        for mode in MODES:
            for grouped in (False, True):
                rn.case("modes-grouped", (i, mode, grouped), lines, inserts, run_kw=dict(output_mode=mode, group_by_type=grouped))
                count("modes-grouped")

    # (8) lines that start with a quoted literal (the line splitter does not split before them): known-defect input class
    ql = "CREATE TYPE shop.mood AS ENUM (\n'sad',\n'ok'\n);\nCREATE TABLE after_type (cid int);".split("\n")
    if usable(rn, "quote-led", ql):
        for pos in range(len(ql) + 1):
            for kind in ["dash", "hash", "block1", "block2"]:
                rn.case("quote-led-lines", (pos, kind), ql, [("w", pos, fix(make(rnd, kind, indent=""), rnd, kind))])
                count("quote-led-lines")
        for li in range(len(ql)):
            for kind in TRAIL_KINDS:
                rn.case("quote-led-lines", (li, kind), ql, [("t", li, fix(make(rnd, kind), rnd, kind))])
                count("quote-led-lines")

    # (9) the repository's own test DDLs, comments only at positions where no quote is open
    cp = [(cid, d) for cid, d in corpus() if not any(m in d for m in ("/*", "*/")) and "\r" not in d and "\\" not in d and d.isascii()]
    n_c = 0
    for ci, (cid, d) in enumerate(cp if not quick else cp[::3]):
        lines = d.split("\n")
        while lines and not lines[-1].strip():
            lines.pop()
        if not lines or rn.base("\n".join(lines), None, None)[0] != "ok":
            continue
        has_comments = any(m in d for m in ("--", "#"))
        whole, trail = corpus_positions(lines)
        for rep in range(2 if quick else 8):
            inserts = []
            for pos in rnd.sample(whole, min(len(whole), rnd.randint(1, 3))):
                kind = rnd.choice(WHOLE_KINDS)
                inserts.append(("w", pos, fix(make(rnd, kind, indent="" if kind not in ("dash", "hash", "block1") else None), rnd, kind)))
            if trail and rnd.random() < 0.7:
                for li in rnd.sample(trail, min(len(trail), rnd.randint(1, 2))):
                    kind = rnd.choice(TRAIL_KINDS)
                    inserts.append(("t", li, fix(make(rnd, kind), rnd, kind)))
            if has_comments:
                # existing comments: only the entities are compared (the comments entry also lists the script's own comments)
                v = rn.verdict(lines, inserts, None, None, False)
                if v is not None and v != "skip" and not v[0].startswith("comments-entry"):
                    ck.fail("corpus", (cid, rep), "c08:corpus-" + v[0], v[1])
                else:
                    ck.ok("corpus", (cid, rep))
            else:
                rn.case("corpus", (cid, rep), lines, inserts)
            n_c += 1
    count("corpus", n_c)
    ck.notes["cases_skipped"] = rn.skipped
    ck.notes["generated"] = sets
    rule = ("metamorphic: comment-free scripts generated from an abstract description (tables x 6 layouts x 1-7 columns with options/defaults, one statement of every supported kind, ALTER/INDEX groups, "
            "statements without ';', GO/USE and SET lines, regression corpus) vs the same script with comments inserted (whole-line '--', '#', '/* */'; block comments of 2-5 lines, closing marker on the last text "
            "line or on its own line; trailing '--' and '/* */', glued or spaced) whose quote-free text is drawn from SQL keywords (incl. CREATE/ALTER/DROP/SET/GO/USE/INSERT/GRANT/DELETE at line starts, any case), "
            "identifiers of the script, , ( ) ; = and other punctuation, empty text, and the markers of the other comment styles; contract: entities identical (flat and grouped, all modes), at most one comments entry "
            "(list of str), every item is a piece of one inserted comment and items follow source order")
    bound = ("%d base scripts x every line position x 7 whole-line styles and x every line x 2 trailing styles; %d statement-shaped texts x 9 styles x line roles x %s positions of 3 scripts; %d marker texts; "
             "indented multi-line blocks; %d random scripts of 1-4 statements with 2-7 comments; %d scripts x 15 modes x flat/grouped; corpus scripts x %d random insertions; per set: %s"
             % (len(bases), len(START_TEXTS), "1 rotating" if quick else "all", len(MARKER_TEXTS), n_rand, n_modes, 2 if quick else 8, sets))
    return rule, bound
