"""Common infrastructure of the BOUNDED stand-ins (run-time contracts on the real code).
Runs under /venv/bin/python with the scratch copy of the repository first on PYTHONPATH."""
import ast
import copy
import glob
import json
import os
import random
import time
import traceback

REPO = os.environ.get("VERIF_REPO", "/repo")
VERIF = os.path.dirname(os.path.dirname(os.path.abspath(__file__)))
MODES = ["sql", "redshift", "spark_sql", "mysql", "bigquery", "mssql", "databricks", "sqlite", "vertics", "ibm_db2",
         "postgres", "oracle", "hql", "snowflake", "athena"]


def lib():
    import simple_ddl_parser
    assert not simple_ddl_parser.__file__.startswith(REPO + "/"), "bounded checks must run on the scratch copy, not on " + REPO
    return simple_ddl_parser


def parse(ddl, ctor=None, **run_kw):
    """fresh parser, one run. -> ('ok', result) | ('exc', ExceptionTypeName, message)"""
    from simple_ddl_parser import DDLParser
    try:
        return ("ok", DDLParser(ddl, **(ctor or {})).run(**run_kw))
    except Exception as e:  # noqa
        return ("exc", type(e).__name__, str(e)[:200])


_corpus = None


def corpus():
    """every DDL string literal the repository's own tests feed to DDLParser / parse_from_file
    (extracted from the test ASTs on every run) -> list of (id, ddl)"""
    global _corpus
    if _corpus is not None:
        return _corpus
    out, seen = [], set()
    for path in sorted(glob.glob(os.path.join(REPO, "tests", "**", "*.py"), recursive=True)):
        try:
            tree = ast.parse(open(path, encoding="utf-8").read())
        except SyntaxError:
            continue
        for fn in ast.walk(tree):
            if not isinstance(fn, ast.FunctionDef):
                continue
            consts = {}
            for n in ast.walk(fn):
                if isinstance(n, ast.Assign) and isinstance(n.value, ast.Constant) and isinstance(n.value.value, str):
                    for t in n.targets:
                        if isinstance(t, ast.Name):
                            consts[t.id] = n.value.value
            k = 0
            for n in ast.walk(fn):
                if isinstance(n, ast.Call) and isinstance(n.func, ast.Name) and n.func.id == "DDLParser" and n.args:
                    a = n.args[0]
                    ddl = a.value if isinstance(a, ast.Constant) and isinstance(a.value, str) else consts.get(getattr(a, "id", None))
                    if isinstance(ddl, str) and ddl not in seen:
                        seen.add(ddl)
                        out.append(("%s::%s#%d" % (os.path.relpath(path, REPO), fn.name, k), ddl))
                        k += 1
    for path in sorted(glob.glob(os.path.join(REPO, "tests", "sql", "*.sql"))):
        try:
            ddl = open(path, encoding="utf-8").read()
        except UnicodeDecodeError:
            continue
        if ddl not in seen:
            seen.add(ddl)
            out.append((os.path.relpath(path, REPO), ddl))
    _corpus = out
    return out


class Checker:
    """collects evaluations / distinct cases / failures of one bounded run"""

    def __init__(self, pid, tier, seed):
        self.pid, self.tier, self.seed = pid, tier, seed
        self.rnd = random.Random(seed)
        self.evaluations = 0
        self.distinct = set()
        self.failures = []
        self.fail_classes = {}
        self.samples = []
        self.notes = {}
        self.t0 = time.time()
        self.sets = {}

    def quick(self):
        return self.tier != "thorough"

    def ok(self, set_name, key, sample=None):
        self.evaluations += 1
        self.distinct.add((set_name, key))
        self.sets[set_name] = self.sets.get(set_name, 0) + 1
        if sample is not None and len(self.samples) < 8 and self.rnd.random() < 0.05:
            self.samples.append(sample)

    def fail(self, set_name, key, cls, info):
        """cls: witness class (matched against known_findings.json); info: dict with ddl, observed, expected"""
        self.evaluations += 1
        self.distinct.add((set_name, key))
        self.sets[set_name] = self.sets.get(set_name, 0) + 1
        n = self.fail_classes.get(cls, 0)
        self.fail_classes[cls] = n + 1
        if n == 0:
            path = os.path.join(os.environ.get("VERIF_OUT") or VERIF, "replays", self.pid, "bounded_%s.json" % "".join(c if c.isalnum() else "_" for c in cls)[:80])
            os.makedirs(os.path.dirname(path), exist_ok=True)
            rec = dict(property=self.pid, witness_class=cls, set=set_name, **info)
            rec["how_to_replay"] = "PYTHONPATH=<copy of /repo> /venv/bin/python -c 'from simple_ddl_parser import DDLParser; print(DDLParser(<ddl>, **ctor).run(**run))'"
            with open(path, "w") as f:
                json.dump(rec, f, indent=1, default=str)
            self.failures.append({"class": cls, "replay": path, "set": set_name, "info": _short(info)})

    def finish(self, out_path, rule, bound):
        for f in self.failures:
            f["count"] = self.fail_classes.get(f["class"], 0)
        res = dict(evaluations=self.evaluations, distinct_nontrivial=len(self.distinct), rule=rule, bound=bound,
                   sets=self.sets, samples=self.samples[:8], failures=self.failures, notes=self.notes,
                   seconds=round(time.time() - self.t0, 1))
        with open(out_path, "w") as f:
            json.dump(res, f, indent=1, default=str)
        return res


def _short(info):
    return {k: (v if len(str(v)) < 600 else str(v)[:600] + "...") for k, v in info.items()}


def entities(res):
    """flat result -> (entities without the comments entry, comments list)"""
    ents = [e for e in res if not (isinstance(e, dict) and set(e.keys()) == {"comments"})]
    com = [c for e in res if isinstance(e, dict) and set(e.keys()) == {"comments"} for c in e["comments"]]
    return ents, com


def jdump(x):
    return json.dumps(x, sort_keys=True, default=str)
