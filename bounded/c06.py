"""C06 BOUNDED stand-in: identifiers verbatim in every naming position; normalize_names strips exactly one pair.

Oracle from the statement: every written identifier is reported exactly as written (delimiters and case kept);
with normalize_names=True the result equals the plain result with every identifier replaced by the same identifier
minus its one pair of outer delimiters - and nothing else differs."""
import itertools

from bounded.common import parse, entities, jdump

# identifier forms: (text as written, text without its one pair of outer delimiters)
FORMS = [("users", "users"), ("Order_Items", "Order_Items"), ("UPPER", "UPPER"), ("a1", "a1"), ('"Quoted"', "Quoted"), ('"mixed Case"', "mixed Case"),
         ("`tick`", "tick"), ("[Bracket]", "Bracket"), ('"[x]"', "[x]"), ("[dbo_1]", "dbo_1"), ('"a.b"', "a.b"), ("x", "x"), ("`Y`", "Y"), ("_lead", "_lead"),
         ("tbl$1", "tbl$1"), ('"select"', "select"), ("emp#", "emp#"), ("collateral", "collateral"), ("primary_flag", "primary_flag"), ("index_no", "index_no")]
# keyword-shaped column names (the statement: every grammar keyword except the clause-opening words is accepted as a column name)
EXCLUDED = {"LIKE", "CONSTRAINT", "FOREIGN", "PRIMARY", "INDEX", "UNIQUE", "CHECK", "WITH", "CLUSTER", "BY", "KEY", "COLLATE", "AUTOINCREMENT", "AUTO_INCREMENT"}


def keywords():
    from simple_ddl_parser import tokens as tok
    words = set()
    for name in dir(tok):
        v = getattr(tok, name)
        if isinstance(v, dict) and not name.startswith("_"):
            words.update(k for k in v if isinstance(k, str) and k.isalpha())
    return sorted(w for w in words if w not in EXCLUDED)


def strip_map(x, mapping):
    """replace every string that is a written identifier by its stripped form, recursively"""
    if isinstance(x, dict):
        return {k: strip_map(v, mapping) for k, v in x.items()}
    if isinstance(x, list):
        return [strip_map(v, mapping) for v in x]
    if isinstance(x, str) and x in mapping:
        return mapping[x]
    return x


def script(ids):
    """twelve naming positions at once; ids: dict position -> written identifier"""
    i = ids
    return ("CREATE TABLE {schema}.{table} (\n    {c1} int NOT NULL,\n    {c2} varchar(10) REFERENCES {rschema}.{rtable} ({rcol}),\n    {c3} int,\n"
            "    CONSTRAINT {cname} UNIQUE ({c1}, {c3}),\n    PRIMARY KEY ({c1}, {c2})\n);\n"
            "CREATE INDEX {index} ON {schema}.{table} ({c2}, {c3});\n"
            "ALTER TABLE {schema}.{table} ADD CONSTRAINT {aname} FOREIGN KEY ({c3}) REFERENCES {rtable} ({rcol});\n"
            "CREATE SEQUENCE {sschema}.{seq} START 1;").format(**i)


POSITIONS = ["schema", "table", "c1", "c2", "c3", "rschema", "rtable", "rcol", "cname", "index", "aname", "sschema", "seq"]


def written_everywhere(res, ids):
    """every identifier appears verbatim at its place"""
    t = res[0]
    probs = []
    if t.get("schema") != ids["schema"] or t.get("table_name") != ids["table"]:
        probs.append("table name / schema")
    if [c["name"] for c in t.get("columns", [])] != [ids["c1"], ids["c2"], ids["c3"]]:
        probs.append("column names")
    if t.get("primary_key") != [ids["c1"], ids["c2"]]:
        probs.append("primary key names")
    ref = (t["columns"][1].get("references") or {}) if len(t.get("columns", [])) > 1 else {}
    if (ref.get("schema"), ref.get("table"), ref.get("column")) != (ids["rschema"], ids["rtable"], ids["rcol"]):
        probs.append("reference names")
    un = (t.get("constraints") or {}).get("uniques") or [{}]
    if un[0].get("constraint_name") != ids["cname"] or un[0].get("columns") != [ids["c1"], ids["c3"]]:
        probs.append("constraint names")
    ix = (t.get("index") or [{}])[0]
    if ix.get("index_name") != ids["index"] or ix.get("columns") != [ids["c2"], ids["c3"]]:
        probs.append("index names")
    ac = ((t.get("alter") or {}).get("columns") or [{}])[0]
    if ac.get("name") != ids["c3"] or ac.get("constraint_name") != ids["aname"] or (ac.get("references") or {}).get("table") != ids["rtable"]:
        probs.append("alter names")
    seqs = [e for e in res if "sequence_name" in e]
    if not seqs or seqs[0].get("schema") != ids["sschema"] or seqs[0].get("sequence_name") != ids["seq"]:
        probs.append("sequence names")
    return probs


def check(ck):
    rnd = ck.rnd
    n_rot = len(FORMS) * 4 if ck.quick() else len(FORMS) * 24
    # (i) rotate the identifier forms through the thirteen naming positions
    for r in range(n_rot):
        forms = [FORMS[(r + 3 * k) % len(FORMS)] for k in range(len(POSITIONS))] if r < len(FORMS) else [rnd.choice(FORMS) for _ in POSITIONS]
        # distinct column names within the table
        cols = set()
        for k, p in enumerate(POSITIONS):
            if p in ("c1", "c2", "c3"):
                while forms[k][1].lower() in cols:
                    forms[k] = rnd.choice(FORMS)
                cols.add(forms[k][1].lower())
        ids = {p: f[0] for p, f in zip(POSITIONS, forms)}
        mapping = {f[0]: f[1] for f in forms}
        ddl = script(ids)
        plain, norm = parse(ddl), parse(ddl, ctor=dict(normalize_names=True))
        key = ("rotation", r)
        if plain[0] != "ok" or norm[0] != "ok":
            ck.fail("naming-positions", key, "c06:exception", dict(ddl=ddl, observed=[plain, norm]))
            continue
        pe, ne = entities(plain[1])[0], entities(norm[1])[0]
        if len(pe) != 2:
            ck.fail("naming-positions", key, "c06:entities-lost", dict(ddl=ddl, observed=pe, expected="one table (with index and alter) and one sequence"))
            continue
        probs = written_everywhere(pe, ids)
        if probs:
            ck.fail("naming-positions", key, "c06:not-verbatim:" + probs[0].replace(" ", "-"), dict(ddl=ddl, observed=pe, expected=ids, problems=probs))
            continue
        exp = strip_map(pe, mapping)
        if jdump(ne) != jdump(exp):
            ck.fail("naming-positions", key, "c06:normalize-names-differs-by-more-than-delimiters", dict(ddl=ddl, ctor=dict(normalize_names=True), observed=ne, expected=exp))
            continue
        ck.ok("naming-positions", key, dict(ddl=ddl[:300]))
    # (ii) keyword-shaped column names, in every letter-case pattern, at each column position, and in key / index lists
    kws = keywords()
    if ck.quick():
        kws = kws[:: 2] if ck.seed % 2 == 0 else kws[1:: 2]
    for wi, w in enumerate(kws):
        for spell in ((w.lower(), w.upper()) if ck.quick() else (w.lower(), w.upper(), w.title())):
            pos = wi % 3
            names = ["a", "b", "c"]
            names[pos] = spell
            if w in ("CREATE", "ALTER", "DROP", "SET", "GO", "USE", "INSERT", "GRANT", "DELETE"):
                # a line must not START with a statement-level word (the line-based statement splitter; proviso of C05)
                ddl = "CREATE TABLE t (%s int, %s varchar(5) NOT NULL, %s int);" % tuple(names)
            else:
                ddl = "CREATE TABLE t (\n    %s int,\n    %s varchar(5) NOT NULL,\n    %s int\n);" % tuple(names)
            r = parse(ddl)
            key = (w, spell)
            got = [c["name"] for c in r[1][0]["columns"]] if r[0] == "ok" and r[1] and "columns" in r[1][0] else r
            if got != names:
                ck.fail("keyword-column-names", key, "c06:keyword-shaped-column-name-not-accepted", dict(ddl=ddl, observed=got, expected=names))
            else:
                ck.ok("keyword-column-names", key)
            ddl2 = "CREATE TABLE t (a int, %s int, c int, PRIMARY KEY (a, %s));\nCREATE INDEX i ON t (%s, c);" % (spell, spell, spell)
            r2 = parse(ddl2)
            t = r2[1][0] if r2[0] == "ok" and r2[1] else {}
            ok2 = t.get("primary_key") == ["a", spell] and [c["name"] for c in t.get("columns", [])] == ["a", spell, "c"] and (t.get("index") or [{}])[0].get("columns") == [spell, "c"]
            if w in ("ASC", "DESC") and spell == w:
                ok2 = True      # upper-case ASC / DESC in a key list are sort directions (C02 / C04), not names
            if not ok2:
                ck.fail("keyword-names-in-key-and-index-lists", key, "c06:keyword-shaped-name-in-key-or-index-list", dict(ddl=ddl2, observed=r2, expected="primary_key ['a', %r], index columns [%r, 'c']" % (spell, spell)))
            else:
                ck.ok("keyword-names-in-key-and-index-lists", key)
    # (iii) keyword-shaped names of sequences and of their schema (every keyword except the sequence option words themselves)
    from simple_ddl_parser import tokens as _tok
    seq_words = set(getattr(_tok, "sequence_reserved", {}))
    for wi, w in enumerate(kws):
        if w in seq_words:
            continue
        for spell in (w.lower(), w.upper()):
            for form, ddl, exp in (("name", "CREATE SEQUENCE %s START 1;" % spell, (None, spell)), ("schema", "CREATE SEQUENCE %s.sq1 INCREMENT BY 2;" % spell, (spell, "sq1")),
                                   ("name-after-schema", "CREATE SEQUENCE s1.%s START WITH 5;" % spell, ("s1", spell))):
                r = parse(ddl)
                got = [(e.get("schema"), e.get("sequence_name")) for e in r[1] if isinstance(e, dict) and "sequence_name" in e] if r[0] == "ok" else r
                if got != [exp]:
                    ck.fail("keyword-sequence-names", (w, spell, form), "c06:keyword-shaped-sequence-name-not-verbatim", dict(ddl=ddl, observed=got, expected=[exp]))
                else:
                    ck.ok("keyword-sequence-names", (w, spell, form))
    # (iv) a word the grammar has no rule for after the column list does not become a name
    for word in ("NOLOGGING", "COMPRESS", "STRICT", "nologging"):
        for tname, cols in (("users", ["id", "b"]), ('"Tbl"', ['"Id"', "b"]), ("[T1]", ["[a_b]", "c"])):
            for pk in ("", ", PRIMARY KEY (%s)" % cols[0]):
                ddl = "CREATE TABLE %s (%s int, %s varchar(5)%s) %s;" % (tname, cols[0], cols[1], pk, word)
                for norm in (False, True):
                    r = parse(ddl, ctor=dict(normalize_names=norm))
                    strip = (lambda s: s[1:-1] if norm and s[0] in '"[`' else s)
                    exp = (None, strip(tname), [strip(c) for c in cols])
                    got = [(e.get("schema"), e.get("table_name"), [c["name"] for c in e.get("columns", [])]) for e in r[1] if isinstance(e, dict) and "table_name" in e] if r[0] == "ok" else r
                    if got != [exp]:
                        ck.fail("unknown-trailing-word", (word, tname, bool(pk), norm), "c06:unknown-trailing-word-becomes-a-name", dict(ddl=ddl, ctor=dict(normalize_names=norm), observed=got, expected=[exp]))
                    else:
                        ck.ok("unknown-trailing-word", (word, tname, bool(pk), norm))
    return ("thirteen naming positions (schema, table, three columns, referenced schema / table / column, constraint, index, ALTER constraint, sequence schema / name) filled from %d identifier forms; "
            "contract: every identifier verbatim, normalize_names result == plain result with each identifier minus its one delimiter pair; keyword-shaped column names (every keyword of tokens.py except the "
            "clause-opening words) in definitions, PRIMARY KEY and index lists; keyword-shaped sequence / sequence-schema names; a single unknown word after the column list" % len(FORMS),
            "%d rotations of forms through positions; %d keywords x %d spellings x 2 scripts" % (n_rot, len(kws), 2 if ck.quick() else 3))
