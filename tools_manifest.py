"""Regenerate MANIFEST.json from pyvc/props.py (keeps it valid at all times)."""
import json, sys
sys.path.insert(0, "/verif")
from pyvc import props as P
ALL = ["C%02d" % i for i in range(1, 21)]
checks = []
for pid in ALL:
    cfg = P.PROPS.get(pid)
    if not cfg:
        continue
    checks.append(dict(
        property_id=pid,
        quick_cmd="./check %s quick" % pid,
        thorough_cmd="./check %s thorough" % pid,
        evidence_file="/verif/evidence/%s.json" % pid,
        replay_cmd_template="cat {path}   # replay file names the obligation, the model, the real-code replay and its command",
        engine="pyvc",
        level_claimed=dict(category=cfg["level"], text=cfg["level_text"], design_ref=cfg.get("design_ref", "DESIGN.md section 3 " + pid)),
        level_note=cfg["level_note"],
        technique=cfg["technique"],
    ))
na = [dict(property_id=pid, reason=P.NOT_APPLICABLE.get(pid, "check not built yet in this session (see DESIGN.md section 6 for the construction order)")) for pid in ALL if pid not in P.PROPS]
m = dict(
    version=1,
    setup_cmd="cd /verif && python3-vt -c 'import z3, ast; print(\"pyvc ready\", z3.get_version_string())' && test -x /usr/bin/cvc5",
    hooks=dict(guard="SIMPLE_DDL_PARSER_VERIF", enable="no hooks: contracts are sidecar files under /verif/contracts; /repo sources are read, never instrumented",
               baseline_off_cmd="cd /repo && /venv/bin/python -m pytest -ra -q -p no:cacheprovider --timeout=900 --continue-on-collection-errors",
               source_commits=[], add_only=True),
    engines=[dict(name="pyvc", path="/verif/pyvc", serves_properties=[c["property_id"] for c in checks],
                  kind_free_text="contract-based deductive verifier for the real Python source: symbolic interpretation of the repository ASTs, sidecar contracts, VCs discharged by cvc5/z3, counter-models replayed on the real code; bounded run-time-contract stand-ins where labelled")],
    checks=checks,
    notes="Fix commits in /repo and known findings are listed in /verif/known_findings.json; see DESIGN.md.",
    not_applicable=na,
)
json.dump(m, open("/verif/MANIFEST.json", "w"), indent=1)
print("MANIFEST: %d checks, %d not_applicable" % (len(checks), len(na)))
