#!/usr/bin/env python3
"""Run the registered checks against the seeded property-breaking changes (/verif/seeded/<id>/patch.diff).

Each seed is applied to its own throw-away copy of /repo's working tree (outside /repo and /verif,
removed afterwards); the check of the seed's property runs with VERIF_REPO pointing at the copy and
VERIF_OUT at a scratch output directory, so /verif/evidence and /verif/replays are not touched.

usage: tools/mutants.py [--tier quick] [--jobs 6] [--props C01,C17] [--update] [ids...]
  --update   write detected_by into seeded/<id>/meta.json
"""
import argparse
import concurrent.futures as cf
import json
import os
import shutil
import subprocess
import sys
import tempfile

VERIF = os.path.dirname(os.path.dirname(os.path.abspath(__file__)))
REPO = "/repo"


def run_one(sid, tier, also=()):
    meta = json.load(open(os.path.join(VERIF, "seeded", sid, "meta.json")))
    pid = meta["property"]
    d = tempfile.mkdtemp(prefix="mut_%s_" % sid)
    try:
        wt = os.path.join(d, "repo")
        shutil.copytree(REPO, wt, ignore=shutil.ignore_patterns(".git", "__pycache__", "*.pyc", ".pytest_cache"))
        ap = subprocess.run(["patch", "-p1", "-s", "-d", wt, "-i", os.path.join(VERIF, "seeded", sid, "patch.diff")], capture_output=True, text=True)
        if ap.returncode != 0:
            return sid, pid, dict(status="patch-failed", detail=(ap.stdout + ap.stderr)[-300:])
        out = {}
        for p in (pid,) + tuple(also):
            env = dict(os.environ, VERIF_REPO=wt, VERIF_OUT=os.path.join(d, "out"), PYTHONDONTWRITEBYTECODE="1")
            try:
                r = subprocess.run([os.path.join(VERIF, "check"), p, tier], capture_output=True, text=True, env=env, timeout=3600)
                lines = [l[:260] for l in r.stdout.splitlines() if l.startswith(("VIOLATION", "UNDECIDED", "CHECKER-ERROR", "KNOWN"))]
                lines = [l for l in lines if l.startswith("VIOLATION")] + [l for l in lines if not l.startswith("VIOLATION")]
                out[p] = dict(rc=r.returncode, lines=lines[:6], tail=r.stdout.strip().splitlines()[-1:] if r.stdout.strip() else r.stderr[-300:])
            except subprocess.TimeoutExpired:
                out[p] = dict(rc="timeout", lines=[])
        return sid, pid, out
    finally:
        shutil.rmtree(d, ignore_errors=True)


def main():
    ap = argparse.ArgumentParser()
    ap.add_argument("--tier", default="quick")
    ap.add_argument("--jobs", type=int, default=5)
    ap.add_argument("--props", default="")
    ap.add_argument("--update", action="store_true")
    ap.add_argument("ids", nargs="*")
    a = ap.parse_args()
    sys.path.insert(0, VERIF)
    from pyvc.props import PROPS
    ids = a.ids or sorted(os.listdir(os.path.join(VERIF, "seeded")))
    if a.props:
        want = set(a.props.split(","))
        ids = [i for i in ids if i.split("-")[0] in want]
    ids = [i for i in ids if json.load(open(os.path.join(VERIF, "seeded", i, "meta.json")))["property"] in PROPS]
    res = {}
    with cf.ThreadPoolExecutor(max_workers=a.jobs) as ex:
        for sid, pid, out in ex.map(lambda s: run_one(s, a.tier), ids):
            res[sid] = out
            if "status" in out:
                print("%-8s %s %s" % (sid, out["status"], out["detail"]))
                continue
            o = out[pid]
            verdict = "CAUGHT" if o["rc"] == 1 and any(l.startswith("VIOLATION") for l in o["lines"]) else ("missed" if o["rc"] == 0 else "rc=%s" % o["rc"])
            print("%-8s %-7s %s" % (sid, verdict, (o["lines"][0] if o["lines"] else o.get("tail"))))
            sys.stdout.flush()
            if a.update:
                mp = os.path.join(VERIF, "seeded", sid, "meta.json")
                m = json.load(open(mp))
                m["detected_by"] = dict(check="./check %s %s" % (pid, a.tier), verdict=verdict,
                                        first_line=(o["lines"][0] if o["lines"] else None))
                json.dump(m, open(mp, "w"), indent=1)
    n = sum(1 for s, o in res.items() if "status" not in o and o[s.split("-")[0]]["rc"] == 1)
    print("caught %d / %d" % (n, len(res)))


if __name__ == "__main__":
    main()
