#!/usr/bin/env python3
"""Run the registered checks against the behaviour-preserving changes in /verif/benign/<name>/patch.diff (renamed locals,
extracted helpers, equivalent rewrites, comments, bookkeeping attributes): every check must still exit 0 - an alarm on one
of these is a false alarm of the machinery.    usage: tools/benign.py [--jobs 6] [--props C03,C04] [names...]"""
import argparse, concurrent.futures as cf, json, os, shutil, subprocess, sys, tempfile
VERIF = os.path.dirname(os.path.dirname(os.path.abspath(__file__)))


def run_one(job):
    name, pid = job
    d = tempfile.mkdtemp(prefix="benign_%s_%s_" % (name, pid))
    try:
        wt = os.path.join(d, "repo")
        shutil.copytree("/repo", wt, ignore=shutil.ignore_patterns(".git", "__pycache__", "*.pyc", ".pytest_cache"))
        ap = subprocess.run(["patch", "-p1", "-s", "-d", wt, "-i", os.path.join(VERIF, "benign", name, "patch.diff")], capture_output=True, text=True)
        if ap.returncode != 0:
            return name, pid, "patch-failed", ap.stdout[-200:]
        env = dict(os.environ, VERIF_REPO=wt, VERIF_OUT=os.path.join(d, "out"), PYTHONDONTWRITEBYTECODE="1")
        r = subprocess.run([os.path.join(VERIF, "check"), pid, "quick"], capture_output=True, text=True, env=env, timeout=3600)
        lines = [l[:300] for l in r.stdout.splitlines() if l.startswith(("VIOLATION", "UNDECIDED", "CHECKER-ERROR"))]
        return name, pid, r.returncode, (lines[:3] or r.stdout.strip().splitlines()[-1:])
    finally:
        shutil.rmtree(d, ignore_errors=True)


def main():
    ap = argparse.ArgumentParser()
    ap.add_argument("--jobs", type=int, default=6)
    ap.add_argument("--props", default="")
    ap.add_argument("names", nargs="*")
    a = ap.parse_args()
    names = a.names or sorted(os.listdir(os.path.join(VERIF, "benign")))
    pids = a.props.split(",") if a.props else [c["property_id"] for c in json.load(open(os.path.join(VERIF, "MANIFEST.json")))["checks"]]
    jobs = [(n, p) for n in names for p in pids]
    bad = 0
    with cf.ThreadPoolExecutor(max_workers=a.jobs) as ex:
        for name, pid, rc, info in ex.map(run_one, jobs):
            if rc != 0:
                bad += 1
                print("ALARM %-34s %s rc=%s %s" % (name, pid, rc, info))
                sys.stdout.flush()
    print("benign changes: %d x %d checks, %d alarms" % (len(names), len(pids), bad))
    sys.exit(1 if bad else 0)


if __name__ == "__main__":
    main()
