#!/bin/bash
# usage: tools/run_all.sh [tier] [jobs]   -- every registered check on /repo; prints one line per property
# runs in the checkout this script lives in; VERIF_OUT (optional) redirects evidence / replays
cd "$(dirname "$0")/.."
tier=${1:-quick}; jobs=${2:-5}
out=${RUNALL_OUT:-/tmp/runall}
ids=$(python3 -c "import json;print(' '.join(c['property_id'] for c in json.load(open('MANIFEST.json'))['checks']))")
mkdir -p $out
echo $ids | tr ' ' '\n' | xargs -P $jobs -I{} sh -c "./check {} $tier > $out/{}.out 2>&1; echo {} rc=\$? \$(tail -1 $out/{}.out | cut -c1-200)"
