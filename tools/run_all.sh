#!/bin/bash
# usage: tools/run_all.sh [tier] [jobs]   -- every registered check on /repo; prints one line per property
cd /verif
tier=${1:-quick}; jobs=${2:-5}
ids=$(python3 -c "import json;print(' '.join(c['property_id'] for c in json.load(open('MANIFEST.json'))['checks']))")
mkdir -p /tmp/runall
echo $ids | tr ' ' '\n' | xargs -P $jobs -I{} sh -c "./check {} $tier > /tmp/runall/{}.out 2>&1; echo {} rc=\$? \$(tail -1 /tmp/runall/{}.out | cut -c1-200)"
