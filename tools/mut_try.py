#!/usr/bin/env python3
"""ad-hoc sensitivity test: tools/mut_try.py <repo file relative to simple_ddl_parser/> <old text> <new text> -- <command...>
copies /repo to a temp dir, replaces the first occurrence of <old> by <new>, runs the command with VERIF_REPO set, removes the copy."""
import os, shutil, subprocess, sys, tempfile
i = sys.argv.index("--")
f, old, new = sys.argv[1:4]
cmd = sys.argv[i + 1:]
d = tempfile.mkdtemp(prefix="muttry_")
try:
    shutil.copytree("/repo/simple_ddl_parser", d + "/simple_ddl_parser", ignore=shutil.ignore_patterns("__pycache__"))
    shutil.copytree("/repo/tests", d + "/tests", ignore=shutil.ignore_patterns("__pycache__"))
    p = os.path.join(d, "simple_ddl_parser", f)
    s = open(p).read()
    assert old in s, "old text not found"
    open(p, "w").write(s.replace(old, new, 1))
    env = dict(os.environ, VERIF_REPO=d, VERIF_OUT=d + "/out")
    sys.exit(subprocess.run(cmd, env=env, cwd="/verif").returncode)
finally:
    shutil.rmtree(d, ignore_errors=True)
