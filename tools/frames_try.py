#!/usr/bin/env python3
"""Print the frame obligations of one property for a tree: tools/frames_try.py C16 [repo]  (run with python3-vt)"""
import json, os, sys
sys.path.insert(0, os.path.dirname(os.path.dirname(os.path.abspath(__file__))))
if len(sys.argv) > 2:
    os.environ["VERIF_REPO"] = sys.argv[2]
from pyvc import frames, props
from pyvc.program import Program
pid = sys.argv[1]
prog = Program()
for o in frames.run(prog, pid, props.PROPS[pid]["frames"]):
    print(o["status"], o["name"], json.dumps(o["detail"])[:1500])
