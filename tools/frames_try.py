import sys, json
sys.path.insert(0,'/verif')
from pyvc.program import Program
from pyvc import frames
prog = Program()
res = frames.run(prog, "CXX", ["init-before-use","class-level-state","global-purity","silent-only-in-p_error","normalize-only-in-p_id","output-mode-not-read-before-output","file-path-only-under-dump","lexer-reset-complete","tables-append-only"])
for o in res:
    if o["status"]!="discharged": print(o["name"], o["status"], json.dumps(o["detail"])[:700])
print(sum(o["status"]=="discharged" for o in res), "/", len(res), "discharged")
