#!/usr/bin/env python3
"""Confirm sub-agent seeded changes (/tmp/wt/out/<PID>/<mk>/) in a scratch worktree of /repo HEAD and store the
confirmed ones under /verif/seeded/<PID>-<mk>/.   usage: confirm_seed2.py [PID ...]"""
import json, os, shutil, subprocess, sys
OUT = "/tmp/wt/out"
WT = "/tmp/wt/confirm"


def sh(cmd, **kw):
    return subprocess.run(cmd, shell=True, capture_output=True, text=True, **kw)


if not os.path.isdir(WT):
    print(sh("git -C /repo worktree add -q --detach %s HEAD" % WT).stderr)
sh("git -C %s checkout -q --detach $(git -C /repo rev-parse HEAD)" % WT)
head = sh("git -C /repo rev-parse HEAD").stdout.strip()
pids = sys.argv[1:] or sorted(os.listdir(OUT))
for pid in pids:
    for mk in sorted(os.listdir(os.path.join(OUT, pid))):
        src = os.path.join(OUT, pid, mk)
        if not all(os.path.exists(os.path.join(src, f)) for f in ("patch.diff", "demo.py", "notes.md")) or os.path.exists("/verif/seeded/%s-%s" % (pid, mk)):
            continue
        sh("git -C %s checkout -- . && git -C %s clean -fdq" % (WT, WT))
        env = "cd %s && PYTHONPATH=%s PYTHONDONTWRITEBYTECODE=1" % (WT, WT)
        clean = sh("%s timeout 600 /venv/bin/python %s/demo.py" % (env, src))
        sh("git -C %s checkout -- . && git -C %s clean -fdq" % (WT, WT))
        ap = sh("git -C %s apply %s/patch.diff" % (WT, src))
        if ap.returncode != 0:
            print(pid, mk, "PATCH DOES NOT APPLY", ap.stderr[:200])
            continue
        tests = sh("%s /venv/bin/python -m pytest -q -p no:cacheprovider 2>&1 | tail -1" % env)
        sh("git -C %s checkout -- simple_ddl_parser/parsetab.py" % WT) if "parsetab" not in open(src + "/patch.diff").read().split("diff --git")[0:1] else None
        mut = sh("%s timeout 600 /venv/bin/python %s/demo.py" % (env, src))
        sh("git -C %s checkout -- . && git -C %s clean -fdq" % (WT, WT))
        ok = clean.returncode == 0 and mut.returncode == 1 and "308 passed" in tests.stdout
        print(pid, mk, "clean rc", clean.returncode, "| mutated rc", mut.returncode, "|", tests.stdout.strip(), "=>", "CONFIRMED" if ok else "REJECTED")
        if ok:
            dst = "/verif/seeded/%s-%s" % (pid, mk)
            os.makedirs(dst, exist_ok=True)
            for f in ("patch.diff", "demo.py", "notes.md"):
                shutil.copy(os.path.join(src, f), dst)
            notes = open(os.path.join(src, "notes.md")).read()
            meta = dict(id="%s-%s" % (pid, mk), property=pid, source="independent sub-agent given only the property text and a scratch worktree",
                        needs_to_manifest=notes[:1500],
                        confirmed=dict(base_commit=head, demo_on_clean_tree="exit 0 (PASS)", demo_with_change="exit 1 (FAIL)", test_suite_with_change=tests.stdout.strip(),
                                       commands=["git -C <worktree> apply patch.diff", "cd <worktree> && /venv/bin/python -m pytest -q -p no:cacheprovider",
                                                 "cd <worktree> && PYTHONPATH=<worktree> /venv/bin/python demo.py"]),
                        detected_by=None)
            json.dump(meta, open(os.path.join(dst, "meta.json"), "w"), indent=1)
