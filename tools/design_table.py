#!/usr/bin/env python3
"""Refreshes the generated tables of DESIGN.md section 7 (between <!-- TABLE:x --> markers) from the evidence files of the
last run, /repo's git log, known_findings.json and seeded/*/meta.json.   usage: tools/design_table.py [--write]"""
import json, os, re, subprocess, sys
V = os.path.dirname(os.path.dirname(os.path.abspath(__file__)))


def status():
    out = ["| prop | level claimed | functions under contract | obligations discharged / generated | of which frame clauses | bounded evaluations (distinct) | open findings reported |",
           "|---|---|---|---|---|---|---|"]
    M = {c["property_id"]: c for c in json.load(open(V + "/MANIFEST.json"))["checks"]}
    for i in range(1, 21):
        pid = "C%02d" % i
        p = V + "/evidence/%s.json" % pid
        if not os.path.exists(p) or pid not in M:
            continue
        c = json.load(open(p))["coverage"]
        fr = c.get("discharged_by", {}).get("frame-analysis", 0)
        fns = [f for f in c.get("functions_under_contract", []) if f != "frame" and not f.startswith("frame:")]
        nfn = len(fns) if fr == 0 or len(fns) < 50 else len([f for f in fns if "." in f and not f.startswith("parser.") and not f.startswith("ddl_parser.")])
        out.append("| %s | %s | %d | %d / %d | %d | %s (%s) | %d |" % (pid, M[pid]["level_claimed"]["category"], len(fns), c["discharged"], c["obligations"], fr,
                   c.get("evaluations", "-"), c.get("distinct_nontrivial", "-"), len(c.get("known_findings_reported", []))))
    return "\n".join(out)


def fixes():
    log = subprocess.run(["git", "-C", "/repo", "log", "--format=%h %s", "--reverse"], capture_output=True, text=True).stdout.splitlines()
    kf = {f.get("commit"): f for f in json.load(open(V + "/known_findings.json"))["findings"] if f.get("status") == "fixed"}
    out = ["| commit | subject | property | what failed |", "|---|---|---|---|"]
    for l in log:
        h, subj = l.split(" ", 1)
        if subj.startswith("fix:"):
            f = kf.get(h, {})
            what = f.get("text", "").split(h, 1)[-1].strip() if f else ""
            out.append("| %s | %s | %s | %s |" % (h, subj[4:].strip(), f.get("property", "?"), what))
    return "\n".join(out)


def findings():
    out = ["| property | how it is matched | finding |", "|---|---|---|"]
    for f in json.load(open(V + "/known_findings.json"))["findings"]:
        if f.get("status") == "open":
            m = f.get("match", {})
            how = "witness class `%s`" % m["witness_class"] if "witness_class" in m else "obligation `%s`" % m.get("obligation_prefix")
            out.append("| %s | %s | %s |" % (f["property"], how, f["text"].replace("|", "\\|")))
    return "\n".join(out)


def seeded():
    out = ["| seeded change | property | what it changes / needs (first line of the author's note) | verdict | first reporting obligation |", "|---|---|---|---|---|"]
    d = V + "/seeded"
    for sid in sorted(os.listdir(d)):
        m = json.load(open(os.path.join(d, sid, "meta.json")))
        note = [l for l in (m.get("needs_to_manifest") or "").splitlines() if l.strip()]
        first = note[0].lstrip("# ").strip()[:140] if note else ""
        db = m.get("detected_by") or {}
        fl = db.get("first_line") or ""
        ob = re.search(r"obligation=(\S+)", fl)
        out.append("| %s | %s | %s | %s | %s |" % (sid, m["property"], first.replace("|", "/"), db.get("verdict", "not run"), ("`%s`" % ob.group(1)[:110]) if ob else ""))
    return "\n".join(out)


TABLES = {"status": status, "fixes": fixes, "findings": findings, "seeded": seeded}
if __name__ == "__main__":
    if "--write" in sys.argv:
        s = open(V + "/DESIGN.md").read()
        for k, f in TABLES.items():
            s = re.sub(r"(<!-- TABLE:%s -->\n).*?(<!-- /TABLE:%s -->)" % (k, k), lambda mm: mm.group(1) + f() + "\n" + mm.group(2), s, flags=re.S)
        open(V + "/DESIGN.md", "w").write(s)
        print("DESIGN.md tables refreshed")
    else:
        for k, f in TABLES.items():
            print("##", k); print(f())
