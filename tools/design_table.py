#!/usr/bin/env python3
"""prints the per-property 'as built' table (markdown) from the evidence files of the last run"""
import json, os
V = os.path.dirname(os.path.dirname(os.path.abspath(__file__)))
print("| prop | level claimed | functions under contract | obligations (discharged) | frame clauses | bounded evaluations (distinct) | open findings reported |")
print("|---|---|---|---|---|---|---|")
M = {c["property_id"]: c for c in json.load(open(V + "/MANIFEST.json"))["checks"]}
for i in range(1, 21):
    pid = "C%02d" % i
    p = V + "/evidence/%s.json" % pid
    if not os.path.exists(p):
        continue
    ev = json.load(open(p))
    c = ev["coverage"]
    fr = c.get("discharged_by", {}).get("frame-analysis", 0)
    fns = [f for f in c.get("functions_under_contract", []) if f != "frame"]
    print("| %s | %s | %d | %d (%d) | %d | %s (%s) | %d |" % (pid, M[pid]["level_claimed"]["category"], len(fns), c["obligations"], c["discharged"], fr,
          c.get("evaluations", "-"), c.get("distinct_nontrivial", "-"), len(c.get("known_findings_reported", []))))
