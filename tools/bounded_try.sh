#!/bin/bash
# usage: bounded_try.sh <PID> [tier]  -- run a bounded stand-in alone against a scratch copy of $VERIF_REPO (default /repo)
D=$(mktemp -d); cp -r ${VERIF_REPO:-/repo}/simple_ddl_parser $D/; cp -r /venv/lib/python3.12/site-packages/ply $D/
mkdir -p /verif/replays/$1
(cd /verif && PYTHONDONTWRITEBYTECODE=1 PYTHONPATH=$D:/verif /venv/bin/python -m bounded.run $1 ${2:-quick} /verif/replays/$1/bounded_try.json); rc=$?
rm -rf $D; exit $rc
