#!/bin/bash
# usage: mutcheck.sh <seed id e.g. C14-m1> <PID> [tier]   -- applies /verif/seeded/<id>/patch.diff to /tmp/wt/scratch and runs the check there
set -u
WT=/tmp/wt/scratch
git -C $WT checkout -q -- . && git -C $WT checkout -q $(git -C /repo rev-parse HEAD) 2>/dev/null
git -C $WT apply /verif/seeded/$1/patch.diff || { echo "patch does not apply"; exit 9; }
(cd /verif && VERIF_REPO=$WT ./check $2 ${3:-quick} | cut -c1-260 | grep -E "VIOLATION|KNOWN|UNDECIDED|CHECKER|obligations=" | head -${LINES_MAX:-6})
git -C $WT checkout -q -- .
