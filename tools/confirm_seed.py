#!/usr/bin/env python3
"""Confirm a sub-agent's seeded change in a scratch worktree and store it under /verif/seeded/<id>/.
usage: confirm_seed.py <PID> <mk> [<worktree>]   (reads /tmp/wt/out/<PID>/<mk>/)"""
import json, os, shutil, subprocess, sys
pid, mk = sys.argv[1], sys.argv[2]
wt = sys.argv[3] if len(sys.argv) > 3 else "/tmp/wt/%s" % pid
src = "/tmp/wt/out/%s/%s" % (pid, mk)
def sh(cmd, **kw):
    return subprocess.run(cmd, shell=True, capture_output=True, text=True, **kw)
assert sh("git -C %s status --short" % wt).stdout.strip() == "", "worktree dirty"
env = "cd %s && PYTHONPATH=%s PYTHONDONTWRITEBYTECODE=1" % (wt, wt)
clean = sh("%s /venv/bin/python %s/demo.py" % (env, src))
ap = sh("git -C %s apply %s/patch.diff" % (wt, src))
assert ap.returncode == 0, ap.stderr
tests = sh("%s /venv/bin/python -m pytest -q -p no:cacheprovider 2>&1 | tail -1" % env)
mut = sh("%s /venv/bin/python %s/demo.py" % (env, src))
sh("git -C %s checkout -- . && git -C %s clean -fdq" % (wt, wt))
ok = clean.returncode == 0 and mut.returncode == 1 and "308 passed" in tests.stdout
print(pid, mk, "clean rc", clean.returncode, "| mutated rc", mut.returncode, "|", tests.stdout.strip(), "=>", "CONFIRMED" if ok else "REJECTED")
if ok:
    dst = "/verif/seeded/%s-%s" % (pid, mk)
    os.makedirs(dst, exist_ok=True)
    for f in ("patch.diff", "demo.py", "notes.md"):
        shutil.copy(os.path.join(src, f), dst)
    notes = open(os.path.join(src, "notes.md")).read()
    meta = dict(id="%s-%s" % (pid, mk), property=pid, source="independent sub-agent given only the property text and a scratch worktree",
                needs_to_manifest=notes[:1200],
                confirmed=dict(base_commit=sh("git -C %s rev-parse HEAD" % wt).stdout.strip(),
                               demo_on_clean_tree="exit 0 (PASS)", demo_with_change="exit 1 (FAIL)", test_suite_with_change=tests.stdout.strip(),
                               commands=["git -C <worktree> apply patch.diff", "cd <worktree> && /venv/bin/python -m pytest -q -p no:cacheprovider", "cd <worktree> && PYTHONPATH=<worktree> /venv/bin/python demo.py"]),
                detected_by=None)
    json.dump(meta, open(os.path.join(dst, "meta.json"), "w"), indent=1)
