"""C07 - literals reported exactly as written: the grammar actions and helpers that carry a literal.

Spec (from the statement): the reported value is exactly the token text, except that a purely
numeric default is the integer of the same value.  Transport of the literal through the regex
pre-processor and the lexer's string rule is outside these contracts (bounded stand-in)."""
from contracts.base import contract
from contracts.lib import IDENT, production

# a quoted literal as delivered by the STRING non-terminal
STRLIT = r"'[ -&(-~]*'"
MARKERS = ["'pars_m_t'", "'pars_m_n'", "'pars_m_dq'", "pars_m_single"]


def no_marker(s):
    for m in MARKERS:
        if m in s:
            return False
    return True


@contract
class PString:
    fn = "ddl_parser.DDLParser.p_string"
    props = ["C07"]
    cases = {"STRING_BASE": {}, "STRING STRING_BASE": {}}

    def build(G, case):
        vals = {1: G.str("s1", STRLIT, "'a'")}
        if case["_name"] == "STRING STRING_BASE":
            vals[2] = G.str("s2", STRLIT, "'b'")
        return dict(args=[G.parser(), production(G, case["_name"], vals)])

    def spec(case, self_, p):
        if len(p) == 3:
            p[0] = p[1] + p[2]
        else:
            p[0] = p[1]


@contract
class CheckSpec:
    fn = "utils.check_spec"
    props = ["C07"]
    cases = {"no-escape-marker": {}}

    def build(G, case):
        return dict(args=[G.str("s", r"[ -~]*", "'a, b'")])

    def requires(case, string):
        return no_marker(string)

    def spec(case, string):
        return string


@contract
class PDefault:
    fn = "dialects.sql.BaseSQL.p_default"
    props = ["C07", "C01"]
    cases = {"DEFAULT id": dict(kind="id"), "DEFAULT STRING": dict(kind="str"), "DEFAULT NULL": dict(kind="null")}

    def build(G, case):
        if case["kind"] == "id":
            v = G.str("v", IDENT, "10000")
        elif case["kind"] == "str":
            v = G.str("v", STRLIT, "'a, b'")
        else:
            v = "NULL"
        return dict(args=[G.parser(), production(G, case["_name"], {2: v})])

    def requires(case, self_, p):
        # FOR / DEFAULT after DEFAULT belong to other alternatives (NEXT VALUE FOR, MSSQL)
        return p[2].upper() != "FOR" and p[2] != "DEFAULT"

    def spec(case, self_, p):
        if p[2].isnumeric():
            p[0] = {"default": int(p[2])}
        else:
            p[0] = {"default": p[2]}

    def lift(case, model):
        return dict(ddl="CREATE TABLE t (a int DEFAULT %s, b int);" % model.get("v", "1"))


@contract
class PComment:
    fn = "dialects.sql.BaseSQL.p_comment"
    props = ["C07"]
    cases = {"COMMENT STRING": {}}

    def build(G, case):
        return dict(args=[G.parser(), production(G, "COMMENT STRING", {2: G.str("v", STRLIT, "'x'")})])

    def requires(case, self_, p):
        return no_marker(p[2])

    def spec(case, self_, p):
        p[0] = {"comment": p[2]}


@contract
class PCollate:
    fn = "dialects.sql.BaseSQL.p_collate"
    props = ["C07"]
    cases = {"COLLATE id": dict(pat=IDENT), "COLLATE STRING": dict(pat=STRLIT)}

    def build(G, case):
        return dict(args=[G.parser(), production(G, case["_name"], {2: G.str("v", case["pat"], "'x'")})])

    def spec(case, self_, p):
        p[0] = {"collate": p[2]}


@contract
class PPidStrings:
    """value lists (ENUM values, IN lists): each literal is appended verbatim, order kept"""
    fn = "dialects.sql.BaseSQL.p_pid"
    props = ["C07", "C18", "C06"]
    cases = {"STRING": dict(pat=STRLIT), "id": dict(pat=IDENT), "pid COMMA STRING": dict(pat=STRLIT), "pid COMMA id": dict(pat=IDENT)}

    def build(G, case):
        alt = case["_name"]
        n = len(alt.split())
        vals = {n: G.str("v", case["pat"], "'x'")}
        if n == 3:
            vals[1] = G.oseq("pid", elem=lambda g, nm: g.str(nm))
        return dict(args=[G.parser(), production(G, alt, vals)])

    def spec(case, self_, p):
        if len(p) == 2:
            p[0] = [p[1]]
        else:
            p[1].append(p[3])
            p[0] = p[1]

    def ensures(case, old, new, result):
        p = new[1]
        return len(p) == 2 or p[0] is p[1]


@contract
class PDefaultFunctExpr:
    """a bare default value reaches p_default through `DEFAULT funct_expr` (funct_expr : multi_id : id): same obligation"""
    fn = "dialects.sql.BaseSQL.p_default"
    props = ["C07", "C01"]
    cases = {"DEFAULT funct_expr": {}}

    def build(G, case):
        return dict(args=[G.parser(), production(G, "DEFAULT funct_expr", {2: G.str("v", IDENT, "10000")})])

    def requires(case, self_, p):
        return p[2].upper() != "FOR" and p[2] != "DEFAULT"

    def spec(case, self_, p):
        if p[2].isnumeric():
            p[0] = {"default": int(p[2])}
        else:
            p[0] = {"default": p[2]}


@contract
class ValueChain:
    """the productions a bare value passes on its way to DEFAULT copy it verbatim"""
    fn = "-"
    props = ["C07", "C01"]
    cases = {
        "multi_id : id": dict(fn="dialects.sql.BaseSQL.p_multi_id", alt="id", out="same"),
        "multi_id : multi_id id": dict(fn="dialects.sql.BaseSQL.p_multi_id", alt="multi_id id", out="join"),
        "funct_expr : multi_id": dict(fn="dialects.sql.BaseSQL.p_funct_expr", alt="multi_id", out="same"),
        "funct_expr : LP multi_id RP": dict(fn="dialects.sql.BaseSQL.p_funct_expr", alt="LP multi_id RP", out="inner"),
        "f_call : id LP RP": dict(fn="dialects.sql.BaseSQL.p_f_call", alt="id LP RP", out="call"),
        "dot_id : id DOT id": dict(fn="dialects.sql.BaseSQL.p_dot_id", alt="id DOT id", out="dot"),
    }

    def build(G, case):
        alt = case["alt"]
        vals = {i: G.str("w%d" % i, r"[a-zA-Z_0-9$#@.:']+", "now") for i, s in enumerate(alt.split(), 1) if s in ("id", "multi_id")}
        return dict(args=[G.parser(), production(G, alt, vals)])

    def requires(case, self_, p):
        return case["out"] != "call" or p[1].upper() != "CAST"

    def spec(case, self_, p):
        o = case["out"]
        if o == "same":
            p[0] = p[1]
        elif o == "join":
            p[0] = p[1] + " " + p[2]
        elif o == "inner":
            p[0] = p[2]
        elif o == "call":
            p[0] = p[1] + "()"
        else:
            p[0] = p[1] + "." + p[3]
