"""Shared schemas and spec helpers for the sidecar contracts (plain Python)."""

# An identifier value as delivered by the `id` non-terminal: non-empty printable ASCII without
# whitespace, and not a bare parenthesis (those are typed LP / RP by the lexer).
IDENT = r"[!-'*-~][!-~]*|[()][!-~]+"
# Plain SQL name: what scripts normally use (letters, digits, _, $ and the three delimiter styles)
INTLIT = r"[+-]?[0-9]+"
DIGITS = r"[0-9]+"

TERMINALS = {"LP": "(", "RP": ")", "COMMA": ",", "DOT": ".", "EQ": "=", "COMMAT": ","}


def production(G, alt, values, name="p"):
    """Build the p-list of a production alternative: `values` maps 1-based positions (or symbol
    names when unique) to semantic values; keyword terminals stand for themselves."""
    syms = alt.split()
    out = []
    for i, s in enumerate(syms, 1):
        if i in values:
            out.append(values[i])
        elif s in values:
            out.append(values[s])
        elif s in TERMINALS:
            out.append(TERMINALS[s])
        elif s.isupper():
            out.append(s)
        elif s == "id":
            out.append(G.str("%s%d" % (name, i), IDENT))
        else:
            raise KeyError("no value for symbol %s of %r" % (s, alt))
    return G.prod(out, syms)


def none_or_str(G, name, pattern=IDENT):
    if G.choice(name + "?", 2) == 0:
        return None
    return G.str(name, pattern)


def without(d, key):
    r = dict(d)
    if key in r:
        del r[key]
    return r


# ---- sequence combinators (native definitions; the verifier evaluates them over opaque sequences)
def seq_map(f, xs):
    return [f(x) for x in xs]


def seq_filter(f, xs):
    return [x for x in xs if f(x)]


def seq_flatmap(f, xs):
    return [y for x in xs for y in f(x)]
