"""Shared schemas and spec helpers for the sidecar contracts (plain Python)."""

# An identifier value as delivered by the `id` non-terminal: non-empty printable ASCII without
# whitespace, and not a bare parenthesis (those are typed LP / RP by the lexer).
IDENT = r"[!-'*-~][!-~]*|[()][!-~]+"
# Plain SQL name: what scripts normally use (letters, digits, _, $ and the three delimiter styles)
INTLIT = r"[+-]?[0-9]+"
DIGITS = r"[0-9]+"

# default value of an `id` symbol: any token text the lexer can type ID / DQ_STRING - never a bare dot or parenthesis
NAME_DEFAULT = r"[!-'*-\-/-<>-~][!-~]*"

# Which token a word becomes, and which lines reach the statement parser, decides every property that speaks about what is
# parsed from a script (all but the run / object / file / cache properties C14, C15, C19, C20): the contracts on the lexer's
# token typing and context flags, on the line machine and on the comment scanner take part in each of them.
PARSE_PROPS = ["C01", "C02", "C03", "C04", "C05", "C06", "C07", "C08", "C09", "C10", "C11", "C12", "C13", "C16", "C17", "C18"]

TERMINALS = {"LP": "(", "RP": ")", "COMMA": ",", "DOT": ".", "EQ": "=", "COMMAT": ","}


def production(G, alt, values, name="p"):
    """Build the p-list of a production alternative: `values` maps 1-based positions (or symbol
    names when unique) to semantic values; keyword terminals stand for themselves."""
    syms = alt.split()
    out = []
    for i, s in enumerate(syms, 1):
        if i in values:
            out.append(values[i])
        elif s in values:
            out.append(values[s])
        elif s in TERMINALS:
            out.append(TERMINALS[s])
        elif s.isupper():
            out.append(s)
        elif s == "id":
            out.append(G.str("%s%d" % (name, i), NAME_DEFAULT))
        else:
            raise KeyError("no value for symbol %s of %r" % (s, alt))
    return G.prod(out, syms)


def none_or_str(G, name, pattern=IDENT):
    if G.choice(name + "?", 2) == 0:
        return None
    return G.str(name, pattern)


def without(d, key):
    r = dict(d)
    if key in r:
        del r[key]
    return r


# ---- sequence combinators (native definitions; the verifier evaluates them over opaque sequences)
def seq_map(f, xs):
    return [f(x) for x in xs]


def seq_filter(f, xs):
    return [x for x in xs if f(x)]


def seq_flatmap(f, xs):
    return [y for x in xs for y in f(x)]


def seq_fold(f, init, xs):
    """left fold: f(...f(f(init, x0), x1)..., xn)"""
    acc = init
    for x in xs:
        acc = f(acc, x)
    return acc


def lexer_flags(G, name="lx", **fixed):
    """the eleven context attributes the token-typing functions keep on self.lexer"""
    d = {}
    for f in ("is_table", "sequence", "columns_def", "after_columns", "check", "is_alter", "is_like"):
        d[f] = fixed[f] if f in fixed else G.bool("%s.%s" % (name, f))
    d["last_token"] = fixed["last_token"] if "last_token" in fixed else G.str(name + ".last_token", r"[A-Z_]*")
    if "last_par" in fixed:
        d["last_par"] = fixed["last_par"]
    else:
        d["last_par"] = [False, "LP", "RP"][G.choice(name + ".last_par", 3)]
    d["lp_open"] = fixed["lp_open"] if "lp_open" in fixed else G.int(name + ".lp_open", 0)
    d["lt_open"] = fixed["lt_open"] if "lt_open" in fixed else G.int(name + ".lt_open", 0)
    return d


def strip_one_pair(v):
    """the identifier without its ONE pair of outer delimiters (back-ticks, double quotes, square brackets);
    a delimited identifier has at least one character between its delimiters"""
    for a, b in (("`", "`"), ('"', '"'), ("[", "]")):
        if len(v) > 2 and v.startswith(a) and v.endswith(b):
            return v[1:-1]
    return v


# ---- value schemas of the column / reference non-terminals (DESIGN Appendix D) -------------------
# a name as delivered by the `id` non-terminal in a column / table position: never a bare dot or parenthesis
NAME = r"[!-'*-\-/-<>-~][!-~]*"
TYPE_TEXT = r"[!-~]([ -~]*[!-~])?"
STRLIT = r"'[ -&(-~]*'"


def opt(G, name, builders):
    """one of several alternatives (forks the path in the verifier, drawn from the model natively)"""
    return builders[G.choice(name + "?", len(builders))]()


def ref_inner(G, name="ref", n_cols=1, single=False):
    """value under the key `references`: single=True is the per-column form (key `column`).
    Leaves the productions only copy are plain symbols (None-ness of an untouched leaf is immaterial)."""
    d = {"table": G.str(name + ".table", NAME)}
    if not single:
        d["columns"] = [opt(G, "%s.col%d" % (name, i), [lambda: None, lambda: G.str("%s.column%d" % (name, i), NAME)]) for i in range(n_cols)]
    d["schema"] = G.str(name + ".schema", NAME)
    d["on_delete"] = G.str(name + ".on_delete", NAME)
    d["on_update"] = G.str(name + ".on_update", NAME)
    d["deferrable_initially"] = G.str(name + ".deferrable", NAME)
    if single:
        d["column"] = G.str(name + ".column", NAME)
    return d


def column_value(G, name="col"):
    """value of the `column` non-terminal: name, type text, size"""
    size = opt(G, name + ".size", [lambda: None, lambda: G.int(name + ".size_n", 0)])
    return {"name": G.str(name + ".name", NAME), "type": G.str(name + ".type", TYPE_TEXT, "varchar"), "size": size}


def defcolumn_value(G, name="col", light=False):
    """value of the `defcolumn` non-terminal after any number of options: the eight documented
    attributes plus primary_key, plus optional extras other options may have left there.
    light=True: for productions that only move the finished column around (one fork: with / without reference)"""
    if light:
        return {"name": G.str(name + ".name", NAME), "type": G.str(name + ".type", TYPE_TEXT, "varchar"), "size": G.int(name + ".size"),
                "references": opt(G, name + ".references", [lambda: None, lambda: ref_inner(G, name + ".ref", single=True)]),
                "unique": G.bool(name + ".unique"), "primary_key": G.bool(name + ".primary_key"), "nullable": G.bool(name + ".nullable"),
                "default": G.str(name + ".default"), "check": G.str(name + ".check")}
    d = column_value(G, name)
    d["references"] = opt(G, name + ".references", [lambda: None, lambda: ref_inner(G, name + ".ref", single=True)])
    d["unique"] = G.bool(name + ".unique")
    d["primary_key"] = G.bool(name + ".primary_key")
    d["nullable"] = G.bool(name + ".nullable")
    d["default"] = opt(G, name + ".default", [lambda: None, lambda: G.str(name + ".default_s"), lambda: G.int(name + ".default_i")])
    d["check"] = opt(G, name + ".check", [lambda: None, lambda: G.str(name + ".check_s", TYPE_TEXT, "x > 0")])
    maybe = {"comment": (name + ".has_comment", G.str(name + ".comment", STRLIT, "'c'")),
             "collate": (name + ".has_collate", G.str(name + ".collate", NAME, "utf8"))}
    return G.record(d, maybe)


_real_parser = None


def parser_constant(attr):
    """an attribute of a constructed parser that is constant after __init__ (compiled regular expressions):
    read from a real DDLParser("") of the scratch copy, so the contract never restates it"""
    global _real_parser
    if _real_parser is None:
        from simple_ddl_parser import DDLParser
        _real_parser = DDLParser("")
    return getattr(_real_parser, attr, None)


def opaque(tag, *args):
    """native stand-in of the verifier's opaque(): a hashable description of an unmodelled result"""
    return ("opaque", tag) + tuple(repr(a) for a in args)


def ghost_call(tag, *args):
    """native stand-in of the verifier's ghost_call(): no effect"""
    return None


# ---- search combinators (native definitions; the verifier evaluates them over opaque sequences)
def first_index(pred, xs):
    for i, x in enumerate(xs):
        if pred(x):
            return i
    return None


def seq_at(xs, i):
    return xs[i]


def seq_remove_at(xs, i):
    r = list(xs)
    del r[i]
    return r


def seq_replace_at(xs, i, v):
    r = list(xs)
    r[i] = v
    return r
