"""C04 - ALTER TABLE / CREATE INDEX change exactly the table they name.

Spec from the statement: a table is identified by (schema, name) irrespective of identifier
quoting (double quotes, back-ticks, square brackets) and letter case; a lookup returns the table
registered under that identity and raises when there is none (never some other table)."""
from contracts.base import contract
from contracts.lib import NAME, production

CORE = r"[a-zA-Z_0-9$#]+"
QUOTES = [("", ""), ('"', '"'), ("`", "`"), ("[", "]")]


def quoted(G, name):
    """an identifier core in one of the four quoting styles"""
    core = G.str(name + ".core", CORE, "Tbl")
    a, b = QUOTES[G.choice(name + ".style", 4)]
    return a + core + b, core


# a dotted path quoted as a whole (`proj.sales.orders`) reaches the identity functions in pieces that carry HALF a
# delimiter pair (`proj / sales / orders`): the identity of a name ignores delimiter characters wherever they stand
ANY_QUOTES = QUOTES + [('"', ""), ("", '"'), ("`", ""), ("", "`"), ("[", ""), ("", "]")]


def quoted_any(G, name):
    core = G.str(name + ".core", CORE, "Tbl")
    a, b = ANY_QUOTES[G.choice(name + ".style", len(ANY_QUOTES))]
    return a + core + b, core


@contract
class NormalizeName:
    fn = "utils.normalize_name"
    props = ["C04"]
    cases = {"any-quoting-style": {}}

    def build(G, case):
        full, core = quoted_any(G, "n")
        return dict(args=[full], ghost=dict(core=core))

    def spec(case, name):
        # the identity of a name is its delimiter-free text, lower-cased
        return name.replace('"', "").replace("`", "").replace("[", "").replace("]", "").lower()


@contract
class GetTableId:
    fn = "utils.get_table_id"
    props = ["C04"]
    cases = {"with-schema": dict(schema=True), "without-schema": dict(schema=False)}

    def build(G, case):
        tfull, tcore = quoted_any(G, "t")
        if case["schema"]:
            sfull, score = quoted_any(G, "s")
        else:
            sfull = [None, ""][G.choice("s.empty", 2)]
        return dict(args=[sfull, tfull])

    def spec(case, schema_name, table_name):
        t = table_name.replace('"', "").replace("`", "").replace("[", "").replace("]", "").lower()
        if case["schema"]:
            return (t, schema_name.replace('"', "").replace("`", "").replace("[", "").replace("]", "").lower())
        return (t, schema_name)


def registry(G):
    """a registry with same-named tables in different schemas and without schema"""
    tabs = {k: G.obj("BaseData", table_name=k[0], schema=k[1], marker=G.str("marker.%s.%s" % k)) for k in
            [("orders", None), ("orders", "shop"), ("orders", "crm"), ("items", "shop")]}
    return tabs


@contract
class LookupTable:
    fn = "output.core.Output.get_table_from_tables_data"
    props = ["C04", "C03", "C10"]
    raises = ("ValueError",)
    cases = {"plain-lower-case-names": {}}

    def build(G, case):
        out = G.obj("Output", tables_dict=registry(G), output_mode="sql", schema_key="schema", final_result=[], group_by_type=False)
        schema = [None, G.str("schema", r"[a-z_0-9]+", "shop")][G.choice("schema?", 2)]
        return dict(args=[out, schema, G.str("table", r"[a-z_0-9]+", "orders")])

    def spec(case, self_, schema, table_name):
        for key in self_.tables_dict:
            if key[0] == table_name and key[1] == schema:
                return self_.tables_dict[key]
        raise ValueError("unknown table")


# ------------------------------------------------------------------ ALTER TABLE / CREATE INDEX productions
from contracts.lib import defcolumn_value, none_or_str, ref_inner  # noqa: E402


def alt_table_value(G, name="alt"):
    return G.record({"alter_table_name": G.str(name + ".table", NAME), "schema": none_or_str(G, name + ".schema", NAME)},
                    {"if_exists": (name + ".if_exists", True), "only": (name + ".only", True)})


def t_name_value(G, name="tn"):
    return G.record({"schema": none_or_str(G, name + ".schema", NAME), "table_name": G.str(name + ".table", NAME), "columns": [], "checks": []},
                    {"project": (name + ".has_project", G.str(name + ".project", NAME))})


@contract
class PAltTableName:
    fn = "dialects.sql.AlterTable.p_alt_table_name"
    props = ["C04", "C06"]
    observable = "result"
    cases = {"ALTER TABLE t_name": dict(if_exists=False, only=False), "ALTER TABLE IF EXISTS t_name": dict(if_exists=True, only=False)}

    def build(G, case):
        alt = case["_name"]
        return dict(args=[G.parser(), production(G, alt, {len(alt.split()): t_name_value(G)})])

    def ensures(case, old, new, result):
        # the statement targets exactly the written table: name, schema (and project) copied verbatim
        # (the internal if_exists / only markers are not part of the property and are left unspecified)
        p = new[1]
        tn = p[len(p) - 1]
        ok = p[0]["alter_table_name"] == tn["table_name"] and p[0]["schema"] == tn["schema"]
        if "project" in tn:
            ok = ok and p[0]["project"] == tn["project"]
        return ok


@contract
class PAlterColumnStatements:
    """ALTER TABLE t ADD / DROP COLUMN / MODIFY COLUMN / RENAME COLUMN: the statement names exactly the written column(s)"""
    fn = "-"
    props = ["C04"]
    observable = "result"
    cases = {
        "alt_table ADD defcolumn": dict(fn="dialects.sql.AlterTable.p_alter_column_add", key="columns", kind="col", pos=3),
        "alt_table MODIFY COLUMN defcolumn": dict(fn="dialects.sql.AlterTable.p_alter_column_modify", key="columns_to_modify", kind="col", pos=4),
        "alt_table MODIFY defcolumn": dict(fn="dialects.oracle.Oracle.p_alter_column_modify_oracle", key="columns_to_modify", kind="col", pos=3),
        "alt_table DROP COLUMN id": dict(fn="dialects.sql.AlterTable.p_alter_drop_column", key="columns_to_drop", kind="name", pos=4),
        "alt_table RENAME COLUMN id id id": dict(fn="dialects.sql.AlterTable.p_alter_rename_column", key="columns_to_rename", kind="rename", pos=4),
    }

    def build(G, case):
        vals = {1: alt_table_value(G)}
        if case["kind"] == "col":
            vals[case["pos"]] = defcolumn_value(G, "new", light=True)
        return dict(args=[G.parser(), production(G, case["_name"], vals)])

    def spec(case, self_, p):
        p[0] = p[1]
        if case["kind"] == "rename":
            p[0][case["key"]] = [{"from": p[4], "to": p[6]}]
        else:
            p[0][case["key"]] = [p[case["pos"]]]

    def ensures(case, old, new, result):
        return new[1][0] is new[1][1]


def pid_names(G, name="pid"):
    return G.oseq(name, elem=lambda g, n: g.str(n, NAME))


@contract
class PAlterKeyStatements:
    fn = "-"
    props = ["C04"]
    observable = "result"
    cases = {
        "alt_table ADD PRIMARY KEY LP pid RP": dict(fn="dialects.sql.AlterTable.p_alter_primary_key", key="primary_key", named=False, pid=6),
        "alt_table ADD constraint PRIMARY KEY LP pid RP": dict(fn="dialects.sql.AlterTable.p_alter_primary_key", key="primary_key", named=True, pid=7),
        "alt_table ADD UNIQUE LP pid RP": dict(fn="dialects.sql.AlterTable.p_alter_unique", key="unique", named=False, pid=5),
        "alt_table ADD constraint UNIQUE LP pid RP": dict(fn="dialects.sql.AlterTable.p_alter_unique", key="unique", named=True, pid=6),
    }

    def build(G, case):
        vals = {1: alt_table_value(G), case["pid"]: pid_names(G)}
        if case["named"]:
            vals[3] = {"constraint": {"name": G.str("cname", NAME)}}
        return dict(args=[G.parser(), production(G, case["_name"], vals)])

    def spec(case, self_, p):
        p[0] = p[1]
        name = None
        if case["named"]:
            name = p[3]["constraint"]["name"]
        p[0][case["key"]] = {"constraint_name": name, "columns": p[case["pid"]]}

    def ensures(case, old, new, result):
        return new[1][0] is new[1][1]


@contract
class PCreateIndex:
    fn = "dialects.sql.BaseSQL.p_create_index"
    props = ["C04", "C06"]
    cases = {"CREATE INDEX id": dict(unique=False, clustered=False), "CREATE UNIQUE INDEX id": dict(unique=True, clustered=False),
             "CREATE CLUSTERED INDEX id": dict(unique=False, clustered=True)}

    def build(G, case):
        return dict(args=[G.parser(), production(G, case["_name"], {})])

    def requires(case, self_, p):
        n = p[len(p) - 1]
        return n != "UNIQUE" and n != "CLUSTERED"

    def spec(case, self_, p):
        p[0] = {"schema": None, "index_name": p[len(p) - 1], "unique": case["unique"], "clustered": case["clustered"]}


def index_value(G):
    return {"schema": None, "index_name": G.str("ix.name", NAME), "unique": G.bool("ix.unique"), "clustered": G.bool("ix.clustered")}


@contract
class PIndexTableName:
    fn = "dialects.sql.BaseSQL.p_index_table_name"
    props = ["C04", "C06"]
    observable = "result"
    cases = {"create_index ON id": dict(dot=False), "create_index ON id DOT id": dict(dot=True)}

    def build(G, case):
        return dict(args=[G.parser(), production(G, case["_name"], {1: index_value(G)})])

    def spec(case, self_, p):
        p[0] = p[1]
        if case["dot"]:
            p[0]["schema"] = p[3]
            p[0]["table_name"] = p[5]
        else:
            p[0]["schema"] = None
            p[0]["table_name"] = p[3]

    def ensures(case, old, new, result):
        return new[1][0] is new[1][1]


def index_col(G, name):
    return {"name": G.str(name + ".name", NAME), "order": G.str(name + ".order", r"ASC|DESC", "ASC"), "nulls": G.str(name + ".nulls", NAME, "LAST")}


@contract
class PIndexPid:
    """index column lists: every column once, in order, with its sort direction (any letter case of ASC / DESC)"""
    fn = "dialects.sql.BaseSQL.p_index_pid"
    props = ["C04", "C05"]
    observable = "result"
    cases = {"id": dict(kind="first"), "index_pid id": dict(kind="modifier"), "index_pid COMMA index_pid": dict(kind="join")}

    def build(G, case):
        k = case["kind"]
        if k == "first":
            return dict(args=[G.parser(), production(G, "id", {1: G.str("col", NAME, "a")})])
        one = {"detailed_columns": [index_col(G, "c0")], "columns": [G.str("c0.col", NAME)]}
        if k == "modifier":
            return dict(args=[G.parser(), production(G, "index_pid id", {1: one, 2: G.str("word", NAME, "desc")})])
        left = {"detailed_columns": G.oseq("ld", elem=index_col), "columns": G.oseq("lc", elem=lambda g, n: g.str(n, NAME))}
        return dict(args=[G.parser(), production(G, "index_pid COMMA index_pid", {1: left, 3: one})])

    def spec(case, self_, p):
        k = case["kind"]
        if k == "first":
            p[0] = {"detailed_columns": [{"name": p[1], "order": "ASC", "nulls": "LAST"}], "columns": [p[1]]}
            return
        p[0] = p[1]
        if k == "modifier":
            if p[2].upper() in ["ASC", "DESC"]:
                p[0]["detailed_columns"][0]["order"] = p[2].upper()
            else:
                p[0]["detailed_columns"][0]["nulls"] = p[2]
        else:
            p[0]["columns"].append(p[3]["columns"][0])
            p[0]["detailed_columns"].append(p[3]["detailed_columns"][0])

    def ensures(case, old, new, result):
        return case["kind"] == "first" or new[1][0] is new[1][1]


# ------------------------------------------------------------------ effects of ALTER statements on the table object
# SHAPE-BOUNDED companions of the any-length contracts further down: the column list has a fixed length per case
# (1 or 2 columns), names / spellings / attribute values symbolic.  They add nothing to the proof; they are kept
# because their counter-models replay directly as concrete column lists.
from contracts.lib import TYPE_TEXT  # noqa: E402


def quoted2(G, name):
    """column spelling: plain or bracket-quoted (the statement's target name takes all four styles)"""
    core = G.str(name + ".core", CORE, "Col")
    a, b = [("", ""), ("[", "]")][G.choice(name + ".style", 2)]
    return a + core + b


def plain_col(G, name):
    return {"name": quoted2(G, name), "type": G.str(name + ".type", TYPE_TEXT, "int"), "size": None, "references": None,
            "unique": G.bool(name + ".unique"), "nullable": G.bool(name + ".nullable"), "default": None, "check": None}


def table_obj(G, n_cols, pk=False):
    cols = [plain_col(G, "c%d" % i) for i in range(n_cols)]
    pk_list = [quoted2(G, "pk0")] if pk else []
    return G.obj("BaseData", columns=cols, alter={}, primary_key=pk_list, table_name=G.str("t", NAME), schema=None)


def norm(n):
    return n.replace('"', "").replace("`", "").replace("[", "").replace("]", "").lower()


def first_match(cols, name):
    for i in range(len(cols)):
        if norm(cols[i]["name"]) == norm(name):
            return i
    return None


@contract
class AlterDropColumns:
    fn = "output.base_data.BaseData.alter_drop_columns"
    props = ["C04"]
    cases = {"%d columns" % n: dict(n=n) for n in (1, 2)}

    def build(G, case):
        return dict(args=[table_obj(G, case["n"]), {"columns_to_drop": [quoted(G, "target")[0]], "alter_table_name": G.str("t", NAME), "schema": None}])

    def spec(case, self_, statement):
        self_.alter["dropped_columns"] = []
        i = first_match(self_.columns, statement["columns_to_drop"][0])
        if i is not None:
            self_.alter["dropped_columns"] = self_.columns[i]
            del self_.columns[i]


@contract
class AlterRenameColumns:
    fn = "output.base_data.BaseData.alter_rename_columns"
    props = ["C04", "C12"]
    cases = {"%d columns" % n: dict(n=n) for n in (1, 2)}

    def build(G, case):
        ren = {"from": quoted(G, "target")[0], "to": G.str("new_name", NAME)}
        return dict(args=[table_obj(G, case["n"], pk=True), {"columns_to_rename": [ren], "alter_table_name": G.str("t", NAME), "schema": None}])

    def spec(case, self_, statement):
        ren = statement["columns_to_rename"][0]
        i = first_match(self_.columns, ren["from"])
        if i is not None:
            # the primary key names columns of the table: it follows the rename (same matching, in place)
            old_name = self_.columns[i]["name"]
            for k in range(len(self_.primary_key)):
                if norm(self_.primary_key[k]) == norm(old_name):
                    self_.primary_key[k] = ren["to"]
            self_.columns[i]["name"] = ren["to"]
        self_.alter["renamed_columns"] = [ren]


@contract
class AlterModifyColumns:
    fn = "output.base_data.BaseData.alter_modify_columns"
    props = ["C04"]
    cases = {"%d columns" % n: dict(n=n) for n in (1, 2)}

    def build(G, case):
        return dict(args=[table_obj(G, case["n"]), {"columns_to_modify": [plain_col(G, "target")], "alter_table_name": G.str("t", NAME), "schema": None}])

    def spec(case, self_, statement):
        new = statement["columns_to_modify"][0]
        self_.alter["modified_columns"] = []
        i = first_match(self_.columns, new["name"])
        if i is not None:
            self_.alter["modified_columns"] = self_.columns[i]
            self_.columns[i] = new


# ------------------------------------------------------------------ the same effects for a column list of ANY length
# (search-loop rule: the loop breaks exactly on the elements the predicate selects, other elements change nothing; the
#  net effect is the loop body executed once on the first matching element, at an unknown position)
from contracts.lib import first_index, seq_at, seq_map, seq_remove_at, seq_replace_at  # noqa: E402


def light_col(G, name):
    return {"name": quoted2(G, name), "type": G.str(name + ".type", TYPE_TEXT, "int"), "size": G.int(name + ".size"), "references": None,
            "unique": G.bool(name + ".unique"), "nullable": G.bool(name + ".nullable"), "default": G.str(name + ".default"), "check": None}


def named_like(target):
    """the column the statement names: same name irrespective of quoting and letter case"""
    return lambda c: norm(c["name"]) == norm(target)


@contract
class AlterDropColumnsAnyLength:
    fn = "output.base_data.BaseData.alter_drop_columns"
    props = ["C04"]
    cases = {"any number of columns": {}}
    loops = {"output.base_data.BaseData.alter_drop_columns#1": dict(kind="search", pred="pred", reads=["column_to_drop"])}

    def build(G, case):
        t = G.obj("BaseData", columns=G.oseq("cols", elem=light_col), alter={}, primary_key=[], table_name=G.str("t", NAME), schema=None)
        return dict(args=[t, {"columns_to_drop": [quoted(G, "target")[0]], "alter_table_name": G.str("t", NAME), "schema": None}])

    def pred(case, entry):
        return named_like(entry["column_to_drop"])

    def spec(case, self_, statement):
        self_.alter["dropped_columns"] = []
        i = first_index(named_like(statement["columns_to_drop"][0]), self_.columns)
        if i is not None:
            self_.alter["dropped_columns"] = seq_at(self_.columns, i)
            self_.columns = seq_remove_at(self_.columns, i)


@contract
class AlterModifyColumnsAnyLength:
    fn = "output.base_data.BaseData.alter_modify_columns"
    props = ["C04"]
    cases = {"any number of columns": {}}
    loops = {"output.base_data.BaseData.alter_modify_columns#1": dict(kind="search", pred="pred", reads=["modified_column"])}

    def build(G, case):
        t = G.obj("BaseData", columns=G.oseq("cols", elem=light_col), alter={}, primary_key=[], table_name=G.str("t", NAME), schema=None)
        return dict(args=[t, {"columns_to_modify": [light_col(G, "target")], "alter_table_name": G.str("t", NAME), "schema": None}])

    def pred(case, entry):
        return named_like(entry["modified_column"]["name"])

    def spec(case, self_, statement):
        new = statement["columns_to_modify"][0]
        self_.alter["modified_columns"] = []
        i = first_index(named_like(new["name"]), self_.columns)
        if i is not None:
            self_.alter["modified_columns"] = seq_at(self_.columns, i)
            self_.columns = seq_replace_at(self_.columns, i, new)


@contract
class AlterRenameColumnsAnyLength:
    fn = "output.base_data.BaseData.alter_rename_columns"
    props = ["C04", "C12"]
    cases = {"any number of columns": {}}
    loops = {"output.base_data.BaseData.alter_rename_columns#1": dict(kind="search", pred="pred", reads=["renamed_column"])}

    def build(G, case):
        t = G.obj("BaseData", columns=G.oseq("cols", elem=light_col), alter={}, primary_key=[quoted2(G, "pk0")], table_name=G.str("t", NAME), schema=None)
        ren = {"from": quoted(G, "target")[0], "to": G.str("new_name", NAME)}
        return dict(args=[t, {"columns_to_rename": [ren], "alter_table_name": G.str("t", NAME), "schema": None}])

    def pred(case, entry):
        return named_like(entry["renamed_column"]["from"])

    def spec(case, self_, statement):
        ren = statement["columns_to_rename"][0]
        i = first_index(named_like(ren["from"]), self_.columns)
        if i is not None:
            col = seq_at(self_.columns, i)
            for k in range(len(self_.primary_key)):
                if norm(self_.primary_key[k]) == norm(col["name"]):
                    self_.primary_key[k] = ren["to"]
            col["name"] = ren["to"]
            self_.columns = seq_replace_at(self_.columns, i, col)
        self_.alter["renamed_columns"] = [ren]


def flag_unique_exact(names):
    def f(c):
        if len(names) == 1 and c["name"] == names[0]:
            r = dict(c)
            r["unique"] = True
            return r
        return c
    return f


def set_default_exact(names, value):
    def f(c):
        for n in names:
            if c["name"] == n:
                r = dict(c)
                r["default"] = value
                return r
        return c
    return f


@contract
class UniqueFromAlter:
    """ALTER TABLE t ADD UNIQUE (col): a single-column unique flags that column, a multi-column one flags none"""
    fn = "output.base_data.BaseData.set_unique_columns_from_alter"
    props = ["C04", "C02"]
    cases = {"one column": dict(n=1), "two columns": dict(n=2)}
    loops = {"output.base_data.BaseData.set_unique_columns_from_alter#0": dict(inv="inv_cols", temps=["column", "column_name"], reads=["statement"])}

    def build(G, case):
        t = G.obj("BaseData", columns=G.oseq("cols", elem=light_col), alter={}, primary_key=[], table_name=G.str("t", NAME), schema=None)
        st = {"unique": {"constraint_name": None, "columns": [G.str("u%d" % i, NAME) for i in range(case["n"])]}, "alter_table_name": G.str("t", NAME), "schema": None}
        return dict(args=[t, st])

    def inv_cols(case, pre, rest, entry):
        return {"self.columns": seq_map(flag_unique_exact(entry["statement"]["unique"]["columns"]), pre) + rest}

    def spec(case, self_, statement):
        self_.columns = seq_map(flag_unique_exact(statement["unique"]["columns"]), self_.columns)


@contract
class DefaultFromAlter:
    """ALTER TABLE t ADD [CONSTRAINT n] DEFAULT v FOR a, b: every listed column gets the default, no other column changes"""
    fn = "output.base_data.BaseData.set_default_columns_from_alter"
    props = ["C04"]
    cases = {"one column": dict(n=1), "two columns": dict(n=2)}
    loops = {"output.base_data.BaseData.set_default_columns_from_alter#0": dict(inv="inv_cols", temps=["column", "column_name"], reads=["statement"])}

    def build(G, case):
        t = G.obj("BaseData", columns=G.oseq("cols", elem=light_col), alter={}, primary_key=[], table_name=G.str("t", NAME), schema=None)
        st = {"default": {"constraint_name": None, "columns": [G.str("d%d" % i, NAME) for i in range(case["n"])], "value": G.str("value")},
              "alter_table_name": G.str("t", NAME), "schema": None}
        return dict(args=[t, st])

    def inv_cols(case, pre, rest, entry):
        return {"self.columns": seq_map(set_default_exact(entry["statement"]["default"]["columns"], entry["statement"]["default"]["value"]), pre) + rest}

    def spec(case, self_, statement):
        self_.columns = seq_map(set_default_exact(statement["default"]["columns"], statement["default"]["value"]), self_.columns)


# ------------------------------------------------------------------ routing of ALTER / INDEX records to their table
# Output.process_alter_and_index_result -> add_index_to_table / add_alter_to_table -> get_table_from_tables_data are
# verified TOGETHER (inlined): the record reaches exactly the table registered under (name, schema), every other table
# of the registry (same name in another schema, other names) is untouched, a missing target raises ValueError and
# changes nothing - in particular the record is not kept in the result.  What the table then does with an ALTER record
# (BaseData.append_statement_information_to_table) is abstract here (ghost event naming the receiving table) and is the
# subject of the per-kind contracts above and of AlterRecordDispatch below.
from contracts.lib import ghost_call, opaque  # noqa: E402


def routed_registry(G):
    keys = [("orders", None), ("orders", "shop"), ("orders", "crm"), ("items", "shop")]
    return {k: G.obj("BaseData", table_name=k[0], schema=k[1], marker=G.str("marker.%s.%s" % k), index=G.oseq("index.%s.%s" % k, elem=lambda g, n: g.str(n)))
            for k in keys}


def find_target(registry, name, schema):
    for key in registry:
        if key[0] == name and key[1] == schema:
            return registry[key]
    return None


@contract
class AlterRecordStub:
    """ASSUMED at this level (per-kind contracts cover the handlers): the table applies the record to itself only"""
    fn = "output.base_data.BaseData.append_statement_information_to_table"
    props = []
    modular = True
    cases = {"-": {}}

    def build(G, case):
        return dict(args=[G.obj("BaseData", table_name="t", schema=None, marker="m"), {}])

    def spec(case, self_, statement):
        ghost_call("alter-applied", self_.table_name, self_.schema, self_.marker, statement)


@contract
class RouteAlterOrIndex:
    fn = "output.core.Output.process_alter_and_index_result"
    props = ["C04", "C03", "C13"]
    raises = ("ValueError",)
    cases = {"index, default mode": dict(kind="index", mode="sql", key="schema"), "index, mssql mode": dict(kind="index", mode="mssql", key="schema"),
             "index, bigquery mode (record carries schema)": dict(kind="index", mode="bigquery", key="dataset"),
             "alter": dict(kind="alter", mode="sql", key="schema"), "alter, bigquery mode": dict(kind="alter", mode="bigquery", key="dataset"),
             "neither": dict(kind="other", mode="sql", key="schema")}

    def build(G, case):
        out = G.obj("Output", tables_dict=routed_registry(G), output_mode=case["mode"], schema_key=case["key"], group_by_type=False,
                    final_result=G.oseq("already reported", elem=lambda g, n: g.str(n)), parser_output=[])
        schema = [None, G.str("schema", r"[a-z_0-9]+", "shop")][G.choice("schema?", 2)]
        name = G.str("table", r"[a-z_0-9]+", "orders")
        if case["kind"] == "index":
            rec = {"index_name": G.str("index", NAME), "schema": schema, "table_name": name, "columns": G.str("columns payload"), "unique": G.bool("unique"),
                   "clustered": G.bool("clustered"), "detailed_columns": G.str("detailed payload")}
        elif case["kind"] == "alter":
            rec = {"alter_table_name": name, "schema": schema, "payload": G.str("alter payload")}
        else:
            rec = {"payload": G.str("payload")}
        return dict(args=[out, rec])

    def spec(case, self_, table):
        if case["kind"] == "index":
            target = find_target(self_.tables_dict, table["table_name"], table["schema"])
            if target is None:
                raise ValueError("no such table")
            # the record loses the routing keys (and `clustered` outside MSSQL mode) and is appended to the table's indexes
            del table["schema"]
            del table["table_name"]
            if case["mode"] != "mssql":
                del table["clustered"]
            target.index.append(table)
        elif case["kind"] == "alter":
            target = find_target(self_.tables_dict, table["alter_table_name"], table["schema"])
            if target is None:
                raise ValueError("no such table")
            ghost_call("alter-applied", target.table_name, target.schema, target.marker, table)


ALTER_KINDS = {          # key of the record -> handlers of the table, in order
    "columns": ["add-columns"], "columns_to_rename": ["rename-columns"], "columns_to_drop": ["drop-columns"], "columns_to_modify": ["modify-columns"],
    "check": ["add-check"], "unique": ["record-alter:unique", "flag-unique-columns"], "default": ["record-alter:default", "set-default-columns"],
    "primary_key": ["record-alter:primary_key"],
}


@contract
class AlterRecordDispatch:
    """an ALTER record is handled by the handler(s) of its own kind, once, and by nothing else; a record of no known kind
    changes nothing.  The handlers are abstract here (ghost events); each has its own contract above."""
    fn = "output.base_data.BaseData.append_statement_information_to_table"
    props = ["C04", "C03", "C13"]
    abstract_callees = True
    stub_calls = {
        "output.base_data.BaseData.prepare_alter_columns": "add-columns",
        "output.base_data.BaseData.alter_rename_columns": "rename-columns",
        "output.base_data.BaseData.alter_drop_columns": "drop-columns",
        "output.base_data.BaseData.alter_modify_columns": "modify-columns",
        "output.base_data.BaseData.process_check_in_statement": "add-check",
        "output.base_data.BaseData.set_alter_to_table_data": "record-alter",
        "output.base_data.BaseData.set_unique_columns_from_alter": "flag-unique-columns",
        "output.base_data.BaseData.set_default_columns_from_alter": "set-default-columns",
    }
    cases = dict([(k, dict(key=k)) for k in ALTER_KINDS] + [("unknown kind", dict(key=None))])

    def build(G, case):
        t = G.obj("BaseData", columns=G.oseq("cols", elem=light_col), alter={}, primary_key=[], table_name=G.str("t", NAME), schema=None)
        rec = {"alter_table_name": G.str("t", NAME), "schema": None}
        if case["key"] is not None:
            rec[case["key"]] = G.str("payload of the record")
        return dict(args=[t, rec])

    def spec(case, self_, statement):
        if case["key"] is not None:
            for h in ALTER_KINDS[case["key"]]:
                if h.startswith("record-alter:"):
                    ghost_call("record-alter", self_, h.split(":")[1], statement)
                else:
                    ghost_call(h, self_, statement)


# ------------------------------------------------------------------ the remaining ALTER handlers of the table
def alter_section(G, key, case):
    """the table's alter section before the statement: the list of this kind absent / empty / holding earlier records"""
    if case["before"] == "absent":
        return {}
    if case["before"] == "empty":
        return {key: []}
    return {key: G.oseq("earlier " + key, elem=lambda g, n: g.str(n))}


BEFORE = ["absent", "empty", "some"]


@contract
class RecordAlter:
    """ADD UNIQUE / DEFAULT / PRIMARY KEY: the record of the statement is appended to the table's alter section under
    the plural key (with the USING clause when the statement has one); earlier records stay, in order"""
    fn = "output.base_data.BaseData.set_alter_to_table_data"
    props = ["C04"]
    cases = {"%s, %s before, using=%s" % (k, b, u): dict(key=k, before=b, using=u) for k in ("unique", "default", "primary_key") for b in BEFORE for u in (False, True)}

    def build(G, case):
        key = case["key"]
        t = G.obj("BaseData", columns=G.oseq("cols", elem=light_col), alter=alter_section(G, key + "s", case), primary_key=[], table_name=G.str("t", NAME), schema=None)
        st = {"alter_table_name": G.str("t", NAME), "schema": None, key: {"constraint_name": G.str("cname"), "columns": G.oseq("stmt cols", elem=lambda g, n: g.str(n, NAME))}}
        if case["using"]:
            st["using"] = G.str("using")
        return dict(args=[t, key, st])

    def spec(case, self_, key, statement):
        rec = statement[key]
        if case["using"]:
            rec["using"] = statement["using"]
        if case["before"] == "absent":
            self_.alter[key + "s"] = [rec]
        else:
            self_.alter[key + "s"].append(rec)


@contract
class AddCheckFromAlter:
    """ADD CHECK: the check (its text as one string) is appended to alter['checks']; earlier checks stay, in order"""
    fn = "output.base_data.BaseData.process_check_in_statement"
    props = ["C04", "C07"]
    cases = {"%s before, text as %s" % (b, f): dict(before=b, form=f) for b in BEFORE for f in ("string", "words")}

    def build(G, case):
        t = G.obj("BaseData", columns=G.oseq("cols", elem=light_col), alter=alter_section(G, "checks", case), primary_key=[], table_name=G.str("t", NAME), schema=None)
        text = G.str("check text") if case["form"] == "string" else [G.str("w0", NAME), G.str("w1", NAME), G.str("w2", NAME)]
        return dict(args=[t, {"alter_table_name": G.str("t", NAME), "schema": None, "check": {"constraint_name": G.str("cname"), "statement": text}}])

    def spec(case, self_, statement):
        chk = statement["check"]
        if case["form"] == "words":
            chk["statement"] = chk["statement"][0] + " " + chk["statement"][1] + " " + chk["statement"][2]
        if case["before"] == "absent":
            self_.alter["checks"] = [chk]
        else:
            self_.alter["checks"].append(chk)


def has_column(cols, name):
    for c in cols:
        if norm(c["name"]) == norm(name):
            return True
    return False


@contract
class AddColumnsFromAlter:
    """ADD COLUMN: every added column is recorded in alter['columns'] (after earlier records) and appended to the column
    list unless the table already has a column of that name (irrespective of quoting and letter case).
    SHAPE-BOUNDED: tables of 0..2 columns, 1..2 added columns."""
    fn = "output.base_data.BaseData.prepare_alter_columns"
    props = ["C04"]
    cases = {"%d table columns, %d added, %s before" % (n, a, b): dict(n=n, a=a, before=b) for n in (0, 1, 2) for a in (1, 2) for b in ("absent", "some")
             if b == "absent" or (n, a) in ((0, 1), (1, 1), (1, 2))}

    def build(G, case):
        t = table_obj(G, case["n"])
        t.alter = alter_section(G, "columns", case)
        added = [plain_col(G, "new%d" % i) for i in range(case["a"])]
        return dict(args=[t, {"alter_table_name": G.str("t", NAME), "schema": None, "columns": added}])

    def spec(case, self_, statement):
        before = list(self_.columns)
        if case["before"] == "absent":
            self_.alter["columns"] = list(statement["columns"])
        else:
            for c in statement["columns"]:
                self_.alter["columns"].append(c)
        for c in statement["columns"]:
            if not has_column(before, c["name"]):
                self_.columns.append(c)
