"""C04 - ALTER TABLE / CREATE INDEX change exactly the table they name.

Spec from the statement: a table is identified by (schema, name) irrespective of identifier
quoting (double quotes, back-ticks, square brackets) and letter case; a lookup returns the table
registered under that identity and raises when there is none (never some other table)."""
from contracts.base import contract
from contracts.lib import NAME, production

CORE = r"[a-zA-Z_0-9$#]+"
QUOTES = [("", ""), ('"', '"'), ("`", "`"), ("[", "]")]


def quoted(G, name):
    """an identifier core in one of the four quoting styles"""
    core = G.str(name + ".core", CORE, "Tbl")
    a, b = QUOTES[G.choice(name + ".style", 4)]
    return a + core + b, core


@contract
class NormalizeName:
    fn = "utils.normalize_name"
    props = ["C04"]
    cases = {"any-quoting-style": {}}

    def build(G, case):
        full, core = quoted(G, "n")
        return dict(args=[full], ghost=dict(core=core))

    def spec(case, name):
        # the identity of a name is its delimiter-free text, lower-cased
        return name.replace('"', "").replace("`", "").replace("[", "").replace("]", "").lower()


@contract
class GetTableId:
    fn = "utils.get_table_id"
    props = ["C04"]
    cases = {"with-schema": dict(schema=True), "without-schema": dict(schema=False)}

    def build(G, case):
        tfull, tcore = quoted(G, "t")
        if case["schema"]:
            sfull, score = quoted(G, "s")
        else:
            sfull = [None, ""][G.choice("s.empty", 2)]
        return dict(args=[sfull, tfull])

    def spec(case, schema_name, table_name):
        t = table_name.replace('"', "").replace("`", "").replace("[", "").replace("]", "").lower()
        if case["schema"]:
            return (t, schema_name.replace('"', "").replace("`", "").replace("[", "").replace("]", "").lower())
        return (t, schema_name)


def registry(G):
    """a registry with same-named tables in different schemas and without schema"""
    tabs = {k: G.obj("BaseData", table_name=k[0], schema=k[1], marker=G.str("marker.%s.%s" % k)) for k in
            [("orders", None), ("orders", "shop"), ("orders", "crm"), ("items", "shop")]}
    return tabs


@contract
class LookupTable:
    fn = "output.core.Output.get_table_from_tables_data"
    props = ["C04"]
    raises = ("ValueError",)
    cases = {"plain-lower-case-names": {}}

    def build(G, case):
        out = G.obj("Output", tables_dict=registry(G), output_mode="sql", schema_key="schema", final_result=[], group_by_type=False)
        schema = [None, G.str("schema", r"[a-z_0-9]+", "shop")][G.choice("schema?", 2)]
        return dict(args=[out, schema, G.str("table", r"[a-z_0-9]+", "orders")])

    def spec(case, self_, schema, table_name):
        for key in self_.tables_dict:
            if key[0] == table_name and key[1] == schema:
                return self_.tables_dict[key]
        raise ValueError("unknown table")
