"""C16 - silent vs DDLParserError: the error callbacks."""
from simple_ddl_parser.ddl_parser import DDLParserError
from simple_ddl_parser.exception import SimpleDDLParserException

from contracts.base import contract
from contracts.lib import lexer_flags


@contract
class PError:
    fn = "ddl_parser.DDLParser.p_error"
    props = ["C16"]
    raises = ("DDLParserError",)
    cases = {"token": dict(eof=False), "eof": dict(eof=True)}

    def build(G, case):
        parser = G.parser(lexer=lexer_flags(G), silent=G.bool("silent"), normalize_names=G.bool("normalize_names"))
        tok = None if case["eof"] else G.token(G.str("tok.value"), G.str("tok.type", r"[A-Z_]+", "ID"))
        return dict(args=[parser, tok])

    def spec(case, self_, p):
        # raises iff not silent; otherwise returns None and changes nothing
        if not self_.silent:
            raise DDLParserError("Unknown statement")


@contract
class TError:
    fn = "ddl_parser.DDLParser.t_error"
    props = ["C16"]
    raises = ("DDLParserError",)
    cases = {"-": {}}

    def build(G, case):
        parser = G.parser(lexer=lexer_flags(G), silent=G.bool("silent"))
        return dict(args=[parser, G.token(G.str("tok.value", r"[ -~]+", "^"), "error")])

    def spec(case, self_, t):
        # the lexer callback always reports through the library's own exception type;
        # Parser.parse_statement turns it into "no entity" when silent (frame clause + bounded runs)
        raise DDLParserError("Unknown symbol")


@contract
class RunUnknownMode:
    fn = "parser.Parser.run"
    props = ["C16", "C10"]
    raises = ("SimpleDDLParserException",)
    cases = {"unknown-mode": {}}

    def build(G, case):
        parser = G.parser(lexer=lexer_flags(G), silent=G.bool("silent"))
        return dict(args=[parser], kwargs=dict(output_mode=G.str("mode", None, "nosuchmode"), group_by_type=G.bool("g"), json_dump=G.bool("j")))

    def requires(case, self_, output_mode="sql", group_by_type=False, json_dump=False):
        return output_mode not in ["redshift", "spark_sql", "mysql", "bigquery", "mssql", "databricks", "sqlite", "vertics",
                                   "ibm_db2", "postgres", "oracle", "hql", "snowflake", "athena", "sql"]

    def spec(case, self_, output_mode="sql", group_by_type=False, json_dump=False):
        raise SimpleDDLParserException("unknown mode")


# ------------------------------------------------------------------ the statement parse: where silent decides
from contracts.lib import opaque  # noqa: E402


class YaccStub:
    """stand-in for the PLY parser object (A-PLY-LR): parse() returns a result or raises, as chosen by the case"""

    def parse(self, statement, lexer=None):
        if self.outcome == "library-error":
            raise DDLParserError("Unknown symbol")
        if self.outcome == "nothing":
            return None
        return self.result


@contract
class ParseStatement:
    """one statement: a result is appended to the results in order; nothing is appended when the statement yields nothing;
    an error raised by the lexer / parser callbacks yields no entity and no exception when silent, and propagates
    (as the library's exception) when not silent; the statement is parsed with the object's own parser and lexer"""
    fn = "parser.Parser.parse_statement"
    props = ["C16", "C03", "C15"]
    raises = ("DDLParserError",)
    abstract_callees = True
    cases = {"entity": dict(outcome="entity"), "nothing": dict(outcome="nothing"), "library-error": dict(outcome="library-error")}

    def build(G, case):
        stub = G.obj("YaccStub", outcome=case["outcome"], result={"table_name": G.str("t"), "columns": []})
        p = G.parser(lexer=lexer_flags(G), silent=G.bool("silent"), statement=G.str("statement", None, "CREATE TABLE t (a int)"),
                     tables=G.oseq("earlier", elem=lambda g, n: {"table_name": g.str(n)}), yacc=stub)
        return dict(args=[p])

    def spec(case, self_):
        if self_.statement.endswith(";"):
            self_.statement = self_.statement[:-1]      # the terminator is not part of the statement text
        if case["outcome"] == "entity":
            self_.tables.append(self_.yacc.result)
        elif case["outcome"] == "library-error" and not self_.silent:
            raise DDLParserError("Unknown symbol")


@contract
class ParserConstruction:
    """what a parser object remembers of its constructor arguments: the text (escaped), normalize_names as given, and
    silent - which debug=True switches OFF whatever silent says (documented: debug is for development); a fresh, empty
    result list.  The lexer / parser objects are PLY's (A-PLY); attributes not named here are the object's own business."""
    fn = "parser.Parser.__init__"
    props = ["C%02d" % i for i in range(1, 21)]       # every property starts from a constructed parser
    abstract_callees = True
    cases = {"any arguments": {}}

    def build(G, case):
        obj = G.parser()
        obj.__dict__.pop("lexer", None)       # a bare object: the constructor establishes every attribute the run path reads
        return dict(args=[obj, G.str("content", None, "CREATE TABLE t (a int);")],
                    kwargs=dict(silent=G.bool("silent"), debug=G.bool("debug"), normalize_names=G.bool("normalize_names")))

    def spec(case, self_, content, silent=True, debug=False, normalize_names=False, log_file=None, log_level=20):
        self_.tables = []
        self_.silent = silent and not debug
        self_.normalize_names = normalize_names
        self_.data = opaque("str.encode", content, "unicode_escape")
