"""C06 - identifiers verbatim; normalize_names strips exactly one pair of outer delimiters."""
from contracts.base import contract
from contracts.lib import lexer_flags, production, strip_one_pair


@contract
class PId:
    fn = "ddl_parser.DDLParser.p_id"
    props = ["C06"]
    cases = {"ID": {}, "DQ_STRING": {}}

    def build(G, case):
        # any lexer context, any value: the single id production may depend on nothing but the flag
        parser = G.parser(lexer=lexer_flags(G), normalize_names=G.bool("normalize_names"), silent=G.bool("silent"))
        return dict(args=[parser, production(G, case["_name"], {1: G.str("v", None, '"[x]"')})])

    def spec(case, self_, p):
        if self_.normalize_names:
            p[0] = strip_one_pair(p[1])
        else:
            p[0] = p[1]

    def lift(case, model):
        return dict(ddl="CREATE TABLE %s (x int);" % model.get("v", "t"), normalize_names=bool(model.get("normalize_names")))


@contract
class PIdOrString:
    fn = "ddl_parser.DDLParser.p_id_or_string"
    props = ["C06", "C07"]
    cases = {"id": {}, "STRING": {}}

    def build(G, case):
        return dict(args=[G.parser(), production(G, case["_name"], {1: G.str("v")})])

    def spec(case, self_, p):
        p[0] = p[1]
