"""C05 - invariance under keyword case: the token-typing helpers look at a word only through its
upper-case form, keyword tokens are upper-cased, identifiers keep their text.

Relational contracts: the reference outcome is the outcome of the SAME real function on the
upper-case spelling of the word (so nothing about the keyword tables is restated here); the
obligation is that the spelling as written gives the same token type and the same lexer flags.
Words that start with ARRAY are excluded (array types are a separate, case-sensitive notation: C09)."""
from contracts.base import contract
from contracts.lib import lexer_flags
from contracts.lib import PARSE_PROPS

WORD = r"[a-zA-Z_][a-zA-Z_0-9]*"


def keyword_like(v):
    return not v.upper().startswith("ARRAY")


@contract
class CapitalizeTokens:
    """a keyword token is reported in upper case in every lexer context; ID / LT / RT keep their text"""
    fn = "ddl_parser.DDLParser.capitalize_tokens"
    props = PARSE_PROPS
    cases = {"any-context": {}}

    def build(G, case):
        return dict(args=[G.parser(lexer=lexer_flags(G)), G.token(G.str("v", r"[!-~]+", "null"), G.str("ty", r"[A-Z_]+", "NULL"))])

    def spec(case, self_, t):
        if t.type not in ["ID", "LT", "RT"]:
            t.value = t.value.upper()


@contract
class AfterColumnsTokensCase:
    fn = "ddl_parser.DDLParser.after_columns_tokens"
    props = PARSE_PROPS
    cases = {"any-context": {}}

    def build(G, case):
        return dict(args=[G.parser(lexer=lexer_flags(G)), G.token(G.str("v", WORD, "stored"), "ID")])

    def requires(case, self_, t):
        return keyword_like(t.value)

    def spec(case, self_, t):
        written = t.value
        t.value = written.upper()
        r = self_.after_columns_tokens(t)
        t.value = written
        return r


@contract
class ProcessBodyTokensCase:
    fn = "ddl_parser.DDLParser.process_body_tokens"
    props = PARSE_PROPS
    cases = {"any-context": {}}

    def build(G, case):
        return dict(args=[G.parser(lexer=lexer_flags(G)), G.token(G.str("v", WORD, "not"), G.str("ty", r"[A-Z_]+", "ID"))])

    def requires(case, self_, t):
        return keyword_like(t.value)

    def spec(case, self_, t):
        written = t.value
        t.value = written.upper()
        r = self_.process_body_tokens(t)
        t.value = written
        return r


@contract
class IsColumnNameCase:
    fn = "ddl_parser.DDLParser.is_token_column_name"
    props = PARSE_PROPS
    cases = {"any-context": {}}

    def build(G, case):
        return dict(args=[G.parser(lexer=lexer_flags(G)), G.token(G.str("v", WORD, "primary"), "ID")])

    def spec(case, self_, t):
        written = t.value
        t.value = written.upper()
        r = self_.is_token_column_name(t)
        t.value = written
        return r


@contract
class IsCreationNameCase:
    fn = "ddl_parser.DDLParser.is_creation_name"
    props = PARSE_PROPS
    cases = {"any-context": {}}

    def build(G, case):
        return dict(args=[G.parser(lexer=lexer_flags(G)), G.token(G.str("v", WORD, "if"), "ID")])

    def spec(case, self_, t):
        written = t.value
        t.value = written.upper()
        r = self_.is_creation_name(t)
        t.value = written
        return r
