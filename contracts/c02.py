"""C02 - keys, uniqueness, checks and foreign keys land on the right columns: post-processing of the
table (output/base_data.py) over a column list of any length (fold-form loop rule).

Spec from the statement: the primary key is the list of inline-PK column names in column order,
followed by the columns of named PRIMARY KEY constraints; every primary-key column is reported
non-nullable and no other column's nullability changes; a column is flagged unique when it is the
single column of a UNIQUE clause; nothing else about a column changes."""
from contracts.base import contract
from contracts.lib import NAME, TYPE_TEXT, ghost_call, seq_filter, seq_flatmap, seq_map, without


def col(G, name):
    """a column as it arrives from the parser (the attributes post-processing looks at are symbolic)"""
    return {"name": G.str(name + ".name", NAME), "type": G.str(name + ".type", TYPE_TEXT, "int"), "size": G.int(name + ".size"),
            "primary_key": G.bool(name + ".primary_key"), "nullable": G.bool(name + ".nullable"), "unique": G.bool(name + ".unique"),
            "default": G.str(name + ".default"), "references": None, "check": None}


def col_done(G, name):
    """a column after primary_key has been removed"""
    return {"name": G.str(name + ".name", NAME), "type": G.str(name + ".type", TYPE_TEXT, "int"), "size": G.int(name + ".size"),
            "nullable": G.bool(name + ".nullable"), "unique": G.bool(name + ".unique"),
            "default": G.str(name + ".default"), "references": None, "check": None}


def pk_names(c):
    if c["primary_key"]:
        return [c["name"]]
    return []


def drop_pk_flag(c):
    return without(c, "primary_key")


@contract
class GetPkFromColumns:
    fn = "output.base_data.BaseData.get_pk_from_columns_and_constraints"
    props = ["C02", "C12"]
    cases = {"no-named-constraint": dict(named=False), "named-constraint": dict(named=True)}
    loops = {"output.base_data.BaseData.get_pk_from_columns_and_constraints#0": dict(inv="inv_cols", temps=["column"])}

    def build(G, case):
        cons = {}
        if case["named"]:
            cons = {"primary_keys": [{"columns": G.oseq("ck", elem=lambda g, n: g.str(n, NAME)), "constraint_name": G.str("cname", NAME)}]}
        t = G.obj("BaseData", columns=G.oseq("cols", elem=col), constraints=cons, primary_key=None)
        return dict(args=[t])

    def inv_cols(case, pre, rest, entry):
        return {"pk": seq_flatmap(pk_names, pre), "self.columns": seq_map(drop_pk_flag, pre) + rest}

    def spec(case, self_):
        pk = seq_flatmap(pk_names, self_.columns)
        self_.columns = seq_map(drop_pk_flag, self_.columns)
        if case["named"]:
            pk = pk + self_.constraints["primary_keys"][0]["columns"]
        self_.primary_key = pk


@contract
class RemovePkFromColumns:
    fn = "output.base_data.BaseData.remove_pk_from_columns"
    props = ["C02", "C12"]
    cases = {"any-number-of-columns": {}}
    loops = {"output.base_data.BaseData.remove_pk_from_columns#0": dict(inv="inv_cols", temps=["column"])}

    def build(G, case):
        return dict(args=[G.obj("BaseData", columns=G.oseq("cols", elem=col), primary_key=G.oseq("pk", elem=lambda g, n: g.str(n, NAME)))])

    def inv_cols(case, pre, rest, entry):
        return {"self.columns": seq_map(drop_pk_flag, pre) + rest}

    def spec(case, self_):
        self_.columns = seq_map(drop_pk_flag, self_.columns)


def in_list(names):
    return lambda c: c["name"] in names


def set_not_null_if_in(names):
    def f(c):
        if c["name"] in names:
            r = dict(c)
            r["nullable"] = False
            return r
        return c
    return f


def set_unique_if_in(names):
    def f(c):
        if c["name"] in names:
            r = dict(c)
            r["unique"] = True
            return r
        return c
    return f


@contract
class AddUniqueColumns:
    fn = "output.base_data.BaseData.add_unique_columns"
    props = ["C02"]
    cases = {"any-number-of-columns": {}}
    loops = {"output.base_data.BaseData.add_unique_columns#0": dict(inv="inv_cols", temps=["column"], reads=["self.unique"])}

    def build(G, case):
        return dict(args=[G.obj("BaseData", columns=G.oseq("cols", elem=col_done), unique=G.oseq("uq", elem=lambda g, n: g.str(n, NAME)))])

    def inv_cols(case, pre, rest, entry):
        return {"self.columns": seq_map(set_unique_if_in(entry["self.unique"]), pre) + rest}

    def spec(case, self_):
        self_.columns = seq_map(set_unique_if_in(self_.unique), self_.columns)


@contract
class PopulateKeys:
    """primary key from inline flags (+ named constraints) or from the table-level clause; every key column
    NOT NULL; no other attribute of any column changes; order and number of columns unchanged"""
    fn = "output.base_data.BaseData.populate_keys"
    props = ["C02", "C01", "C12", "C06"]      # C06: key columns are matched by their exact spelling, under both normalize_names settings
    cases = {"inline-keys": dict(clause=False), "key-clause": dict(clause=True)}
    loops = {
        "output.base_data.BaseData.populate_keys#0": dict(inv="inv_not_null", temps=["column"], reads=["self.primary_key"]),
        "output.base_data.BaseData.get_pk_from_columns_and_constraints#0": dict(inv="inv_collect", temps=["column"]),
        "output.base_data.BaseData.remove_pk_from_columns#0": dict(inv="inv_remove", temps=["column"]),
    }

    def build(G, case):
        pk = G.oseq("pk", elem=lambda g, n: g.str(n, NAME), min_len=1) if case["clause"] else None
        t = G.obj("BaseData", columns=G.oseq("cols", elem=col), constraints={}, primary_key=pk, unique=[])
        return dict(args=[t])

    def inv_collect(case, pre, rest, entry):
        return {"pk": seq_flatmap(pk_names, pre), "self.columns": seq_map(drop_pk_flag, pre) + rest}

    def inv_remove(case, pre, rest, entry):
        return {"self.columns": seq_map(drop_pk_flag, pre) + rest}

    def inv_not_null(case, pre, rest, entry):
        return {"self.columns": seq_map(set_not_null_if_in(entry["self.primary_key"]), pre) + rest}

    def spec(case, self_):
        if not case["clause"]:
            self_.primary_key = seq_flatmap(pk_names, self_.columns)
        self_.columns = seq_map(set_not_null_if_in(self_.primary_key), seq_map(drop_pk_flag, self_.columns))


def set_unique_if_single(lists):
    """flag the column when it is the only column of one of the UNIQUE declarations"""
    def f(c):
        for names in lists:
            if len(names) == 1 and c["name"] == names[0]:
                r = dict(c)
                r["unique"] = True
                return r
        return c
    return f


@contract
class SetColumnUniqueParam:
    fn = "output.base_data.BaseData.set_column_unique_param"
    props = ["C02"]
    cases = {"unnamed-single": dict(key="unique_statement", lists=[1]), "unnamed-multi": dict(key="unique_statement", lists=[2]),
             "named-single-and-multi": dict(key="constraints", lists=[1, 2]), "named-multi-and-single": dict(key="constraints", lists=[3, 1]),
             "no-unique-constraints": dict(key="constraints", lists=[])}
    loops = {"output.base_data.BaseData.set_column_unique_param#0": dict(inv="inv_cols", temps=["column", "check_in"], reads=["unique_lists"])}

    def build(G, case):
        lists = [[G.str("u%d.%d" % (i, j), NAME) for j in range(n)] for i, n in enumerate(case["lists"])]
        attrs = dict(columns=G.oseq("cols", elem=col_done), unique_statement=[], constraints={})
        if case["key"] == "unique_statement":
            attrs["unique_statement"] = {"columns": lists[0]}
        elif lists:
            attrs["constraints"] = {"uniques": [{"columns": l, "constraint_name": G.str("cn%d" % i, NAME)} for i, l in enumerate(lists)],
                                    "primary_keys": [{"columns": [G.str("pkc", NAME)], "constraint_name": "pk"}]}
        else:
            attrs["constraints"] = {"primary_keys": [{"columns": [G.str("pkc", NAME)], "constraint_name": "pk"}]}
        return dict(args=[G.obj("BaseData", **attrs), case["key"]])

    def inv_cols(case, pre, rest, entry):
        return {"self.columns": seq_map(set_unique_if_single(entry["unique_lists"]), pre) + rest}

    def spec(case, self_, key):
        if case["key"] == "unique_statement":
            lists = [self_.unique_statement["columns"]]
        elif case["lists"]:
            lists = [u["columns"] for u in self_.constraints["uniques"]]
        else:
            lists = []
        self_.columns = seq_map(set_unique_if_single(lists), self_.columns)


# ------------------------------------------------------------------ grammar actions of the constraint clauses
from contracts.lib import none_or_str, opt, production, ref_inner  # noqa: E402


def names(G, name):
    return G.oseq(name, elem=lambda g, n: g.str(n, NAME))


def t_name_value(G):
    return {"schema": none_or_str(G, "tn.schema", NAME), "table_name": G.str("tn.table", NAME), "columns": [], "checks": []}


@contract
class PRef:
    fn = "dialects.sql.BaseSQL.p_ref"
    props = ["C02", "C06"]
    observable = "result"
    cases = {
        "REFERENCES t_name": dict(kind="new"),
        "ref LP pid RP": dict(kind="cols"),
        "ref ON DELETE id": dict(kind="on_delete"),
        "ref ON UPDATE id": dict(kind="on_update"),
        "ref DEFERRABLE INITIALLY id": dict(kind="deferrable"),
        "ref NOT DEFERRABLE": dict(kind="not_deferrable"),
    }

    def build(G, case):
        alt = case["_name"]
        kind = case["kind"]
        vals = {}
        if kind == "new":
            vals[2] = t_name_value(G)
        else:
            vals[1] = {"references": ref_inner(G, "ref", n_cols=1)}
        if kind == "cols":
            vals[3] = names(G, "pid")
        return dict(args=[G.parser(), production(G, alt, vals)])

    def requires(case, self_, p):
        # the value of a referential action / deferrable mode is not one of the clause's own keywords
        if case["kind"] in ("on_delete", "on_update", "deferrable"):
            return p[4] not in ["ON", "DELETE", "UPDATE", "DEFERRABLE", "NOT"]
        return True

    def spec(case, self_, p):
        kind = case["kind"]
        if kind == "new":
            p[0] = {"references": {"table": p[2]["table_name"], "columns": [None], "schema": p[2]["schema"],
                                   "on_delete": None, "on_update": None, "deferrable_initially": None}}
            return
        p[0] = p[1]
        ref = p[0]["references"]
        if kind == "cols":
            ref["columns"] = p[3]
        elif kind == "on_delete":
            ref["on_delete"] = p[4]
        elif kind == "on_update":
            ref["on_update"] = p[4]
        elif kind == "deferrable":
            ref["deferrable_initially"] = p[4]
        else:
            ref["deferrable_initially"] = "NOT"

    def ensures(case, old, new, result):
        return case["kind"] == "new" or new[1][0] is new[1][1]


def not_direction(i):
    return i not in ["ASC", "DESC"]


@contract
class PPkey:
    fn = "dialects.sql.BaseSQL.p_pkey"
    props = ["C02", "C06", "C12"]
    observable = "result"
    cases = {"pkey_statement LP pid RP": {}}
    loops = {"dialects.sql.BaseSQL.process_order_in_pk#0": dict(inv="inv_cols", temps=["item"])}

    def build(G, case):
        return dict(args=[G.parser(), production(G, case["_name"], {1: {"primary_key": None}, 3: names(G, "pid")})])

    def inv_cols(case, pre, rest, entry):
        return {"columns": seq_filter(not_direction, pre)}

    def spec(case, self_, p):
        p[0] = {"primary_key": seq_filter(not_direction, p[3])}


@contract
class PUniq:
    fn = "dialects.sql.BaseSQL.p_uniq"
    props = ["C02"]
    observable = "result"
    cases = {"UNIQUE LP pid RP": dict(named=False), "UNIQUE KEY id LP pid RP": dict(named=True)}

    def build(G, case):
        alt = case["_name"]
        n = len(alt.split())
        return dict(args=[G.parser(), production(G, alt, {n - 1: names(G, "pid")})])

    def requires(case, self_, p):
        return not case["named"] or (p[3].upper() != "UNIQUE" and p[3].upper() != "KEY")

    def spec(case, self_, p):
        if case["named"]:
            p[0] = {"unique_statement": {"columns": p[5], "name": p[3]}}
        else:
            p[0] = {"unique_statement": {"columns": p[3]}}


@contract
class PConstraint:
    fn = "dialects.sql.BaseSQL.p_constraint"
    props = ["C02", "C06"]
    cases = {"CONSTRAINT id": {}}

    def build(G, case):
        return dict(args=[G.parser(), production(G, "CONSTRAINT id", {})])

    def spec(case, self_, p):
        p[0] = {"constraint": {"name": p[2]}}


@contract
class PForeign:
    fn = "dialects.sql.BaseSQL.p_foreign"
    props = ["C02"]
    observable = "result"
    cases = {"FOREIGN KEY LP pid RP": {}}

    def build(G, case):
        return dict(args=[G.parser(), production(G, case["_name"], {4: names(G, "pid")})])

    def spec(case, self_, p):
        p[0] = p[4]


@contract
class SetConstraint:
    """a named constraint is appended under its kind, with its name, after the ones already recorded"""
    fn = "dialects.sql.BaseSQL.set_constraint"
    props = ["C02"]
    cases = {"first-of-its-kind": dict(first=True), "further-one": dict(first=False)}

    def build(G, case):
        table = {"table_name": G.str("t", NAME), "columns": G.oseq("cols", elem=col)}
        if not case["first"]:
            table["constraints"] = {"uniques": G.oseq("prev", elem=lambda g, n: {"columns": names(g, n + ".c"), "constraint_name": g.str(n + ".n", NAME)}, min_len=1),
                                    "checks": G.oseq("prevc", elem=lambda g, n: {"statement": g.str(n + ".s"), "constraint_name": g.str(n + ".n", NAME)}, min_len=1)}
        return dict(args=[table, "uniques", {"columns": names(G, "ucols")}, G.str("cname", NAME)])

    def spec(case, target_dict, _type, constraint, constraint_name):
        constraint["constraint_name"] = constraint_name
        if case["first"]:
            target_dict["constraints"] = {_type: [constraint]}
        else:
            target_dict["constraints"][_type].append(constraint)
        return target_dict


# ------------------------------------------------------------------ folding of table-level clauses into the table (p_expression_table)
from contracts.lib import defcolumn_value  # noqa: E402


def table_state(G, constraints="none", name="tbl"):
    """the table collected so far: opaque column list; `constraints` absent / holding other kinds / holding the same kind"""
    fixed = {"schema": none_or_str(G, name + ".schema", NAME), "table_name": G.str(name + ".table_name", NAME),
             "columns": G.oseq(name + ".columns", elem=lambda g, n: defcolumn_value(g, n, light=True)), "checks": []}
    named = lambda g, n: {"columns": names(g, n + ".c"), "constraint_name": g.str(n + ".n", NAME)}
    if constraints == "other":
        fixed["constraints"] = {"checks": G.oseq(name + ".prev_checks", elem=lambda g, n: {"statement": g.str(n + ".s"), "constraint_name": g.str(n + ".n", NAME)}, min_len=1)}
    elif constraints == "same":
        fixed["constraints"] = {"uniques": G.oseq(name + ".prev_u", elem=named, min_len=1), "primary_keys": G.oseq(name + ".prev_pk", elem=named, min_len=1),
                                "references": G.oseq(name + ".prev_r", elem=lambda g, n: {"table": g.str(n + ".t", NAME), "constraint_name": g.str(n + ".n", NAME)}, min_len=1)}
    return G.record(fixed, {"if_not_exists": (name + ".ine", True)})


def constraint_value(G):
    return {"constraint": {"name": G.str("cname", NAME)}}


def add_constraint(table, kind, entry, had):
    if had == "none":
        table["constraints"] = {kind: [entry]}
    elif had == "other":
        table["constraints"][kind] = [entry]
    else:
        table["constraints"][kind].append(entry)


@contract
class TableLevelKeys:
    """expr COMMA [constraint] pkey | uniq: the clause is recorded on the table (named ones under constraints with their
    name and exact column list), every earlier column, clause and constraint is kept, in order"""
    fn = "dialects.sql.BaseSQL.p_expression_table"
    props = ["C02"]
    observable = "result"
    cases = {}
    for _had in ("none", "other", "same"):
        cases["expr COMMA pkey [constraints: %s]" % _had] = dict(alt="expr COMMA pkey", kind="pk", named=False, had=_had)
        cases["expr COMMA constraint pkey [constraints: %s]" % _had] = dict(alt="expr COMMA constraint pkey", kind="pk", named=True, had=_had)
        cases["expr COMMA constraint uniq [constraints: %s]" % _had] = dict(alt="expr COMMA constraint uniq", kind="uniq", named=True, had=_had)
        cases["expr COMMA uniq (2 columns) [constraints: %s]" % _had] = dict(alt="expr COMMA uniq", kind="uniq", named=False, had=_had, ncols=2)
    loops = {}

    def build(G, case):
        alt = case["alt"]
        n = len(alt.split())
        vals = {1: table_state(G, case["had"])}
        if case["named"]:
            vals[3] = constraint_value(G)
        if case["kind"] == "pk":
            vals[n] = {"primary_key": names(G, "pk")}
        elif case.get("ncols") == 2:
            vals[n] = {"unique_statement": {"columns": [G.str("u0", r"[a-z][a-z0-9]*", "a"), G.str("u1", r"[a-z][a-z0-9]*", "b")]}}
        else:
            vals[n] = {"unique_statement": {"columns": names(G, "ucols")}}
        return dict(args=[G.parser(), production(G, alt, vals)])

    def spec(case, self_, p):
        p[0] = p[1]
        t = p[0]
        clause = p[len(p) - 1]
        if case["kind"] == "pk":
            t["primary_key"] = clause["primary_key"]
            if case["named"]:
                add_constraint(t, "primary_keys", {"columns": clause["primary_key"], "constraint_name": p[3]["constraint"]["name"]}, case["had"])
        else:
            t["unique_statement"] = clause["unique_statement"]
            cols = clause["unique_statement"]["columns"]
            if case["named"]:
                add_constraint(t, "uniques", {"columns": cols, "constraint_name": p[3]["constraint"]["name"]}, case["had"])
            else:
                add_constraint(t, "uniques", {"columns": cols, "constraint_name": "UC_" + cols[0] + "_" + cols[1]}, case["had"])

    def ensures(case, old, new, result):
        return new[1][0] is new[1][1]


def flag_unique_if_named(name):
    def f(c):
        if c["name"] == name:
            r = dict(c)
            r["unique"] = True
            return r
        return c
    return f


@contract
class TableLevelSingleUnique:
    """expr COMMA UNIQUE (col): every column already collected whose name is `col` is flagged, nothing else changes"""
    fn = "dialects.sql.BaseSQL.p_expression_table"
    props = ["C02"]
    observable = "result"
    cases = {"expr COMMA uniq (1 column)": {}}
    loops = {"dialects.sql.BaseSQL.process_unique_and_primary_constraint#0": dict(inv="inv_cols", temps=["col"], reads=["col_name"])}

    def build(G, case):
        return dict(args=[G.parser(), production(G, "expr COMMA uniq", {1: table_state(G, "none"), 3: {"unique_statement": {"columns": [G.str("u0", NAME, "a")]}}})])

    def inv_cols(case, pre, rest, entry):
        return {"data['columns']": seq_map(flag_unique_if_named(entry["col_name"]), pre) + rest}

    def spec(case, self_, p):
        p[0] = p[1]
        p[0]["unique_statement"] = p[3]["unique_statement"]
        p[0]["columns"] = seq_map(flag_unique_if_named(p[3]["unique_statement"]["columns"][0]), p[0]["columns"])

    def ensures(case, old, new, result):
        return new[1][0] is new[1][1]


def ref_clause(G, n):
    return {"references": {"table": G.str("r.table", NAME), "columns": [G.str("r.col%d" % i, NAME) for i in range(n)], "schema": none_or_str(G, "r.schema", NAME),
                           "on_delete": none_or_str(G, "r.on_delete", NAME), "on_update": none_or_str(G, "r.on_update", NAME), "deferrable_initially": None}}


@contract
class TableLevelForeignKey:
    """expr COMMA [constraint] foreign ref: one reference record per key column, each with ITS referenced column, the
    referenced table / schema and the actions as written (SHAPE-BOUNDED: 1 or 2 key columns)"""
    fn = "dialects.sql.BaseSQL.p_expression_table"
    props = ["C02"]
    observable = "result"
    cases = {"expr COMMA foreign ref (1 column)": dict(n=1, named=False), "expr COMMA foreign ref (2 columns)": dict(n=2, named=False),
             "expr COMMA constraint foreign ref (2 columns)": dict(n=2, named=True), "expr COMMA constraint foreign ref (1 column)": dict(n=1, named=True)}

    def build(G, case):
        alt = "expr COMMA constraint foreign ref" if case["named"] else "expr COMMA foreign ref"
        n = len(alt.split())
        vals = {1: table_state(G, "none"), n - 1: [G.str("k%d" % i, NAME) for i in range(case["n"])], n: ref_clause(G, case["n"])}
        if case["named"]:
            vals[3] = constraint_value(G)
        return dict(args=[G.parser(), production(G, alt, vals)])

    def requires(case, self_, p):
        # CONSTRAINT is a clause-opening word, never a column name (C06)
        for k in p[len(p) - 2]:
            if k == "constraint":
                return False
        return True

    def spec(case, self_, p):
        p[0] = p[1]
        t = p[0]
        ref = p[len(p) - 1]["references"]
        keys = p[len(p) - 2]
        if case["named"]:
            rec = ref        # the constraint record is the reference itself, completed with the key column(s) and the name
            if case["n"] == 1:
                rec["name"] = keys[0]
            else:
                rec["name"] = keys
            rec["constraint_name"] = p[3]["constraint"]["name"]
            t["references"] = ref
            t["constraints"] = {"references": [rec]}
        else:
            t["references"] = ref
            out = []
            for i in range(case["n"]):
                out.append({"table": ref["table"], "schema": ref["schema"], "on_delete": ref["on_delete"], "on_update": ref["on_update"],
                            "deferrable_initially": None, "column": ref["columns"][i], "name": keys[i]})
            t["ref_columns"] = out

    def ensures(case, old, new, result):
        return new[1][0] is new[1][1]


# ------------------------------------------------------------------ table-level FOREIGN KEY records reach their columns
def fk_record(G, name):
    return {"name": G.str(name + ".name", NAME), "table": G.str(name + ".table", NAME), "schema": None, "column": G.str(name + ".column", NAME),
            "on_delete": None, "on_update": None, "deferrable_initially": None}


@contract
class RefColumnsReachTheirColumns:
    """every FOREIGN KEY (col) REFERENCES record collected at table level ends up under `references` of the column it
    names - without its `name` entry - and in no other column; a later record for the same column replaces the earlier
    one; nothing else about any column changes.  Precondition: column names are distinct.
    SHAPE-BOUNDED: 1..3 columns, 1..2 records."""
    fn = "output.base_data.BaseData.normalize_ref_columns_in_final_output"
    props = ["C02"]
    raises = ("KeyError",)
    cases = {"%d columns, %d records" % (n, r): dict(n=n, r=r) for n in (1, 2, 3) for r in (1, 2)}

    def build(G, case):
        cols = [col_done(G, "c%d" % i) for i in range(case["n"])]
        refs = [fk_record(G, "fk%d" % i) for i in range(case["r"])]
        return dict(args=[G.obj("BaseData", columns=cols, ref_columns=refs, constraints={}, primary_key=[], unique=[])])

    def requires(case, self_):
        ok = True
        for i in range(len(self_.columns)):
            for j in range(i + 1, len(self_.columns)):
                ok = ok and self_.columns[i]["name"] != self_.columns[j]["name"]
        # a record is consumed once: two records naming the same column are two different records
        return ok

    def spec(case, self_):
        # stated per column: it references the LAST record that names it; a record that found its column loses `name`
        for c in self_.columns:
            for rec in self_.ref_columns:
                if rec["name"] == c["name"]:
                    c["references"] = rec
        names = [c["name"] for c in self_.columns]
        for rec in self_.ref_columns:
            if rec["name"] in names:
                del rec["name"]


# ------------------------------------------------------------------ CHECK (...) : the condition's tokens, in order
from contracts.lib import STRLIT  # noqa: E402


@contract
class PCheckSt:
    """check_st collects the tokens of the condition in source order: names and string literals verbatim, `a.b` as one
    item, a parenthesised value list as "(v1,v2)"; the parentheses of the CHECK itself are not items; a continuation
    (check_st ...) appends to the items collected so far and keeps them"""
    fn = "dialects.sql.BaseSQL.p_check_st"
    props = ["C02", "C07"]
    cases = {"CHECK LP id RP": {}, "CHECK LP id DOT id RP": {}, "CHECK LP pid RP": {}, "check_st id": {}, "check_st STRING": {}, "check_st id STRING": {},
             "check_st LP id RP": {}, "check_st STRING RP": {}, "check_st id RP": {}}

    def build(G, case):
        alt = case["_name"]
        syms = alt.split()
        vals = {}
        for i, s in enumerate(syms, 1):
            if s == "check_st":
                vals[i] = {"check": G.oseq("items so far", elem=lambda g, n: g.str(n))}
            elif s == "STRING":
                vals[i] = G.str("s%d" % i, STRLIT, "'x'")
            elif s == "pid":
                vals[i] = [G.str("v1", STRLIT, "'a'"), G.str("v2", STRLIT, "'b'")]
        return dict(args=[G.parser(), production(G, alt, vals)])

    def spec(case, self_, p):
        syms = case["_name"].split()
        if syms[0] == "check_st":
            res = p[1]
        else:
            res = {"check": []}
        if "DOT" in syms:
            res["check"].append(p[3] + "." + p[5])
        else:
            for i in range(2, len(p)):
                if syms[i - 1] in ("id", "STRING"):
                    res["check"].append(p[i])
                elif syms[i - 1] == "pid":
                    res["check"].append("(" + p[i][0] + "," + p[i][1] + ")")
        p[0] = res


def check_item(G, name):
    k = G.choice(name + ".kind", 3)
    if k == 0:
        return G.str(name, NAME)
    if k == 1:
        return [G.str(name + ".v1", STRLIT, "'a'"), G.str(name + ".v2", STRLIT, "'b'")]
    # key=value item (from id_equals): the key is a concrete representative, the value is symbolic
    return {["status", "Qty"][G.choice(name + ".key", 2)]: G.str(name + ".value", NAME)}


def item_text(it):
    if isinstance(it, list):
        return "(" + it[0] + ", " + it[1] + ")"
    if isinstance(it, dict):
        k = list(it.keys())[0]
        return k + " = " + it[k]
    return it


@contract
class CheckTextFromItems:
    """the text of a CHECK condition is its items joined by single blanks, in order: a name / literal verbatim, a value
    list as "(v1, v2)", a key=value item as "key = value".  SHAPE-BOUNDED: 1..3 items."""
    fn = "dialects.sql.Column.set_check_in_columm"
    props = ["C02", "C07"]
    cases = {"%d items" % n: dict(n=n) for n in (1, 2, 3)}

    def build(G, case):
        first = G.str("it0", NAME)        # a condition starts with a name (or a function call text)
        return dict(args=[[first] + [check_item(G, "it%d" % i) for i in range(1, case["n"])]])

    def spec(case, check):
        text = check[0]
        for it in check[1:]:
            text = text + " " + item_text(it)
        return text


@contract
class PCheckExNamed:
    """CONSTRAINT name CHECK (...): the record carries the constraint's name and the condition text"""
    fn = "dialects.sql.Column.p_check_ex"
    props = ["C02"]
    cases = {"constraint check_st": {}, "check_st": {}}

    def build(G, case):
        alt = case["_name"]
        items = [G.str("it0", NAME), G.str("it1", NAME), G.str("it2", NAME)]
        if alt == "check_st":
            return dict(args=[G.parser(), production(G, alt, {1: {"check": items}})])
        return dict(args=[G.parser(), production(G, alt, {1: {"constraint": {"name": G.str("cname", NAME)}}, 2: {"check": items}})])

    def requires(case, self_, p):
        if case["_name"] == "check_st":
            return True
        return "in_statement" not in p[2]["check"][0]

    def spec(case, self_, p):
        if case["_name"] == "check_st":
            p[0] = p[1]
        else:
            it = p[2]["check"]
            p[0] = {"check": {"constraint_name": p[1]["constraint"]["name"], "statement": it[0] + " " + it[1] + " " + it[2]}}


@contract
class TableLevelCheck:
    """expr COMMA check_ex: a table-level CHECK is appended to the table's checks (an unnamed one as its condition text
    with constraint_name None, a named one with its name - and also recorded under constraints.checks); every earlier
    column, check, clause and constraint is kept, in order"""
    fn = "dialects.sql.BaseSQL.p_expression_table"
    props = ["C02"]
    observable = "result"
    cases = {"%s CHECK [constraints: %s]" % (("named" if nm else "unnamed"), had): dict(named=nm, had=had) for nm in (False, True) for had in ("none", "other", "same")}
    loops = {}

    def build(G, case):
        # table_state's "other" holds checks (= the same kind here), its "same" holds keys / uniques / references (= other kinds)
        t = table_state(G, {"none": "none", "other": "same", "same": "other"}[case["had"]])
        t["checks"] = G.oseq("checks so far", elem=lambda g, n: {"statement": g.str(n + ".s"), "constraint_name": None})
        if case["named"]:
            chk = {"check": {"constraint_name": G.str("cname", NAME), "statement": G.str("condition text")}}
        else:
            chk = {"check": [G.str("it0", NAME), G.str("it1", NAME), G.str("it2", NAME)]}
        return dict(args=[G.parser(), production(G, "expr COMMA check_ex", {1: t, 3: chk})])

    def spec(case, self_, p):
        p[0] = p[1]
        t = p[0]
        c = p[3]["check"]
        if case["named"]:
            add_constraint(t, "checks", c, case["had"])
            t["checks"].append(c)
        else:
            t["checks"].append({"constraint_name": None, "statement": c[0] + " " + c[1] + " " + c[2]})

    def ensures(case, old, new, result):
        return new[1][0] is new[1][1]


@contract
class TablePostInitSteps:
    """every table object, of every output mode's class, is completed by the same four steps in this order: unique flags,
    keys (+ NOT NULL), table-level FOREIGN KEY records onto their columns, then the mode's own post_process hook - the
    common steps do not depend on what a mode's hook does or forgets to chain to"""
    fn = "output.base_data.BaseData.__post_init__"
    props = ["C02", "C10", "C01", "C12"]
    abstract_callees = True
    stub_calls = {"output.base_data.BaseData.set_unique_columns": ("unique-flags", []), "output.base_data.BaseData.populate_keys": ("keys", []),
                  "output.base_data.BaseData.normalize_ref_columns_in_final_output": ("fk-records-to-columns", []),
                  "output.base_data.BaseData.post_process": ("mode-hook", [])}
    cases = {"any table": {}}

    def build(G, case):
        return dict(args=[G.obj("BaseData", columns=G.oseq("cols", elem=col), constraints={}, primary_key=[], unique=[], ref_columns=[])])

    def spec(case, self_):
        ghost_call("unique-flags")
        ghost_call("keys")
        ghost_call("fk-records-to-columns")
        ghost_call("mode-hook")
