"""C03 - statements parsed independently: the line-level decisions of the statement assembler that
do not depend on look-around regexes."""
import re

from contracts.base import contract
from contracts.lib import lexer_flags, parser_constant

SKIP_WORDS = ["GO", "USE", "INSERT", "GRANT", "DELETE"]
# which texts reach the statement parser decides every property that speaks about "every statement of a script":
# independence (C03), layout / case (C05), comments (C08), shape of what is reported (C12), errors (C16), entity kinds (C18), columns (C01)
from contracts.lib import PARSE_PROPS  # noqa: E402
LINE_PROPS = PARSE_PROPS
WORD_CHARS = "ABCDEFGHIJKLMNOPQRSTUVWXYZabcdefghijklmnopqrstuvwxyz0123456789_"


def first_word_is_skip_word(line):
    """the line consists of one of the skip words, followed by nothing or by a non-word character and anything"""
    return re.fullmatch(r"(GO|USE|INSERT|GRANT|DELETE)([^a-zA-Z0-9_][ -~]*)?", line.upper()) is not None


@contract
class SkipWords:
    """a line is skipped exactly when its first word is one of the non-DDL statement words (GO, USE, INSERT,
    GRANT, DELETE) in any letter case - a column called goal / user_id / deleted_at at the start of a line is code"""
    fn = "parser.Parser.check_line_on_skip_words"
    props = LINE_PROPS
    # the upper-case case keeps the obligation a pure regular-language question (decided both ways in milliseconds);
    # the any-case case adds case-insensitivity
    cases = {"any-line": dict(pat=r"[ -~]*", ex="goal int,"), "upper-case-line": dict(pat=r"[ -`{-~]*", ex="UPDATE T SET A = 1;")}

    def build(G, case):
        p = G.parser(lexer=lexer_flags(G), line=G.str("line", case["pat"], case["ex"]), skip=G.bool("skip0"),
                     skip_regex=parser_constant("skip_regex"))
        return dict(args=[p])

    def spec(case, self_):
        self_.skip = first_word_is_skip_word(self_.line)
        return self_.skip


@contract
class NewStatementStart:
    """a line starts a new statement exactly when the statement collected so far is non-empty with balanced
    parentheses and the line begins with ALTER / CREATE / DROP / SET followed by a blank (any letter case)"""
    fn = "parser.Parser.check_new_statement_start"
    props = LINE_PROPS
    cases = {"any-line": dict(pat=r"[ -~]*"), "upper-case-line": dict(pat=r"[ -`{-~]*")}

    def build(G, case):
        st = [None, G.str("statement", r"[ -~]*", "CREATE TABLE t (a int")][G.choice("statement?", 2)]
        p = G.parser(lexer=lexer_flags(G), statement=st, new_statement=G.bool("ns0"))
        return dict(args=[p, G.str("line", case["pat"], "CREATE TABLE u (")])

    def spec(case, self_, line):
        self_.new_statement = False
        if self_.statement and self_.statement.count("(") == self_.statement.count(")"):
            if re.fullmatch(r"(ALTER|CREATE|DROP|SET) [ -~]*", line.upper()) is not None:
                self_.new_statement = True
        return self_.new_statement


# ---------------------------------------------------------------------------------------------------------------------
# Output.format: the parser's records are consumed ONCE, IN ORDER; each record is dispatched by its own keys only - an
# ALTER TABLE / CREATE INDEX record updates the table registry at its position in the script, every other record is
# registered and appended to the result.  The two handlers are abstract here (store transformers: `opaque` results
# that are functions of the store before the call, the record and the output mode; the store stands for everything
# reachable from Output.tables_dict, including the table dicts already appended to the result, which the handlers
# update in place).  What is proved for scripts of ANY length: order, single dispatch, nothing skipped or applied twice,
# grouping applied exactly when asked for.  What the handlers do to one table is the subject of C04 / C13 contracts.
from contracts.lib import ghost_call, opaque, seq_filter, seq_fold, seq_map


def is_alter_or_index(st):
    return "index_name" in st or "alter_table_name" in st


def is_definition(st):
    return not is_alter_or_index(st)


def store_step(mode):
    def step(store, st):
        if is_alter_or_index(st):
            return opaque("store-after-alter-or-index", store, st, mode)
        return opaque("store-after-definition", store, st, mode)
    return step


def entity(mode):
    return lambda st: opaque("entity", st, mode)


def statement_record(G, name):
    return G.record({"payload": G.str(name + ".payload")},
                    {"index_name": (name + ".is_index", G.str(name + ".index_name")), "alter_table_name": (name + ".is_alter", G.str(name + ".alter_table_name"))})


@contract
class DefinitionHandlerStub:
    """ASSUMED: process_statement_data is a function of (store, record, mode); it changes only the store"""
    fn = "output.core.Output.process_statement_data"
    props = []
    modular = True
    cases = {"-": {}}

    def build(G, case):
        return dict(args=[G.obj("Output", parser_output=[], output_mode="sql", group_by_type=False, final_result=[], tables_dict={}), {}])

    def spec(case, self_, statement_data):
        self_.tables_dict = opaque("store-after-definition", self_.tables_dict, statement_data, self_.output_mode)
        return opaque("entity", statement_data, self_.output_mode)


@contract
class AlterIndexHandlerStub:
    """ASSUMED: process_alter_and_index_result is a function of (store, record, mode); it changes only the store"""
    fn = "output.core.Output.process_alter_and_index_result"
    props = []
    modular = True
    cases = {"-": {}}

    def build(G, case):
        return dict(args=[G.obj("Output", parser_output=[], output_mode="sql", group_by_type=False, final_result=[], tables_dict={}), {}])

    def spec(case, self_, table):
        self_.tables_dict = opaque("store-after-alter-or-index", self_.tables_dict, table, self_.output_mode)


@contract
class GroupingStub:
    """group_by_type_result has its own contract (C13 GroupByType); here: a function of the flat list"""
    fn = "output.core.Output.group_by_type_result"
    props = []
    modular = True
    cases = {"-": {}}

    def build(G, case):
        return dict(args=[G.obj("Output", parser_output=[], output_mode="sql", group_by_type=True, final_result=[], tables_dict={})])

    def spec(case, self_):
        self_.final_result = opaque("grouped", self_.final_result)


@contract
class FormatInOrder:
    fn = "output.core.Output.format"
    props = PARSE_PROPS      # the formatting step every parsed result goes through
    cases = {"flat": dict(group=False), "grouped": dict(group=True)}
    loops = {"output.core.Output.format#0": dict(inv="inv_records", temps=["statement_data"], reads=["self.output_mode", "self.tables_dict"])}
    abstract_callees = True

    def build(G, case):
        out = G.obj("Output", parser_output=G.oseq("records", elem=statement_record), output_mode=G.str("mode", None, "hql"), group_by_type=case["group"],
                    final_result=[], tables_dict=opaque("empty-store"), schema_key="schema")
        return dict(args=[out])

    def inv_records(case, pre, rest, entry):
        mode = entry["self.output_mode"]
        return {"self.tables_dict": seq_fold(store_step(mode), entry["self.tables_dict"], pre),
                "self.final_result": seq_map(entity(mode), seq_filter(is_definition, pre))}

    def spec(case, self_):
        mode = self_.output_mode
        self_.tables_dict = seq_fold(store_step(mode), self_.tables_dict, self_.parser_output)
        self_.final_result = seq_map(entity(mode), seq_filter(is_definition, self_.parser_output))
        if self_.group_by_type:
            self_.final_result = opaque("grouped", self_.final_result)
        return self_.final_result


# ---------------------------------------------------------------------------------------------------------------------
# The line machine (Parser.process_line / process_statement / add_line_to_statement, inlined together with the two
# line predicates above): which texts are handed to the statement parser, and when.  Abstract here: the comment scanner
# (pre_process_line: the contract starts from the cleaned line), the SET handler's record (process_set), the lexer reset
# and the statement parse itself - each call is a ghost event; `parse` records the statement text at the call.
# Domain: no SET statement pending (set_line None) - the SET path has its own contract (C13 ProcessSet).
TEXT_LINE = r"[!-~]([ -~]*[!-~])?"          # a cleaned non-empty line: printable, no blank at either end
OPEN_STATEMENT = r"[!-:<-~]([ -~]*[!-:<-~])?"   # text collected so far: non-empty, does not end with ';'


def starts_statement(line):
    return re.fullmatch(r"(ALTER|CREATE|DROP|SET) [ -~]*", line.upper()) is not None


@contract
class LineMachine:
    """Summaries used for the two line predicates (each has its own contract above: SkipWords, NewStatementStart):
    uninterpreted functions of the line / of (statement so far, line)."""
    fn = "parser.Parser.process_line"
    props = LINE_PROPS
    abstract_callees = True
    stub_calls = {"parser.Parser.pre_process_line": "clean-line", "parser.Parser.process_set": "set-record",
                  "parser.Parser.set_default_flags_in_lexer": "reset-lexer", "parser.Parser.parse_statement": ("parse", ["statement"]),
                  "parser.Parser.check_line_on_skip_words": "stub_skip", "parser.Parser.check_new_statement_start": "stub_new",
                  "parser.Parser.parse_set_statement": "stub_set_idle"}
    cases = {"%s, %s" % (a, b): dict(open=(a == "statement open"), empty=(b == "empty line"))
             for a in ("no statement open", "statement open") for b in ("empty line", "line with text")}

    def stub_skip(case, self_):
        self_.skip = opaque("is-skip-line", self_.line)
        return self_.skip

    def stub_new(case, self_, line):
        self_.new_statement = opaque("starts-new-statement", self_.statement, line)
        return self_.new_statement

    def stub_set_idle(case, self_):
        # domain of this contract: no SET statement pending and the line is not a SET line - then the SET handler
        # changes nothing (contract SetHandlerIdle below)
        return None

    def build(G, case):
        st = G.str("statement", OPEN_STATEMENT, "CREATE TABLE t (a int") if case["open"] else None
        line = "" if case["empty"] else G.str("line", TEXT_LINE, "b int);")
        p = G.parser(lexer=lexer_flags(G), line=line, statement=st, set_line=None, set_was_in_line=False,
                     skip=G.bool("skip0"), new_statement=G.bool("ns0"), set_statement=parser_constant("set_statement"))
        return dict(args=[p, G.bool("last_line")])

    def spec(case, self_, last_line):
        ghost_call("clean-line", self_)
        line = self_.line
        self_.skip = opaque("is-skip-line", line)
        self_.new_statement = opaque("starts-new-statement", self_.statement, line)
        ends = line.endswith(";")
        if line != "" and not self_.skip and not self_.new_statement:
            self_.statement = line if self_.statement is None else self_.statement + " " + line
        if (ends or self_.new_statement) and self_.statement:
            if self_.statement.endswith(";"):
                self_.statement = self_.statement[:-1]
        elif last_line and not self_.skip:
            return None                      # the statement goes on: nothing is parsed yet
        ghost_call("reset-lexer", self_)
        if self_.statement:
            ghost_call("parse", self_.statement)
        self_.statement = line if self_.new_statement else None


@contract
class SetHandlerIdle:
    """with no SET statement pending, a line that does not begin with `SET ` (any letter case) leaves the SET handler's
    state untouched and produces no record"""
    fn = "parser.Parser.parse_set_statement"
    props = LINE_PROPS
    stub_calls = {"parser.Parser.process_set": "set-record"}
    cases = {"any line": dict(pat=r"[ -~]*"), "upper-case line": dict(pat=r"[ -`{-~]*")}

    def build(G, case):
        p = G.parser(lexer=lexer_flags(G), line=G.str("line", case["pat"], "b int);"), set_line=None, set_was_in_line=False, set_statement=parser_constant("set_statement"))
        return dict(args=[p])

    def requires(case, self_):
        return re.fullmatch(r"SET [ -~]*", self_.line.upper()) is None

    def spec(case, self_):
        return None


SET_LINE = r"SET [!-`{-~]([ -`{-~]*[!-`{-~])?"      # a cleaned line that begins with SET and a blank (upper-case text: the case
#                                                      mapping of the match is then the identity; other spellings: SkipWords-style case contracts)
OTHER_LINE = r"[!-RT-rt-~]([ -~]*[!-~])?"               # a cleaned non-empty line that does not begin with S / s


@contract
class SetHandlerStates:
    """the SET handler, line by line: a SET line becomes the pending SET (a SET already pending is recorded first); the first
    line after a pending SET that is not itself a SET line makes the pending SET a record AS IT STANDS - that line is not
    added to it - and the handler is idle again"""
    fn = "parser.Parser.parse_set_statement"
    props = LINE_PROPS
    abstract_callees = True
    stub_calls = {"parser.Parser.process_set": ("set-record", ["set_line"])}
    cases = {"SET line, nothing pending": dict(line="set", pending=False), "SET line, SET pending": dict(line="set", pending=True),
             "other line, three-word SET pending": dict(line="other", pending=True, words3=True), "other line, SET met on the previous line": dict(line="other", pending=True, words3=False)}

    def build(G, case):
        line = G.str("line", SET_LINE if case["line"] == "set" else OTHER_LINE, "SET a = 1;" if case["line"] == "set" else "SELECT 1;")
        pending, was = None, G.bool("set_was_in_line")
        if case["pending"]:
            if case.get("words3"):
                pending = "SET " + G.str("opt", r"[!-~]+", "ANSI_NULLS") + " " + G.str("val", r"[!-~]+", "ON")
            else:
                pending, was = "SET " + G.str("opt", r"[!-~]+", "x") + " = " + G.str("val", r"[!-~]+", "1"), True
        p = G.parser(lexer=lexer_flags(G), line=line, set_line=pending, set_was_in_line=was, set_statement=parser_constant("set_statement"))
        return dict(args=[p])

    def spec(case, self_):
        if case["line"] == "set":
            if case["pending"]:
                ghost_call("set-record", self_.set_line)
            self_.set_line = self_.line
            self_.set_was_in_line = True
        else:
            ghost_call("set-record", self_.set_line)
            self_.set_line = None
            self_.set_was_in_line = False
