"""C03 - statements parsed independently: the line-level decisions of the statement assembler that
do not depend on look-around regexes."""
import re

from contracts.base import contract
from contracts.lib import lexer_flags, parser_constant

SKIP_WORDS = ["GO", "USE", "INSERT", "GRANT", "DELETE"]
WORD_CHARS = "ABCDEFGHIJKLMNOPQRSTUVWXYZabcdefghijklmnopqrstuvwxyz0123456789_"


def first_word_is_skip_word(line):
    """the line consists of one of the skip words, followed by nothing or by a non-word character and anything"""
    return re.fullmatch(r"(GO|USE|INSERT|GRANT|DELETE)([^a-zA-Z0-9_][ -~]*)?", line.upper()) is not None


@contract
class SkipWords:
    """a line is skipped exactly when its first word is one of the non-DDL statement words (GO, USE, INSERT,
    GRANT, DELETE) in any letter case - a column called goal / user_id / deleted_at at the start of a line is code"""
    fn = "parser.Parser.check_line_on_skip_words"
    props = ["C03", "C01", "C05", "C08", "C18"]
    # the upper-case case keeps the obligation a pure regular-language question (decided both ways in milliseconds);
    # the any-case case adds case-insensitivity
    cases = {"any-line": dict(pat=r"[ -~]*", ex="goal int,"), "upper-case-line": dict(pat=r"[ -`{-~]*", ex="UPDATE T SET A = 1;")}

    def build(G, case):
        p = G.parser(lexer=lexer_flags(G), line=G.str("line", case["pat"], case["ex"]), skip=G.bool("skip0"),
                     skip_regex=parser_constant("skip_regex"))
        return dict(args=[p])

    def spec(case, self_):
        self_.skip = first_word_is_skip_word(self_.line)
        return self_.skip


@contract
class NewStatementStart:
    """a line starts a new statement exactly when the statement collected so far is non-empty with balanced
    parentheses and the line begins with ALTER / CREATE / DROP / SET followed by a blank (any letter case)"""
    fn = "parser.Parser.check_new_statement_start"
    props = ["C03", "C01", "C05", "C18"]
    cases = {"any-line": dict(pat=r"[ -~]*"), "upper-case-line": dict(pat=r"[ -`{-~]*")}

    def build(G, case):
        st = [None, G.str("statement", r"[ -~]*", "CREATE TABLE t (a int")][G.choice("statement?", 2)]
        p = G.parser(lexer=lexer_flags(G), statement=st, new_statement=G.bool("ns0"))
        return dict(args=[p, G.str("line", case["pat"], "CREATE TABLE u (")])

    def spec(case, self_, line):
        self_.new_statement = False
        if self_.statement and self_.statement.count("(") == self_.statement.count(")"):
            if re.fullmatch(r"(ALTER|CREATE|DROP|SET) [ -~]*", line.upper()) is not None:
                self_.new_statement = True
        return self_.new_statement
