"""C13 - group_by_type is a lossless, order-preserving regrouping of the flat result.

Spec taken from the property statement: bucket b holds exactly the entities of kind b in their
original relative order (a filter of the flat list); comment texts are gathered under `comments`;
six buckets always present, tablespaces / databases only when non-empty.
Precondition (what "its kind" means): every item of the flat list carries exactly one marker key.
"""
from contracts.base import contract
from contracts.lib import seq_filter, seq_flatmap

BUCKET = {
    "table_name": "tables", "sequence_name": "sequences", "type_name": "types", "domain_name": "domains",
    "schema_name": "schemas", "tablespace_name": "tablespaces", "database_name": "databases", "value": "ddl_properties",
}
ALWAYS = ["tables", "types", "sequences", "domains", "schemas", "ddl_properties"]
OPTIONAL = ["tablespaces", "databases"]
MARKERS = list(BUCKET) + ["comments"]


def kind_of(item):
    for k in BUCKET:
        if k in item:
            return BUCKET[k]
    return None


def is_kind(b):
    return lambda it: kind_of(it) == b


def comments_of(it):
    if "comments" in it:
        return it["comments"]
    return []


def regroup(items):
    res = {}
    for b in ALWAYS:
        res[b] = seq_filter(is_kind(b), items)
    for b in OPTIONAL:
        s = seq_filter(is_kind(b), items)
        if s:
            res[b] = s
    return res


def entity(G, name):
    flags = [name + ".has_" + k for k in MARKERS]
    G.exactly_one(flags)
    maybe = {k: (name + ".has_" + k, G.str(name + "." + k)) for k in BUCKET}
    maybe["comments"] = (name + ".has_comments", G.oseq(name + ".comments", elem=lambda g, n: g.str(n)))
    return G.record({"other": G.str(name + ".payload")}, maybe)


@contract
class GroupByType:
    fn = "output.core.Output.group_by_type_result"
    props = ["C13", "C03", "C04"]
    cases = {"all": {}}
    loops = {"output.core.Output.group_by_type_result#0": dict(inv="inv_items", temps=["key", "_type"])}

    def build(G, case):
        out = G.obj("Output", final_result=G.oseq("items", elem=entity), output_mode=G.str("mode"), group_by_type=True)
        return dict(args=[out])

    def inv_items(case, pre, rest, entry):
        res = regroup(pre)
        res["comments"] = seq_flatmap(comments_of, pre)
        return {"result_as_dict": res}

    def spec(case, self_):
        res = regroup(self_.final_result)
        com = seq_flatmap(comments_of, self_.final_result)
        if com:
            res["comments"] = com
        self_.final_result = res


# ---------------------------------------------------------------------------------------------------------------------
# the producers of flat items establish GroupByType's precondition (exactly one marker key per item); the session
# settings record is produced outside the grammar, by the statement assembler

WORD = r"[!-:<>-~][!-:<>-~]*"        # a word: printable, no white space, no ';', no '='


@contract
class ProcessSet:
    """SET name = value;  /  SET name value;  is reported as ONE record {"name": name, "value": value}: the `value`
    key is the marker that files it under ddl_properties, and it carries nothing else"""
    fn = "parser.Parser.process_set"
    props = ["C13", "C03"]
    cases = {"name = value;": dict(eq=True, semi=True), "name = value": dict(eq=True, semi=False),
             "name value;": dict(eq=False, semi=True), "name value": dict(eq=False, semi=False)}

    def build(G, case):
        n, v = G.str("name", WORD, "hive.x"), G.str("value", WORD, "1")
        line = ("SET " + n + " = " + v) if case["eq"] else ("set " + n + "  " + v)
        if case["semi"]:
            line = line + ";"
        p = G.parser(set_line=line, tables=G.oseq("tables", elem=lambda g, nm: g.str(nm)))
        return dict(args=[p])

    def spec(case, self_):
        # the second word is the name, the last word (without the terminator) is the value
        words = self_.set_line.split()
        self_.tables.append({"name": words[1], "value": words[-1].replace(";", "")})
        self_.set_line = words

    def ensures(case, old, args, result):
        return sorted(args[0].tables[-1].keys()) == ["name", "value"]
