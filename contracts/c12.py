"""C12 - documented shape and JSON encoding: the skeleton of Parser.run.

parse_data and Output.format are replaced by their (opaque) results - they are verified or bounded
elsewhere - so that the obligation is about run() itself: with json_dump=True it returns exactly
json.dumps of what it returns otherwise, computed from the same parse and the same formatting,
for every mode / grouping flag; it raises for exactly the unknown modes."""
import json

from simple_ddl_parser.exception import SimpleDDLParserException

from contracts.base import contract
import os

from contracts.lib import ghost_call, lexer_flags, opaque

MODES = ["sql", "redshift", "spark_sql", "mysql", "bigquery", "mssql", "databricks", "sqlite", "vertics", "ibm_db2",
         "postgres", "oracle", "hql", "snowflake", "athena"]


@contract
class ParseDataOpaque:
    fn = "parser.Parser.parse_data"
    props = []
    modular = True
    cases = {"-": {}}

    def build(G, case):
        return dict(args=[G.parser(lexer=lexer_flags(G))])

    def spec(case, self_):
        return opaque("parse_data", self_.data)


@contract
class FormatOpaque:
    fn = "output.core.Output.format"
    props = []
    modular = True
    cases = {"-": {}}

    def build(G, case):
        return dict(args=[G.obj("Output", parser_output=[], output_mode="sql", group_by_type=False, final_result=[], tables_dict={})])

    def spec(case, self_):
        return opaque("format", self_.parser_output, self_.output_mode, self_.group_by_type)


@contract
class DumpOpaque:
    """writing the dump file is an external effect: recorded, not performed"""
    fn = "output.core.dump_data_to_file"
    props = []
    modular = True
    cases = {"-": {}}

    def build(G, case):
        return dict(args=[G.str("name"), G.str("path"), []])

    def spec(case, table_name, dump_path, data):
        ghost_call("dump", table_name, dump_path, data)


@contract
class RunSkeleton:
    fn = "parser.Parser.run"
    # run() is the entry point of every property: parse once per call, format with the flags of THIS call, return that
    props = ["C%02d" % i for i in range(1, 21)]
    raises = ("SimpleDDLParserException",)
    abstract_callees = True
    cases = {"no-dump": dict(dump=False), "dump-with-file-path": dict(dump=True)}

    def build(G, case):
        parser = G.parser(lexer=lexer_flags(G), data=G.str("ddl"), silent=G.bool("silent"))
        if case["dump"]:
            return dict(args=[parser], kwargs=dict(output_mode=G.str("mode", None, "hql"), group_by_type=G.bool("group"), json_dump=G.bool("json_dump"),
                                                     dump=True, file_path=G.str("file_path", r"[ -~]*[!-.0-~]", "dir.d/my.table.sql"), dump_path=G.str("dump_path", None, "schemas")))
        return dict(args=[parser], kwargs=dict(output_mode=G.str("mode", None, "hql"), group_by_type=G.bool("group"), json_dump=G.bool("json_dump"),
                                                 file_path=[None, G.str("file_path")][G.choice("fp?", 2)], dump_path=G.str("dump_path", None, "schemas")))

    def spec(case, self_, dump=False, dump_path="schemas", file_path=None, output_mode="sql", group_by_type=False, json_dump=False):
        if output_mode not in MODES:
            raise SimpleDDLParserException("unknown output mode")
        result = opaque("format", opaque("parse_data", self_.data), output_mode, group_by_type)
        if dump:
            # '<input base name>_schema.json' under the target directory, holding the returned result
            base_name = os.path.basename(file_path).split(".")[0]
            ghost_call("dump", base_name, dump_path, result)
        if json_dump:
            result = json.dumps(result)
        self_.tables = result
        return result
