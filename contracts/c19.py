"""C19 - file / CLI entry points: the pure parts (extension filter of the CLI directory mode)."""
from contracts.base import contract

# "every .sql / .ddl / .hql / .bql file" (property statement)
EXTENSIONS = ["sql", "ddl", "hql", "bql"]


@contract
class CorrectExtension:
    fn = "cli.correct_extension"
    props = ["C19"]
    cases = {"any-file-name": {}}

    def build(G, case):
        return dict(args=[G.str("file_name", r"[ -~]*", "my.table.sql")])

    def requires(case, file_name):
        # a name ending in a bare dot has an empty extension; the statement does not speak about it
        return not file_name.endswith(".")

    def spec(case, file_name):
        for e in EXTENSIONS:
            if file_name.endswith("." + e):
                return True
        return False


# ------------------------------------------------------------------ parse_from_file: the decoded text and every setting pass through unchanged
from contracts.lib import ghost_call, opaque  # noqa: E402


@contract
class ParserInitOpaque:
    """constructing a parser is A-PLY territory: the object remembers what it was built from"""
    fn = "parser.Parser.__init__"
    props = []
    modular = True
    cases = {"-": {}}

    def build(G, case):
        return dict(args=[G.parser(), G.str("content")])

    def spec(case, self_, content, silent=True, debug=False, normalize_names=False, log_file=None, log_level=20):
        self_.built_from = opaque("DDLParser", content, silent, debug, normalize_names, log_file, log_level)


@contract
class RunOpaque:
    fn = "parser.Parser.run"
    props = []
    modular = True
    cases = {"-": {}}

    def build(G, case):
        return dict(args=[G.parser()])

    def spec(case, self_, dump=False, dump_path="schemas", file_path=None, output_mode="sql", group_by_type=False, json_dump=False):
        return opaque("run", self_.built_from, dump, dump_path, file_path, output_mode, group_by_type, json_dump)


@contract
class ParseFromFile:
    """parse_from_file(path, encoding, parser_settings, **kwargs) == DDLParser(<decoded file content>, **parser_settings).run(file_path=path, **kwargs)"""
    fn = "ddl_parser.parse_from_file"
    # an entry point of every property (the file API and the CLI go through it); C14 / C15: the caller's settings dict is read, never written
    props = ["C%02d" % i for i in range(1, 21)]
    abstract_callees = True
    cases = {"with settings": dict(settings=True), "without settings": dict(settings=False), "with debug settings": dict(settings="debug")}

    def build(G, case):
        settings = None
        if case["settings"] == "debug":
            settings = {"debug": G.bool("debug"), "silent": G.bool("silent")}
        elif case["settings"]:
            settings = {"silent": G.bool("silent"), "normalize_names": G.bool("normalize_names")}
        return dict(args=[G.str("path", None, "a.b/my.table.sql")],
                    kwargs=dict(encoding=G.str("encoding", None, "utf-16"), parser_settings=settings, output_mode=G.str("mode", None, "hql"), group_by_type=G.bool("group"),
                                dump=G.bool("dump"), dump_path=G.str("dump_path", None, "out")))

    def spec(case, file_path, encoding="utf-8", parser_settings=None, output_mode="sql", group_by_type=False, dump=False, dump_path="schemas"):
        content = opaque("file-content", file_path, "r", encoding)
        if case["settings"] == "debug":
            built = opaque("DDLParser", content, parser_settings["silent"], parser_settings["debug"], False, None, 20)
        elif case["settings"]:
            built = opaque("DDLParser", content, parser_settings["silent"], False, parser_settings["normalize_names"], None, 20)
        else:
            built = opaque("DDLParser", content, True, False, False, None, 20)
        return opaque("run", built, dump, dump_path, file_path, output_mode, group_by_type, False)


@contract
class CliRunForFile:
    """the sdp command, for one file: exactly parse_from_file(<path>, dump = not --no-dump, dump_path = --target,
    output_mode = --output-mode) - no other setting - and the result is printed exactly when -v or --no-dump is given"""
    fn = "cli.run_for_file"
    props = ["C19", "C16", "C10"]
    abstract_callees = True
    stub_calls = {"ddl_parser.parse_from_file": "parse-file"}
    cases = {"any flags": {}}

    def build(G, case):
        args = G.obj("Namespace", ddl_file_path=G.str("path", None, "db/my.table.sql"), target=G.str("target", None, "schemas"), v=G.bool("v"),
                     no_dump=G.bool("no_dump"), output_mode=G.str("mode", None, "hql"))
        return dict(args=[args])

    def spec(case, args):
        ghost_call("parse-file", args.ddl_file_path, not args.no_dump, args.target, args.output_mode)
        if args.v or args.no_dump:
            ghost_call("print", opaque("parse-file", args.ddl_file_path))


@contract
class DumpDataToFile:
    """the dump step: the target directory is created when it is missing, and exactly the data handed in is written as
    JSON to <dump_path>/<table_name>_schema.json; the data is not touched"""
    fn = "output.core.dump_data_to_file"
    props = ["C19", "C12", "C13", "C14"]
    abstract_callees = True
    cases = {"flat result": dict(grouped=False), "grouped result": dict(grouped=True)}

    def build(G, case):
        data = G.oseq("result", elem=lambda g, n: g.str(n))
        if case["grouped"]:
            data = {"tables": data, "types": [], "sequences": G.oseq("sequences", elem=lambda g, n: g.str(n)), "domains": [], "schemas": [], "ddl_properties": []}
        return dict(args=[G.str("table_name", None, "my"), G.str("dump_path", None, "schemas"), data])

    def spec(case, table_name, dump_path, data):
        if not opaque("os.path.isdir", dump_path):
            ghost_call("os.makedirs", dump_path, ["exist_ok", True])
        ghost_call("open-for-writing", dump_path + "/" + table_name + "_schema.json", "w+")
        ghost_call("json.dump", data, opaque("open", dump_path + "/" + table_name + "_schema.json", "w+"), ["indent", 1])
