"""C19 - file / CLI entry points: the pure parts (extension filter of the CLI directory mode)."""
from contracts.base import contract

# "every .sql / .ddl / .hql / .bql file" (property statement)
EXTENSIONS = ["sql", "ddl", "hql", "bql"]


@contract
class CorrectExtension:
    fn = "cli.correct_extension"
    props = ["C19"]
    cases = {"any-file-name": {}}

    def build(G, case):
        return dict(args=[G.str("file_name", r"[ -~]*", "my.table.sql")])

    def requires(case, file_name):
        # a name ending in a bare dot has an empty extension; the statement does not speak about it
        return not file_name.endswith(".")

    def spec(case, file_name):
        for e in EXTENSIONS:
            if file_name.endswith("." + e):
                return True
        return False
