"""C10 / C12 - the output filter: which fields of a table object reach the result in which mode.

Spec from the statements: the nine documented table keys are reported in every mode, whatever was
(not) provided by the parser; a dialect-specific field is reported at top level only in the modes
documented for it (DOC: the documentation table kept in bounded/c10.py, cross-checked there against
the field metadata) and never in any other mode."""
from contracts.base import contract
from bounded import c10 as _doc

# the documentation table: dialect field -> modes it is documented for; python attribute -> output key
DOC = {k: tuple(v) for k, v in _doc.DOC.items()}
ATTR_OF = {k: a for a, k in _doc.ALIASES.items()}
KEY_OF = dict(_doc.ALIASES)

MODES = ["sql", "redshift", "spark_sql", "mysql", "bigquery", "mssql", "databricks", "sqlite", "vertics", "ibm_db2",
         "postgres", "oracle", "hql", "snowflake", "athena"]
REQUIRED = ["table_name", "schema", "primary_key", "columns", "alter", "checks", "index", "partitioned_by", "tablespace"]


def table_object(G, mode, field):
    """a table object of the mode's class; whether the parser provided `field` is left open"""
    from simple_ddl_parser.output.table_data import TableData
    cls = TableData.get_dialect_class({"output_mode": mode})
    init = G.record({"table_name": G.str("t", None, "t")}, {field: ("provided", G.str("v"))})
    attrs = dict(output_mode=mode, init_data=init, table_properties={}, table_name=G.str("t", None, "t"))
    if field != "table_name":
        # the value the attribute holds: nothing, a text, a non-empty list, an empty or a non-empty dict
        attrs[field] = [None, G.str("value"), [G.str("item")], {}, {"k": G.str("item")}][G.choice("value-kind", 5)]
    return G.obj(cls, **attrs)


@contract
class RequiredKeysAlwaysReported:
    fn = "output.base_data.BaseData.filter_out_output"
    props = ["C10", "C12"]
    cases = {"required keys in " + m: dict(mode=m) for m in MODES}

    def build(G, case):
        field = REQUIRED[G.choice("field", len(REQUIRED))]
        if case["mode"] == "bigquery" and field == "schema":
            field = "dataset"
        return dict(args=[table_object(G, case["mode"], field), field])

    def spec(case, self_, field):
        return True


DIALECT_FIELDS = sorted(DOC)


@contract
class DialectFieldsOnlyInDocumentedModes:
    fn = "output.base_data.BaseData.filter_out_output"
    props = ["C10", "C11"]
    cases = {"dialect fields in " + m: dict(mode=m) for m in MODES}

    def build(G, case):
        # the dialect fields the mode's class declares (a key that is not a field of the class never becomes an
        # attribute: pre_load_mods routes it to table_properties)
        from simple_ddl_parser.output.table_data import TableData
        cls = TableData.get_dialect_class({"output_mode": case["mode"]})
        declared = [f for f in DIALECT_FIELDS if ATTR_OF.get(f, f) in getattr(cls, "__dataclass_fields__", {}) and case["mode"] not in DOC[f]]
        if not declared:
            declared = ["table_name"]
        field = declared[G.choice("field", len(declared))]
        attr = ATTR_OF.get(field, field)
        return dict(args=[table_object(G, case["mode"], attr), attr])

    def spec(case, self_, field):
        return field == "table_name"


@contract
class ToDictKeepsRequiredKeys:
    """to_dict: the nine documented table keys are present in every mode (dataset for schema in BigQuery mode), each holding
    the very object the table holds (so later ALTER statements stay visible in an emitted table)"""
    fn = "output.base_data.BaseData.to_dict"
    props = ["C12", "C10", "C04"]
    cases = {"to_dict in " + m: dict(mode=m) for m in MODES}

    def build(G, case):
        import dataclasses
        from simple_ddl_parser.output.table_data import TableData
        mode = case["mode"]
        cls = TableData.get_dialect_class({"output_mode": mode})
        attrs = {}
        for f in dataclasses.fields(cls):
            if f.default is not dataclasses.MISSING:
                attrs[f.name] = f.default
            elif f.default_factory is not dataclasses.MISSING:
                attrs[f.name] = f.default_factory()
        attrs.update(table_name=G.str("t"), output_mode=mode, columns=G.oseq("cols", elem=lambda g, n: {"name": g.str(n)}), primary_key=G.oseq("pk", elem=lambda g, n: g.str(n)),
                     alter={}, checks=[], index=[], partitioned_by=[], tablespace=None, table_properties={},
                     init_data=G.record({"table_name": G.str("t")}, {}))
        attrs["dataset" if mode == "bigquery" else "schema"] = G.str("schema")
        return dict(args=[G.obj(cls, **attrs)])

    def ensures(case, old, new, result):
        o = new[0]
        sk = "dataset" if case["mode"] == "bigquery" else "schema"
        for k in ["table_name", "primary_key", "columns", "alter", "checks", "index", "partitioned_by", "tablespace"]:
            if k not in result:
                return False
        return (sk in result and result["columns"] is o.columns and result["alter"] is o.alter and result["index"] is o.index
                and result["primary_key"] is o.primary_key and result["table_name"] == o.table_name and result[sk] == getattr(o, sk))


@contract
class NonTableEntitiesPerMode:
    """sequences, types, domains, schemas ... pass through the output step unchanged in every mode - except that BigQuery
    mode calls a non-empty `schema` `dataset` (same value, nothing else touched)"""
    fn = "output.dialects.dialects_clean_up"
    props = ["C10", "C13", "C17", "C18"]
    cases = {"bigquery": dict(mode="bigquery"), "any other mode": dict(mode=None)}

    def build(G, case):
        mode = "bigquery" if case["mode"] else G.str("mode", r"[a-z_0-9]+", "hql")
        schema = [None, G.str("schema", r"[!-~]+", "app")][G.choice("schema?", 2)]
        ent = G.record({"schema": schema, "sequence_name": G.str("name", r"[!-~]+", "seq1"), "rest": G.str("rest")}, {"increment": ("has increment", G.int("increment"))})
        return dict(args=[mode, ent])

    def requires(case, output_mode, table_data):
        return case["mode"] is not None or output_mode != "bigquery"

    def spec(case, output_mode, table_data):
        if case["mode"] and table_data["schema"]:
            table_data["dataset"] = table_data["schema"]
            del table_data["schema"]
        return table_data

    def ensures(case, old, new, result):
        return result is new[1]
