"""C18 - types, domains, schemas, databases, tablespaces: one entity with the documented keys, names
and values verbatim.  Key names are those of the README / property statement."""
from contracts.base import contract
from contracts.lib import NAME, STRLIT, column_value, none_or_str, production

WORDS = r"[a-zA-Z_][a-zA-Z_0-9]*"


@contract
class PTypeName:
    fn = "dialects.sql.Type.p_type_name"
    props = ["C18", "C06"]
    cases = {"type_create id AS": dict(dot=False), "type_create id DOT id AS": dict(dot=True), "type_create id DOT id": dict(dot=True), "type_create id": dict(dot=False)}

    def build(G, case):
        return dict(args=[G.parser(), production(G, case["_name"], {1: None})])

    def spec(case, self_, p):
        if case["dot"]:
            p[0] = {"schema": p[2], "type_name": p[4]}
        else:
            p[0] = {"schema": None, "type_name": p[2]}


@contract
class PDomainName:
    fn = "dialects.sql.Domain.p_domain_name"
    props = ["C18", "C06"]
    cases = {"CREATE DOMAIN id AS": dict(dot=False), "CREATE DOMAIN id DOT id AS": dict(dot=True)}

    def build(G, case):
        return dict(args=[G.parser(), production(G, case["_name"], {})])

    def spec(case, self_, p):
        if case["dot"]:
            p[0] = {"schema": p[3], "domain_name": p[5]}
        else:
            p[0] = {"schema": None, "domain_name": p[3]}


@contract
class PDomainAs:
    fn = "dialects.sql.Domain.p_expression_domain_as"
    props = ["C18"]
    observable = "result"
    cases = {"domain_name id LP pid RP": {}}

    def build(G, case):
        dn = {"schema": none_or_str(G, "d.schema", NAME), "domain_name": G.str("d.name", NAME)}
        return dict(args=[G.parser(), production(G, case["_name"], {1: dn, 2: G.str("base", WORDS, "varchar"), 4: G.oseq("pid", elem=lambda g, n: g.str(n))})])

    def spec(case, self_, p):
        p[0] = p[1]
        p[0]["base_type"] = p[2]
        p[0]["properties"] = {}
        if p[2] == "ENUM":
            p[0]["properties"]["values"] = p[4]


def type_name_value(G):
    return {"schema": none_or_str(G, "t.schema", NAME), "type_name": G.str("t.name", NAME)}


@contract
class PTypeDefinitionEnum:
    fn = "dialects.sql.Type.p_type_definition"
    props = ["C18"]
    observable = "result"
    cases = {"type_name id LP pid RP": {}}

    def build(G, case):
        return dict(args=[G.parser(), production(G, case["_name"], {1: type_name_value(G), 2: G.str("base", r"[eE][nN][uU][mM]", "ENUM"), 4: G.oseq("values", elem=lambda g, n: g.str(n, STRLIT, "'a'"))})])

    def spec(case, self_, p):
        p[0] = p[1]
        p[0]["properties"] = {"values": p[4]}
        p[0]["base_type"] = p[2]


@contract
class PTypeDefinitionObject:
    fn = "dialects.sql.Type.p_type_definition"
    props = ["C18"]
    observable = "result"
    cases = {"type_name id LP multiple_column_names RP": {}}

    def build(G, case):
        attrs = [column_value(G, "a0"), column_value(G, "a1")]
        return dict(args=[G.parser(), production(G, case["_name"], {1: type_name_value(G), 2: G.str("base", r"[oO][bB][jJ][eE][cC][tT]", "OBJECT"), 4: attrs})])

    def spec(case, self_, p):
        p[0] = p[1]
        p[0]["properties"] = {"attributes": p[4]}
        p[0]["base_type"] = p[2]


@contract
class PDatabaseBase:
    fn = "dialects.sql.Database.p_database_base"
    props = ["C18", "C06"]
    cases = {"CREATE DATABASE id": {}}

    def build(G, case):
        return dict(args=[G.parser(), production(G, case["_name"], {})])

    def spec(case, self_, p):
        p[0] = {"database_name": p[3]}


@contract
class PCreateSchema:
    fn = "dialects.sql.Schema.p_create_schema"
    props = ["C18", "C06"]
    observable = "result"
    cases = {
        "c_schema id": dict(kind="plain"),
        # recorded finding (known_findings.json): add_if_not_exists looks for the word EXISTS anywhere in the production,
        # so a schema literally named EXISTS (upper case) is reported with if_not_exists
        "c_schema id [schema named EXISTS]": dict(kind="plain", alt="c_schema id", fixed_name="EXISTS"),
        "c_schema IF NOT EXISTS id": dict(kind="ine"),
        "c_schema id id id": dict(kind="auth"),
        "c_schema id id": dict(kind="auth-only"),
        "create_schema COMMENT STRING": dict(kind="comment"),
    }

    def build(G, case):
        kind = case["kind"]
        vals = {1: None}
        if kind == "auth":
            vals[3] = G.str("auth_kw", r"[aA][uU][tT][hH][oO][rR][iI][zZ][aA][tT][iI][oO][nN]", "AUTHORIZATION")
        elif kind == "auth-only":
            vals[2] = G.str("auth_kw", r"[aA][uU][tT][hH][oO][rR][iI][zZ][aA][tT][iI][oO][nN]", "AUTHORIZATION")
        elif kind == "comment":
            vals[1] = G.record({"schema_name": G.str("s.name", NAME)}, {"authorization": ("s.has_auth", G.str("s.auth", NAME)), "if_not_exists": ("s.has_ine", True)})
            vals[3] = G.str("comment", STRLIT, "'c'")
        if case.get("fixed_name"):
            vals[2] = case["fixed_name"]
        return dict(args=[G.parser(), production(G, case.get("alt") or case["_name"], vals)])

    def requires(case, self_, p):
        kind = case["kind"]
        if case.get("fixed_name"):
            return True
        if kind == "plain":
            return p[2].upper() != "AUTHORIZATION" and "`" not in p[2] and p[2] != "EXISTS"
        if kind == "ine":
            return p[5].upper() != "AUTHORIZATION" and "`" not in p[5]
        if kind == "auth":
            return p[2].upper() != "AUTHORIZATION" and p[2] != "EXISTS" and p[4] != "EXISTS"
        if kind == "auth-only":
            return p[3] != "EXISTS"
        return True

    def spec(case, self_, p):
        kind = case["kind"]
        if kind == "plain":
            p[0] = {"schema_name": p[2]}
        elif kind == "ine":
            p[0] = {"if_not_exists": True, "schema_name": p[5]}
        elif kind == "auth":
            p[0] = {"schema_name": p[2], "authorization": p[4]}
        elif kind == "auth-only":
            p[0] = {"schema_name": p[3], "authorization": p[3]}
        else:
            p[0] = p[1]
            p[0]["comment"] = p[3]


@contract
class PCreateTablespace:
    fn = "dialects.sql.TableSpaces.p_expression_create_tablespace"
    props = ["C18", "C06"]
    cases = {
        "CREATE TABLESPACE id": dict(kind=None, temp=False, name=3),
        "CREATE id TABLESPACE id": dict(kind="one", name=4),
        "CREATE id id TABLESPACE id": dict(kind="two", name=5),
    }

    def build(G, case):
        return dict(args=[G.parser(), production(G, case["_name"], {})])

    def requires(case, self_, p):
        # CREATE [BIGFILE | SMALLFILE] [TEMPORARY] TABLESPACE: the kind word is neither TABLESPACE itself nor, when
        # two words are written, TEMPORARY (which comes second)
        if case["kind"] == "one":
            return p[2] != "TABLESPACE"
        if case["kind"] == "two":
            return p[2] != "TABLESPACE" and p[2].upper() != "TEMPORARY"
        return True

    def spec(case, self_, p):
        name = p[case["name"]]
        if case["kind"] is None:
            p[0] = {"tablespace_name": name, "properties": None, "type": None, "temporary": False}
        elif case["kind"] == "one":
            if p[2].upper() == "TEMPORARY":
                p[0] = {"tablespace_name": name, "properties": None, "type": None, "temporary": True}
            else:
                p[0] = {"tablespace_name": name, "properties": None, "type": p[2], "temporary": False}
        else:
            p[0] = {"tablespace_name": name, "properties": None, "type": p[2], "temporary": p[3].upper() == "TEMPORARY"}


# ------------------------------------------------------------------ a TABLESPACE clause on any statement
MARKER_KEYS = ["table_name", "sequence_name", "type_name", "domain_name", "schema_name", "tablespace_name", "database_name"]


def entity_so_far(G, case):
    """the statement collected so far: exactly ONE kind key (of the case), a name, and an opaque rest"""
    return G.record({case["marker"]: G.str("entity name", NAME), "rest": G.str("rest of the statement")}, {"schema": ("has schema", G.str("schema", NAME))})


@contract
class TablespaceClauseKeepsKind:
    """expr : expr tablespace - the clause is stored as ONE nested record under `tablespace`; the statement keeps every key
    it had and gains no other: in particular it still has exactly one kind key, so a database / schema / type / table with
    a TABLESPACE clause is still filed under its own kind (C13)"""
    fn = "dialects.sql.BaseSQL.p_expr_tablespace"
    props = ["C18", "C13", "C11"]
    observable = "result"
    cases = {"on a %s" % m.replace("_name", ""): dict(marker=m) for m in ("table_name", "database_name", "schema_name", "type_name", "domain_name")}

    def build(G, case):
        clause = {"tablespace_name": G.str("ts", NAME), "properties": None, "type": None, "temporary": False}
        return dict(args=[G.parser(), production(G, "expr tablespace", {1: entity_so_far(G, case), 2: clause})])

    def spec(case, self_, p):
        p[0] = p[1]
        p[0]["tablespace"] = p[2]

    def ensures(case, old, new, result):
        ent = new[1][0]
        return len([k for k in MARKER_KEYS if k in ent]) == 1


@contract
class PDropTable:
    """DROP TABLE [schema.]name is reported as a table-kind record naming exactly that table (it registers the name like a
    definition does: C03 / C04 rely on "the latest record of that name"); one kind key, so it has a bucket (C13)"""
    fn = "dialects.sql.Drop.p_expression_drop_table"
    props = ["C18", "C13", "C03", "C04", "C06", "C12"]
    cases = {"DROP TABLE id": dict(schema=False), "DROP TABLE id DOT id": dict(schema=True)}

    def build(G, case):
        return dict(args=[G.parser(), production(G, case["_name"], {})])

    def spec(case, self_, p):
        if case["schema"]:
            p[0] = {"schema": p[3], "table_name": p[5]}
        else:
            p[0] = {"schema": None, "table_name": p[3]}

    def ensures(case, old, new, result):
        return len([k for k in MARKER_KEYS if k in new[1][0]]) == 1
