"""C01 - column definitions reproduced exactly and in order: the column, defcolumn and table productions.

Spec from the statement: one dict per column carrying the declared name, type text and size; each
option sets exactly its own attribute (NULL / NOT NULL -> nullable, DEFAULT -> default,
PRIMARY KEY -> primary key and not nullable, UNIQUE -> unique, REFERENCES -> references) and leaves
every other attribute as it was - proved from an arbitrary column state, hence for every order of
options; the table production appends each finished column to the end of the list - proved with an
opaque prefix, hence for any number of columns."""
from contracts.base import contract
from contracts.lib import NAME, STRLIT, TYPE_TEXT, column_value, defcolumn_value, none_or_str, opt, production, ref_inner


@contract
class PNull:
    fn = "dialects.sql.BaseSQL.p_null"
    props = ["C01"]
    cases = {"NULL": dict(v=True), "NOT NULL": dict(v=False)}

    def build(G, case):
        return dict(args=[G.parser(), production(G, case["_name"], {})])

    def spec(case, self_, p):
        p[0] = {"nullable": case["v"]}


@contract
class PColumnBase:
    fn = "dialects.sql.Column.p_column"
    props = ["C01", "C12"]
    observable = "result"
    cases = {"id c_type": {}}

    def build(G, case):
        return dict(args=[G.parser(), production(G, "id c_type", {1: G.str("name", NAME, "order"), 2: {"type": G.str("type", TYPE_TEXT, "varchar")}})])

    def requires(case, self_, p):
        # `KEY name (...)` is the MySQL inline index form; IDENTITY is the MSSQL column property
        return p[1] != "KEY" and "IDENTITY" not in p[2]["type"].upper()

    def spec(case, self_, p):
        p[0] = {"name": p[1], "type": p[2]["type"], "size": None}

    def lift(case, model):
        return dict(ddl="CREATE TABLE t (a int, %s %s, b int);" % (model.get("name", "x"), model.get("type", "int")))


@contract
class PCTypePlain:
    fn = "dialects.sql.Column.p_c_type"
    props = ["C01", "C18"]
    observable = "result"
    cases = {"id": dict(n=1), "id id": dict(n=2), "id DOT id": dict(n=3)}

    def build(G, case):
        alt = case["_name"]
        vals = {i: G.str("w%d" % i, r"[a-zA-Z_][a-zA-Z_0-9$#@\"`\[\]]*", "double") for i, s in enumerate(alt.split(), 1) if s == "id"}
        return dict(args=[G.parser(), production(G, alt, vals)])

    def requires(case, self_, p):
        for i in range(1, len(p)):
            if "ARRAY" in p[i] or p[i].lower() == "encode" or p[i].lower() == "distkey" or p[i] in ("ENUM", "SET"):
                return False
        return True

    def spec(case, self_, p):
        if case["n"] == 1:
            p[0] = {"type": p[1]}
        elif case["n"] == 2:
            p[0] = {"type": p[1] + " " + p[2]}
        else:
            p[0] = {"type": p[1] + "." + p[3]}


def ref_value(G):
    return {"references": ref_inner(G, "ref", n_cols=1)}


def single_ref(r):
    out = {"table": r["table"], "schema": r["schema"], "on_delete": r["on_delete"], "on_update": r["on_update"],
           "deferrable_initially": r["deferrable_initially"], "column": r["columns"][0]}
    return out


@contract
class PDefcolumn:
    fn = "dialects.sql.Column.p_defcolumn"
    props = ["C01", "C02", "C12"]
    observable = "result"
    cases = {
        "column": dict(kind="column"),
        "defcolumn null": dict(kind="null"),
        "defcolumn default": dict(kind="default"),
        "defcolumn PRIMARY KEY": dict(kind="pk"),
        "defcolumn UNIQUE": dict(kind="unique"),
        "defcolumn UNIQUE KEY": dict(kind="unique"),
        "defcolumn ref": dict(kind="ref"),
        "defcolumn comment": dict(kind="comment"),
        "defcolumn collate": dict(kind="collate"),
    }

    def build(G, case):
        kind = case["kind"]
        alt = case["_name"]
        if kind == "column":
            vals = {1: column_value(G)}
        else:
            vals = {1: defcolumn_value(G)}
        if kind == "null":
            vals[2] = {"nullable": G.bool("opt.nullable")}
        elif kind == "default":
            vals[2] = {"default": opt(G, "opt.default", [lambda: G.str("opt.default_s"), lambda: G.int("opt.default_i")])}
        elif kind == "ref":
            vals[2] = ref_value(G)
        elif kind == "comment":
            vals[2] = {"comment": G.str("opt.comment", STRLIT, "'c'")}
        elif kind == "collate":
            vals[2] = {"collate": G.str("opt.collate", NAME, "utf8")}
        return dict(args=[G.parser(), production(G, alt, vals)])

    def spec(case, self_, p):
        kind = case["kind"]
        p[0] = p[1]
        col = p[0]
        if kind == "column":
            col["references"] = None
            col["unique"] = False
            col["primary_key"] = False
            col["nullable"] = True
            col["default"] = None
            col["check"] = None
        elif kind == "null":
            col["nullable"] = p[2]["nullable"]
        elif kind == "default":
            col["default"] = p[2]["default"]
        elif kind == "pk":
            col["primary_key"] = True
            col["nullable"] = False
        elif kind == "unique":
            col["unique"] = True
        elif kind == "ref":
            col["references"] = single_ref(p[2]["references"])
        elif kind == "comment":
            col["comment"] = p[2]["comment"]
        elif kind == "collate":
            col["collate"] = p[2]["collate"]

    def ensures(case, old, new, result):
        return new[1][0] is new[1][1]


def table_value(G, name="tbl"):
    fixed = {"schema": none_or_str(G, name + ".schema", NAME), "table_name": G.str(name + ".table_name", NAME),
             "columns": G.oseq(name + ".columns", elem=lambda g, n: defcolumn_value(g, n, light=True)), "checks": []}
    maybe = {"if_not_exists": (name + ".has_if_not_exists", True), "primary_key": (name + ".has_pk", G.oseq(name + ".pk", elem=lambda g, n: g.str(n, NAME)))}
    return G.record(fixed, maybe)


@contract
class PExpressionTableColumns:
    """the table production appends every finished column at the end of the same list"""
    fn = "dialects.sql.BaseSQL.p_expression_table"
    props = ["C01", "C12"]
    observable = "result"
    cases = {"table_name LP defcolumn": dict(col=3), "expr COMMA defcolumn": dict(col=3), "table_name defcolumn": dict(col=2),
             "expr COMMA": dict(col=None), "expr RP": dict(col=None), "table_name": dict(col=None), "table_name LP RP": dict(col=None)}

    def build(G, case):
        vals = {1: table_value(G)}
        if case["col"]:
            vals[case["col"]] = defcolumn_value(G, "new", light=True)
        return dict(args=[G.parser(), production(G, case["_name"], vals)])

    def spec(case, self_, p):
        p[0] = p[1]
        if case["col"]:
            p[0]["columns"].append(p[case["col"]])

    def ensures(case, old, new, result):
        return new[1][0] is new[1][1]


def any_case(word):
    return "".join("[%s%s]" % (c.lower(), c.upper()) if c.isalpha() else c for c in word)


MODIFIERS = {"EXTERNAL": {"external": True}, "TRANSIENT": {"transient": True}, "GLOBAL": {"is_global": True}, "TEMP": {"temp": True},
             "TEMPORARY": {"temp": True}, "ICEBERG": {}, "VOLATILE": {}, "LOCAL": {}}


@contract
class PCreateTable:
    """CREATE [OR REPLACE] [modifier [modifier]] TABLE [IF NOT EXISTS]: the documented flags, modifier words in any letter case"""
    fn = "dialects.sql.Table.p_create_table"
    props = ["C01", "C05", "C11"]
    cases = {
        "CREATE TABLE": dict(words=0, replace=False, ine=False),
        "CREATE TABLE IF NOT EXISTS": dict(words=0, replace=False, ine=True),
        "CREATE OR REPLACE TABLE": dict(words=0, replace=True, ine=False),
        "CREATE id TABLE": dict(words=1, replace=False, ine=False),
        "CREATE id TABLE IF NOT EXISTS": dict(words=1, replace=False, ine=True),
        "CREATE OR REPLACE id TABLE": dict(words=1, replace=True, ine=False),
        "CREATE id id TABLE": dict(words=2, replace=False, ine=False),
    }

    def build(G, case):
        alt = case["_name"]
        names = sorted(MODIFIERS)
        vals = {}
        ids = [i for i, s in enumerate(alt.split(), 1) if s == "id"]
        chosen = []
        if case["words"] == 1:
            k = names[G.choice("modifier", len(names))]
            vals[ids[0]] = G.str("w1", any_case(k), k)
            chosen = [k]
        elif case["words"] == 2:
            # the documented two-word form: GLOBAL | LOCAL followed by TEMPORARY | TEMP
            a = ["GLOBAL", "LOCAL"][G.choice("first", 2)]
            b = ["TEMPORARY", "TEMP"][G.choice("second", 2)]
            vals[ids[0]] = G.str("w1", any_case(a), a)
            vals[ids[1]] = G.str("w2", any_case(b), b)
            chosen = [a, b]
        return dict(args=[G.parser(), production(G, alt, vals)], ghost=dict(chosen=chosen))

    def spec(case, self_, p):
        out = {}
        if case["ine"]:
            out["if_not_exists"] = True
        if case["replace"]:
            out["replace"] = True
        words = [w for w in list(p)[1:] if w not in ["CREATE", "OR", "REPLACE", "TABLE", "IF", "NOT", "EXISTS"]]
        if case["words"] == 1:
            for k in sorted(MODIFIERS):
                if words[0].upper() == k:
                    out.update(MODIFIERS[k])
        elif case["words"] == 2:
            out["temp"] = True
            if words[0].upper() == "GLOBAL":
                out["is_global"] = True
        p[0] = out


@contract
class PTName:
    """schema / table (/ project) names are copied verbatim; a fresh table skeleton with empty columns and checks"""
    fn = "dialects.sql.BaseSQL.p_t_name"
    props = ["C01", "C06", "C04"]
    cases = {"id": dict(n=1), "id DOT id": dict(n=2), "id DOT id DOT id": dict(n=3)}

    def build(G, case):
        return dict(args=[G.parser(), production(G, case["_name"], {})])

    def spec(case, self_, p):
        if case["n"] == 1:
            p[0] = {"schema": None, "table_name": p[1], "columns": [], "checks": []}
        elif case["n"] == 2:
            p[0] = {"schema": p[1], "table_name": p[3], "columns": [], "checks": []}
        else:
            p[0] = {"schema": p[3], "table_name": p[5], "columns": [], "checks": [], "project": p[1]}


@contract
class PTableName:
    fn = "dialects.sql.BaseSQL.p_table_name"
    props = ["C01", "C06"]
    observable = "result"
    cases = {"create_table t_name": {}}

    def build(G, case):
        ct = G.record({}, {"if_not_exists": ("ct.ine", True), "replace": ("ct.replace", True), "temp": ("ct.temp", True), "external": ("ct.external", True)})
        tn = G.record({"schema": none_or_str(G, "tn.schema", NAME), "table_name": G.str("tn.table", NAME), "columns": [], "checks": []},
                      {"project": ("tn.has_project", G.str("tn.project", NAME))})
        return dict(args=[G.parser(), production(G, case["_name"], {1: ct, 2: tn})])

    def spec(case, self_, p):
        p[0] = p[1]
        for k in p[2]:
            p[0][k] = p[2][k]

    def ensures(case, old, new, result):
        return new[1][0] is new[1][1]
