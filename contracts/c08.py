"""C08 - comments never change what is parsed: the whole-line comment path of the line pre-processor.

Spec from the statement: a whole-line '--' or '#' comment contributes no code and leaves the state
of the statement assembler alone; inside a multi-line block comment every line contributes no code
and is collected as comment text, the block ends with the line that contains '*/'."""
from contracts.base import contract
from contracts.lib import lexer_flags


def comment_state(G, line, in_block):
    return G.parser(lexer=lexer_flags(G), line=line, multi_line_comment=in_block, comments=G.oseq("comments", elem=lambda g, n: g.str(n)),
                    block_comments=[], statement=[None, G.str("statement")][G.choice("statement?", 2)])


@contract
class WholeLineComment:
    fn = "parser.Parser.catch_comment_or_process_line"
    props = ["C08"]
    cases = {"-- comment": dict(marker="--"), "# comment": dict(marker="#")}

    def build(G, case):
        indent = ["", " ", "    ", "\t"][G.choice("indent", 4)]
        line = indent + case["marker"] + G.str("text", r"[ -~]*", " create table x (")
        return dict(args=[comment_state(G, line, False), G.str("code_line", None, "")])

    def spec(case, self_, code_line):
        return code_line


@contract
class InsideBlockComment:
    fn = "parser.Parser.catch_comment_or_process_line"
    props = ["C08"]
    cases = {"block continues": dict(ends=False), "block ends": dict(ends=True)}

    def build(G, case):
        if case["ends"]:
            line = G.str("before", r"[ -~]*", "x") + "*/" + G.str("after", r"[ -~]*", "")
        else:
            line = G.str("text", r"[ -)+-~]*", "create table x (")     # no '*' at all, hence no '*/'
        return dict(args=[comment_state(G, line, True), G.str("code_line", None, "")])

    def spec(case, self_, code_line):
        self_.comments.append(self_.line)
        if case["ends"]:
            self_.multi_line_comment = False
        return ""
