"""C08 - comments never change what is parsed: the whole-line comment path of the line pre-processor.

Spec from the statement: a whole-line '--' or '#' comment contributes no code and leaves the state
of the statement assembler alone; inside a multi-line block comment every line contributes no code
and is collected as comment text, the block ends with the line that contains '*/'."""
from contracts.base import contract
from contracts.lib import lexer_flags, parser_constant
from contracts.lib import PARSE_PROPS


def comment_state(G, line, in_block):
    return G.parser(lexer=lexer_flags(G), line=line, multi_line_comment=in_block, comments=G.oseq("comments", elem=lambda g, n: g.str(n)),
                    block_comments=[], statement=[None, G.str("statement")][G.choice("statement?", 2)])


@contract
class WholeLineComment:
    fn = "parser.Parser.catch_comment_or_process_line"
    props = PARSE_PROPS
    cases = {"-- comment": dict(marker="--"), "# comment": dict(marker="#")}

    def build(G, case):
        indent = ["", " ", "    ", "\t"][G.choice("indent", 4)]
        line = indent + case["marker"] + G.str("text", r"[ -~]*", " create table x (")
        return dict(args=[comment_state(G, line, False), G.str("code_line", None, "")])

    def spec(case, self_, code_line):
        return code_line


@contract
class InsideBlockComment:
    fn = "parser.Parser.catch_comment_or_process_line"
    props = PARSE_PROPS
    cases = {"block continues": dict(ends=False), "block ends": dict(ends=True)}

    def build(G, case):
        if case["ends"]:
            line = G.str("before", r"[ -~]*", "x") + "*/" + G.str("after", r"[ -~]*", "")
        else:
            line = G.str("text", r"[ -)+-~]*", "create table x (")     # no '*' at all, hence no '*/'
        return dict(args=[comment_state(G, line, True), G.str("code_line", None, "")])

    def spec(case, self_, code_line):
        self_.comments.append(self_.line)
        if case["ends"]:
            self_.multi_line_comment = False
        return ""


# ---------------------------------------------------------------------------------------------------------------------
# the per-line comment scanner as a whole (pre_process_line, with catch_comment_or_process_line, process_inline_comments,
# process_line_before_comment and process_in_comment inlined), outside a multi-line block comment, for lines without
# quotes and without '=' (quoted text is C07's domain; the '=' padding is a separate step of the same function)
CODE = r"[ !$-&(-)+-,.0-<>-~]*"                 # printable, none of  " # ' * - / =
CODE_START = r"[!$-&(-)+-,.0-<>-~][ !$-&(-)+-,.0-<>-~]*"   # ... and not starting with a blank


@contract
class LineWithoutComment:
    """a line that holds no comment marker is code as it stands; nothing is recorded as a comment.  A '#' that is not the
    first character of the line (after blanks) is part of a name (emp#, #tmp is a comment line only at the start)"""
    fn = "parser.Parser.pre_process_line"
    props = PARSE_PROPS
    cases = {"code only": dict(hash=False), "code with # inside a name": dict(hash=True)}

    def build(G, case):
        line = G.str("line", CODE, "  qty int NOT NULL,")
        if case["hash"]:
            line = G.str("head", CODE_START, "  emp") + "#" + G.str("tail", CODE, " NUMBER(6) NOT NULL,")
        p = G.parser(lexer=lexer_flags(G), line=line, multi_line_comment=False,
                     comments=G.oseq("comments so far", elem=lambda g, n: g.str(n)), block_comments=[],
                     equal_without_space=parser_constant("equal_without_space"), in_comment=parser_constant("in_comment"))
        return dict(args=[p])

    def spec(case, self_):
        return None


@contract
class TrailingDashComment:
    """code -- text : the line is the code before the marker, the text after it is appended to the comments (in order);
    nothing of the text stays in the line, nothing of the code goes to the comments"""
    fn = "parser.Parser.pre_process_line"
    props = PARSE_PROPS
    cases = {"code -- text": {}}

    def build(G, case):
        code, text = G.str("code", CODE_START, "qty int, "), G.str("text", CODE, " the quantity")
        p = G.parser(lexer=lexer_flags(G), line=code + "--" + text, multi_line_comment=False,
                     comments=G.oseq("comments so far", elem=lambda g, n: g.str(n)), block_comments=[],
                     equal_without_space=parser_constant("equal_without_space"), in_comment=parser_constant("in_comment"))
        return dict(args=[p], ghost=dict(code=code, text=text))

    def spec(case, self_):
        parts = self_.line.split("--")
        self_.line = parts[0]
        self_.comments.append(parts[1])
