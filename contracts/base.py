"""Contract registry (pure Python; imported by the verifier under python3-vt and by
the replay / monitor side under /venv/bin/python).

A contract class has
    fn        key of the repository function ("dialects.sql.BaseSQL.p_expression_seq")
    props     property ids this contract serves
    cases     {case name: plain data}; for grammar actions the case name is the production
              alternative (right-hand side text).  One contract *instance* per case.
    build(G, case)  -> dict(args=[...], kwargs={}, ghost={...}) through the generator interface G
    requires(case, *args) -> bool                    (optional)
    spec(case, *args) -> result                      (optional executable reference; mutates its own copy of args)
    ensures(case, old, new, result) -> bool          (optional predicate: deep-copied pre-state, post-state, result)
    raises    tuple of exception names the function may raise on admitted inputs (default none)
    modular   True: callers are verified against `spec` instead of the body
    lift(case, model) -> dict(ddl=..., ...) exercising the same case through DDLParser (optional)
All of build / requires / spec / ensures are plain Python: the verifier interprets their
source symbolically, replay and monitors run them natively.
"""

REGISTRY = []


class CI:
    """contract instance = contract class + one case"""

    def __init__(self, cls, case_name, case):
        self.cls, self.case_name, self.case = cls, case_name, case
        # a contract class may serve several functions of the same shape: the case then names its function
        self.fn = (case.get("fn") if isinstance(case, dict) else None) or cls.fn
        self.props = tuple(getattr(cls, "props", ()))
        self.raises = tuple(getattr(cls, "raises", ()))
        self.modular = bool(getattr(cls, "modular", False))
        self.name = "%s[%s]" % (self.fn, case_name)
        self.module = cls.__module__
        self.clsname = cls.__name__

    def has(self, attr):
        return attr in self.cls.__dict__

    def build(self, G):
        return self.cls.__dict__["build"](G, self.case)

    def native(self, attr):
        f = self.cls.__dict__.get(attr)
        if f is None:
            return None
        case = self.case
        return lambda *a, **k: f(case, *a, **k)


def contract(cls):
    cases = getattr(cls, "cases", None) or {"-": {}}
    for k, v in cases.items():
        if isinstance(v, dict):
            v.setdefault("_name", k)
    cls.instances = [CI(cls, k, v) for k, v in cases.items()]
    REGISTRY.extend(cls.instances)
    return cls


def find(module, clsname, case_name):
    for ci in REGISTRY:
        if ci.module == module and ci.clsname == clsname and ci.case_name == case_name:
            return ci
    raise KeyError((module, clsname, case_name))
