"""C11 - dialect clauses are captured under their key, orthogonal to the table body.

Per clause production: the statement's entity is returned (same object), exactly the documented
key is set to the value as written, and every other key - columns, names, keys, constraints and any
clause captured earlier - is untouched (effect + frame).  Keys / values are those of the README
(DESIGN Appendix C catalogue); the table value carries an opaque column list and an arbitrary
subset of other clause keys, so 'clauses combine without overwriting' is part of each obligation."""
from contracts.base import contract
from contracts.lib import NAME, STRLIT, defcolumn_value, none_or_str, production

OTHER_KEYS = ["location", "stored_as", "comment", "tablespace", "engine", "row_format", "tblproperties", "storage", "using", "index_in", "inherits"]


def table_with_clauses(G, name="tbl", without=()):
    fixed = {"schema": none_or_str(G, name + ".schema", NAME), "table_name": G.str(name + ".table_name", NAME),
             "columns": G.oseq(name + ".columns", elem=lambda g, n: defcolumn_value(g, n, light=True)), "checks": [],
             "primary_key": G.oseq(name + ".pk", elem=lambda g, n: g.str(n, NAME))}
    maybe = {k: (name + ".has_" + k, G.str(name + "." + k)) for k in OTHER_KEYS if k not in without}
    return G.record(fixed, maybe)


def no_marker(s):
    for m in ["'pars_m_t'", "'pars_m_n'", "'pars_m_dq'", "pars_m_single"]:
        if m in s:
            return False
    return True


def _req_no_marker(p, pos):
    return no_marker(p[pos])


@contract
class SimpleClause:
    """clauses of the form  expr KEYWORD ... value :  table[key] = the value exactly as written"""
    fn = "-"
    props = ["C11"]
    observable = "result"
    cases = {
        "LOCATION 's'": dict(fn="dialects.hql.HQL.p_expression_location", alt="expr LOCATION STRING", key="location", pos=3, pat=STRLIT),
        "LOCATION = 's'": dict(fn="dialects.hql.HQL.p_expression_location", alt="expr LOCATION EQ STRING", key="location", pos=4, pat=STRLIT),
        "STORED AS x": dict(fn="dialects.hql.HQL.p_expression_stored_as", alt="expr STORED AS id", key="stored_as", pos=4, pat=NAME),
        "TBLPROPERTIES (...)": dict(fn="dialects.hql.HQL.p_expression_tblproperties", alt="expr TBLPROPERTIES multi_assignments", key="tblproperties", pos=3, pat=NAME),
        "COMMENT 's'": dict(fn="dialects.hql.HQL.p_expression_comment", alt="expr COMMENT STRING", key="comment", pos=3, pat=STRLIT, marker_free=True),
        "MAP KEYS TERMINATED BY 'c'": dict(fn="dialects.hql.HQL.p_expression_map_keys_terminated_by", alt="expr MAP KEYS TERMINATED BY STRING", key="map_keys_terminated_by", pos=6, pat=STRLIT, marker_free=True),
        "COLLECTION ITEMS TERMINATED BY 'c'": dict(fn="dialects.hql.HQL.p_expression_collection_terminated_by", alt="expr COLLECTION ITEMS TERMINATED BY STRING", key="collection_items_terminated_by", pos=6, pat=STRLIT, marker_free=True),
        "ENGINE = x": dict(fn="dialects.mysql.MySQL.p_engine", alt="expr ENGINE EQ id", key="engine", pos=4, pat=NAME),
        "STORAGE (...)": dict(fn="dialects.oracle.Oracle.p_expr_storage", alt="expr storage", key="storage", pos=2, pat=NAME),
        "TABLESPACE ts": dict(fn="dialects.sql.BaseSQL.p_expr_tablespace", alt="expr tablespace", key="tablespace", pos=2, pat=NAME),
        "INDEX IN ts": dict(fn="dialects.ibm.IBMDb2.p_expr_index_in", alt="expr INDEX IN id", key="index_in", pos=4, pat=NAME),
    }

    def build(G, case):
        vals = {1: table_with_clauses(G, without=(case["key"],)), case["pos"]: G.str("value", case["pat"], "x")}
        return dict(args=[G.parser(), production(G, case["alt"], vals)])

    def requires(case, self_, p):
        return not case.get("marker_free") or no_marker(p[case["pos"]])

    def spec(case, self_, p):
        p[0] = p[1]
        p[0][case["key"]] = p[case["pos"]]

    def ensures(case, old, new, result):
        return new[1][0] is new[1][1]


@contract
class TerminatedBy:
    fn = "dialects.hql.HQL.p_expression_terminated_by"
    props = ["C11"]
    observable = "result"
    cases = {"expr id TERMINATED BY STRING": dict(pat=STRLIT), "expr id TERMINATED BY id": dict(pat=NAME)}

    def build(G, case):
        vals = {1: table_with_clauses(G), 2: ["FIELDS", "fields", "Lines", "LINES"][G.choice("what", 4)], 5: G.str("value", case["pat"], "','")}
        return dict(args=[G.parser(), production(G, case["_name"], vals)])

    def requires(case, self_, p):
        return no_marker(p[5])

    def spec(case, self_, p):
        p[0] = p[1]
        p[0][p[2].lower() + "_terminated_by"] = p[5]

    def ensures(case, old, new, result):
        return new[1][0] is new[1][1]


@contract
class OrganizationIndex:
    fn = "dialects.oracle.Oracle.p_expr_index"
    props = ["C11"]
    observable = "result"
    cases = {"expr ID INDEX": {}}

    def build(G, case):
        return dict(args=[G.parser(), production(G, case["_name"], {1: table_with_clauses(G), 2: ["ORGANIZATION", "organization", "Organization"][G.choice("word", 3)]})])

    def spec(case, self_, p):
        p[0] = p[1]
        p[0]["organization_index"] = True

    def ensures(case, old, new, result):
        return new[1][0] is new[1][1]


@contract
class Using:
    fn = "dialects.spark_sql.SparkSQL.p_expression_using"
    props = ["C11"]
    observable = "result"
    cases = {"expr using": {}}

    def build(G, case):
        return dict(args=[G.parser(), production(G, case["_name"], {1: table_with_clauses(G, without=("using",)), 2: {"using": G.str("fmt", NAME, "parquet")}})])

    def spec(case, self_, p):
        p[0] = p[1]
        p[0]["using"] = p[2]["using"]

    def ensures(case, old, new, result):
        return new[1][0] is new[1][1]


@contract
class Inherits:
    fn = "dialects.psql.PSQL.p_expr_inherits"
    props = ["C11"]
    observable = "result"
    cases = {"expr INHERITS LP t_name RP": {}}

    def build(G, case):
        tn = {"schema": none_or_str(G, "p.schema", NAME), "table_name": G.str("p.table", NAME), "columns": [], "checks": []}
        return dict(args=[G.parser(), production(G, case["_name"], {1: table_with_clauses(G, without=("inherits",)), 4: tn})])

    def spec(case, self_, p):
        p[0] = p[1]
        p[0]["inherits"] = {"schema": p[4]["schema"], "table_name": p[4]["table_name"]}

    def ensures(case, old, new, result):
        return new[1][0] is new[1][1]


@contract
class IntoBuckets:
    fn = "dialects.hql.HQL.p_expression_into_buckets"
    props = ["C11"]
    observable = "result"
    cases = {"expr INTO ID ID": {}}

    def build(G, case):
        return dict(args=[G.parser(), production(G, case["_name"], {1: table_with_clauses(G), 3: G.str("n", r"[0-9]+", "4"), 4: ["BUCKETS", "buckets", "Buckets"][G.choice("word", 3)]})])

    def spec(case, self_, p):
        p[0] = p[1]
        p[0]["into_buckets"] = p[3]

    def ensures(case, old, new, result):
        return new[1][0] is new[1][1]


@contract
class ClusteredBy:
    fn = "dialects.hql.HQL.p_expression_clustered"
    props = ["C11"]
    observable = "result"
    cases = {"expr ID by_smthg": {}}

    def build(G, case):
        by = {"by": G.oseq("cols", elem=lambda g, n: g.str(n, NAME))}
        return dict(args=[G.parser(), production(G, case["_name"], {1: table_with_clauses(G), 2: ["CLUSTERED", "clustered", "Clustered"][G.choice("word", 3)], 3: by})])

    def spec(case, self_, p):
        p[0] = p[1]
        p[0]["clustered_by"] = p[3]["by"]

    def ensures(case, old, new, result):
        return new[1][0] is new[1][1]


# ------------------------------------------------------------------ routing of clause keys into the table object
from bounded import c10 as _doc  # noqa: E402

DOC = {k: tuple(v) for k, v in _doc.DOC.items()}
ATTR_OF = {k: a for a, k in _doc.ALIASES.items()}
ROUTED_KEYS = sorted(k for k in DOC if k not in ("dataset", "project", "temp"))


@contract
class PreLoadMods:
    """a clause key captured by the grammar reaches the table object at top level in the mode(s) it is documented
    for and under table_properties in the default mode; name, schema and columns are passed through untouched"""
    fn = "output.table_data.TableData.pre_load_mods"
    props = ["C11", "C10"]
    cases = {"default mode": dict(mode="sql"), "owning mode": dict(mode=None)}

    def build(G, case):
        from simple_ddl_parser.output.table_data import TableData
        key = ROUTED_KEYS[G.choice("key", len(ROUTED_KEYS))]
        mode = case["mode"] or DOC[key][0]
        cls = TableData.get_dialect_class({"output_mode": mode})
        kwargs = {"table_name": G.str("t", NAME), "schema": none_or_str(G, "schema", NAME), "columns": G.oseq("cols", elem=lambda g, n: defcolumn_value(g, n, light=True)),
                  "output_mode": mode, key: G.str("value")}
        return dict(args=[None, cls, kwargs], ghost=dict(key=key, mode=mode))

    def requires(case, cls_, main_cls, kwargs):
        # the internal placeholder of the HQL "FIELDS TERMINATED BY ','" work-around is not a user value
        return kwargs.get("fields_terminated_by") != "_ddl_parser_comma_only_str"

    def ensures(case, old, new, result):
        kw = old[2]
        key = [k for k in kw if k not in ("table_name", "schema", "columns", "output_mode")][0]
        ok = result["table_name"] == kw["table_name"] and result["columns"] == kw["columns"]
        top = [k for k in result if k != "table_properties" and k != "init_data"]
        if case["mode"] == "sql":
            return ok and result["table_properties"][key] == kw[key] and result["init_data"][key] == kw[key] and key not in top
        attr = ATTR_OF.get(key, key)
        return ok and result[attr] == kw[key] and result["init_data"][attr] == kw[key] and key not in result["table_properties"] and attr not in result["table_properties"]
