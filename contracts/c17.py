"""C17 - CREATE SEQUENCE options: contracts on the sequence productions.

The key/value table below is taken from the property statement ("exactly one key per written
option holding the exact integer, False for NO ..., True for a bare flag") and the README's
key names; it is NOT derived from the code."""
from contracts.base import contract
from contracts.lib import IDENT, INTLIT, none_or_str, production

SEQ_KEYS = ["increment", "increment_by", "start", "start_with", "minvalue", "maxvalue", "cache", "noorder", "order"]


def seq_entity(G, name="e"):
    """Inv_expr for a sequence statement: schema + name + any subset of the option keys (values are
    whatever earlier options left there; they must not be touched)."""
    fixed = {"schema": none_or_str(G, name + ".schema"), "sequence_name": G.str(name + ".name", IDENT)}
    maybe = {k: (name + ".has_" + k, G.int(name + "." + k)) for k in SEQ_KEYS}
    return G.record(fixed, maybe)


@contract
class ExpressionSeq:
    fn = "dialects.sql.BaseSQL.p_expression_seq"
    props = ["C17", "C12"]
    cases = {
        "seq_name": dict(key=None, val=None),
        "expr INCREMENT id": dict(key="increment", val="int"),
        "expr INCREMENT BY id": dict(key="increment_by", val="int"),
        "expr START id": dict(key="start", val="int"),
        "expr START WITH id": dict(key="start_with", val="int"),
        "expr MINVALUE id": dict(key="minvalue", val="int"),
        "expr MAXVALUE id": dict(key="maxvalue", val="int"),
        "expr NO MINVALUE": dict(key="minvalue", val=False),
        "expr NO MAXVALUE": dict(key="maxvalue", val=False),
        "expr CACHE id": dict(key="cache", val="int"),
        "expr CACHE": dict(key="cache", val=True),
        "expr NOORDER": dict(key="noorder", val=True),
        "expr ORDER": dict(key="order", val=True),
    }

    def build(G, case):
        alt = case["_name"]
        vals = {1: seq_entity(G)}
        n = len(alt.split())
        if case["val"] == "int":
            vals[n] = G.str("value", INTLIT, "7")
        return dict(args=[G.parser(), production(G, alt, vals)])

    def spec(case, self_, p):
        p[0] = p[1]
        if case["key"] is not None:
            if case["val"] == "int":
                p[0][case["key"]] = int(p[len(p) - 1])
            else:
                p[0][case["key"]] = case["val"]

    def ensures(case, old, new, result):
        # the statement's value is the same object that entered (options accumulate on one entity)
        return result is None and new[1][0] is new[1][1]

    def lift(case, model):
        alt = case["_name"]
        words = alt.split()[1:]
        opt = " ".join(str(model.get("value", "7")) if w == "id" else w for w in words)
        return dict(ddl="CREATE SEQUENCE sq %s;" % opt, key=case["key"],
                    expect=(int(model.get("value", "7")) if case["val"] == "int" else case["val"]))


@contract
class SeqName:
    fn = "dialects.sql.BaseSQL.p_seq_name"
    props = ["C17"]
    cases = {"create_seq id": dict(dotted=False), "create_seq id DOT id": dict(dotted=True)}

    def build(G, case):
        alt = "create_seq id DOT id" if case["dotted"] else "create_seq id"
        return dict(args=[G.parser(), production(G, alt, {1: None})])

    def spec(case, self_, p):
        if case["dotted"]:
            p[0] = {"schema": p[2], "sequence_name": p[4]}
        else:
            p[0] = {"schema": None, "sequence_name": p[2]}
