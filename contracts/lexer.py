"""Contracts on the context-sensitive token typing (DDLParser.t_ID and its helpers).

Contexts are predicates over the eleven attributes kept on self.lexer; they are taken from the
property statements ("column-name position", "sequence options", "inside <...>") and validated
against the valuations the real lexer reaches (bounded runs record every valuation seen).
"""
from contracts.base import contract
from contracts.lib import lexer_flags
from contracts.lib import PARSE_PROPS

# characters t_ID's rule can match (one token never contains white space or quotes)
TID_VALUE = r"[a-zA-Z_,0-9:><\/\\=\-+~%$@#|&?;*()!{}\[\]`]+"
WORD = r"[a-zA-Z_0-9+\-.$#@]+"

# C06: "every grammar keyword except the clause-opening words ... is accepted as a column name"
NOT_A_COLUMN_NAME = ["LIKE", "CONSTRAINT", "FOREIGN", "PRIMARY", "INDEX", "UNIQUE", "CHECK", "WITH", "CLUSTER", "BY",
                     "KEY", "COLLATE", "AUTOINCREMENT"]
SEQUENCE_WORDS = ["INCREMENT", "START", "WITH", "MINVALUE", "MAXVALUE", "CACHE", "NO", "BY", "NOORDER", "ORDER"]


def strip_trailing_comma(v):
    if len(v) > 1 and v.endswith(","):
        return v[:-1]
    return v


@contract
class TIdColumnNamePosition:
    """Directly after the '(' or a ',' of a table's column list every word - keyword-shaped or not -
    is an identifier, reported exactly as written (C06 / C01)."""
    fn = "ddl_parser.DDLParser.t_ID"
    props = PARSE_PROPS
    cases = {"after-LP": dict(last="LP"), "after-COMMA": dict(last="COMMA")}

    def build(G, case):
        flags = lexer_flags(G, is_table=True, is_like=False, is_alter=False, last_token=case["last"], lp_open=G.int("lx.lp_open", 1))
        parser = G.parser(lexer=flags, normalize_names=G.bool("normalize_names"), silent=G.bool("silent"))
        return dict(args=[parser, G.token(G.str("v", TID_VALUE, "order"), "ID")])

    def requires(case, self_, t):
        v = strip_trailing_comma(t.value)
        return v not in ["(", ")", ","] and v.upper() not in NOT_A_COLUMN_NAME

    def spec(case, self_, t):
        t.value = strip_trailing_comma(t.value)
        t.type = "ID"
        self_.lexer.last_token = "ID"
        return t

    def lift(case, model):
        return dict(ddl="CREATE TABLE t (a int, %s int, PRIMARY KEY (%s));" % (model.get("v", "order"), model.get("v", "order")))


@contract
class TIdSequenceMode:
    """Inside CREATE SEQUENCE the ten option words are keywords in every letter case, everything
    else is a plain value (C17 / C05)."""
    fn = "ddl_parser.DDLParser.t_ID"
    props = PARSE_PROPS
    cases = {"option-or-value": {}}

    def build(G, case):
        flags = lexer_flags(G, is_table=False, sequence=True, columns_def=False, after_columns=False, check=False, is_alter=False,
                            is_like=False, last_par=False, lp_open=0, lt_open=0,
                            last_token=G.str("lx.last_token", r"ID|INCREMENT|START|WITH|MINVALUE|MAXVALUE|CACHE|NO|BY|NOORDER|ORDER", "ID"))
        parser = G.parser(lexer=flags)
        return dict(args=[parser, G.token(G.str("v", WORD, "Increment"), "ID")])

    def spec(case, self_, t):
        if t.value.upper() in SEQUENCE_WORDS:
            t.value = t.value.upper()
            t.type = t.value
        else:
            t.type = "ID"
        self_.lexer.last_token = t.type
        return t

    def lift(case, model):
        return dict(ddl="CREATE SEQUENCE sq %s 5;" % model.get("v", "Increment"))


# ------------------------------------------------------------------ evolution of the context flags
@contract
class ParenthesisDepth:
    """lp_open counts the parentheses still open: a closing parenthesis decrements it (never below zero), the one that
    closes the column list switches to the after-columns context; last_par remembers the kind of the last parenthesis"""
    fn = "ddl_parser.DDLParser.set_parenthesis_tokens"
    props = PARSE_PROPS
    cases = {"any-token": {}}

    def build(G, case):
        flags = lexer_flags(G, lp_open=G.int("lx.lp_open", 0))
        return dict(args=[G.parser(lexer=flags), G.token(G.str("v"), G.str("ty", r"[A-Z_]+", "RP"))])

    def spec(case, self_, t):
        if t.type == "RP":
            if self_.lexer.lp_open > 0:
                self_.lexer.lp_open = self_.lexer.lp_open - 1
                if self_.lexer.lp_open == 0:
                    self_.lexer.after_columns = True
            self_.lexer.last_par = "RP"
        elif t.type == "LP":
            self_.lexer.last_par = "LP"


@contract
class OpeningParenthesis:
    """'(' : one more open parenthesis, the column-definition context starts, the token is LP"""
    fn = "ddl_parser.DDLParser.t_ID"
    props = PARSE_PROPS
    cases = {"(": {}}

    def build(G, case):
        flags = lexer_flags(G, lp_open=G.int("lx.lp_open", 0))
        return dict(args=[G.parser(lexer=flags), G.token("(", "ID")])

    def spec(case, self_, t):
        t.type = "LP"
        self_.lexer.lp_open = self_.lexer.lp_open + 1
        self_.lexer.columns_def = True
        self_.lexer.last_token = "LP"
        return t


@contract
class StatementKindFlags:
    """the statement-kind flags follow the keywords: ALTER -> is_alter, LIKE -> is_like, TYPE / DOMAIN / TABLESPACE clear
    is_table, TABLE / INDEX set it (outside ALTER); a comma between column definitions ends a CHECK context"""
    fn = "ddl_parser.DDLParser.set_lexx_tags"
    props = PARSE_PROPS
    cases = {"any-token": {}}

    def build(G, case):
        flags = lexer_flags(G, lp_open=G.int("lx.lp_open", 0))
        types = ["ALTER", "LIKE", "TYPE", "DOMAIN", "TABLESPACE", "TABLE", "INDEX", "COMMA", "RP", "LP", "ID", "CHECK", "CREATE"]
        return dict(args=[G.parser(lexer=flags), G.token(G.str("v"), types[G.choice("type", len(types))])])

    def spec(case, self_, t):
        lx = self_.lexer
        if t.type == "RP":
            if lx.lp_open > 0:
                lx.lp_open = lx.lp_open - 1
                if lx.lp_open == 0:
                    lx.after_columns = True
            lx.last_par = "RP"
        elif t.type == "LP":
            lx.last_par = "LP"
        if t.type == "ALTER":
            lx.is_alter = True
        if t.type == "COMMA" and lx.lp_open == 1 and lx.is_table:
            lx.check = False
        if t.type == "LIKE":
            lx.is_like = True
        elif t.type in ["TYPE", "DOMAIN", "TABLESPACE"]:
            lx.is_table = False
        elif t.type in ["TABLE", "INDEX"] and not lx.is_alter:
            lx.is_table = True


@contract
class ContextOpeningKeywords:
    """SEQUENCE opens the sequence context, CHECK opens the CHECK context (a flag: it lasts until the comma that ends the
    column / constraint, whatever is nested inside the expression); no other token type touches the context here"""
    fn = "ddl_parser.DDLParser.set_lexer_tags"
    props = PARSE_PROPS
    cases = {"any-token": {}}

    def build(G, case):
        flags = lexer_flags(G, lp_open=G.int("lx.lp_open", 0))
        return dict(args=[G.parser(lexer=flags), G.token(G.str("v"), G.str("ty", r"[A-Z_]+", "CHECK"))])

    def spec(case, self_, t):
        if t.type == "SEQUENCE":
            self_.lexer.sequence = True
        elif t.type == "CHECK":
            self_.lexer.check = True


@contract
class ResetLexerFlags:
    """set_default_flags_in_lexer puts every context flag of the lexer back to its start value (False, the `<` counter
    to 0), whatever it held"""
    fn = "parser.Parser.set_default_flags_in_lexer"
    props = PARSE_PROPS
    cases = {"any lexer state": {}}

    def build(G, case):
        return dict(args=[G.parser(lexer=lexer_flags(G))])

    def spec(case, self_):
        for name in ("is_table", "sequence", "last_token", "columns_def", "after_columns", "check", "last_par", "lp_open", "is_alter", "is_like"):
            setattr(self_.lexer, name, False)
        self_.lexer.lt_open = 0
