"""C09 - parameterised and nested column types stay whole.

Spec from the statement: the nesting counter equals the number of '<' seen minus the number of '>'
seen, a token that contains '<' opens a bracket type (LT), a token with only '>' closes (RT),
a comma is an inner comma (COMMAT) exactly while the counter is positive, the type text is the
in-order concatenation of its tokens, sizes (n), (p,s), (max), (n CHAR), (*,s) are reported."""
from contracts.base import contract
from contracts.lib import IDENT, DIGITS, lexer_flags, production
from contracts.lib import PARSE_PROPS

TID_VALUE = r"[a-zA-Z_,0-9:><\/\\=\-+~%$@#|&?;*()!{}\[\]`]+"


def count_char(s, c):
    return s.count(c)


@contract
class BracketCounter:
    fn = "ddl_parser.DDLParser.get_tag_symbol_value_and_increment"
    props = PARSE_PROPS
    cases = {"outside-check": {}}

    def build(G, case):
        flags = lexer_flags(G, check=False, lt_open=G.int("lx.lt_open", 0))
        return dict(args=[G.parser(lexer=flags), G.token(G.str("v", TID_VALUE, "ARRAY<INT>"), G.str("ty", r"[A-Z_]+", "ID"))])

    def spec(case, self_, t):
        if "<" in t.value:
            t.type = "LT"
        elif ">" in t.value:
            t.type = "RT"
        self_.lexer.lt_open = self_.lexer.lt_open + count_char(t.value, "<") - count_char(t.value, ">")
        return t

    def lift(case, model):
        return dict(ddl="CREATE TABLE t (a int, x %s, b int);" % model.get("v", "ARRAY<INT>"))


@contract
class TagSymbolsDetected:
    """every token containing < or > goes through the bracket counter (outside CHECK)"""
    fn = "ddl_parser.DDLParser.parse_tags_symbols"
    props = PARSE_PROPS
    cases = {"outside-check": {}}

    def build(G, case):
        flags = lexer_flags(G, check=False, lt_open=G.int("lx.lt_open", 0))
        return dict(args=[G.parser(lexer=flags), G.token(G.str("v", TID_VALUE, "a>"), "ID")])

    def spec(case, self_, t):
        if "<" in t.value or ">" in t.value:
            if "<" in t.value:
                t.type = "LT"
            else:
                t.type = "RT"
            self_.lexer.lt_open = self_.lexer.lt_open + count_char(t.value, "<") - count_char(t.value, ">")
            return t
        return None


@contract
class CommaInsideBrackets:
    fn = "ddl_parser.DDLParser.commat_type"
    props = PARSE_PROPS
    cases = {"any-token": {}}

    def build(G, case):
        flags = lexer_flags(G, lt_open=G.int("lx.lt_open", 0))
        return dict(args=[G.parser(lexer=flags), G.token(G.str("v"), G.str("ty", r"[A-Z_]+", "COMMA"))])

    def spec(case, self_, t):
        if t.type == "COMMA" and self_.lexer.lt_open > 0:
            t.type = "COMMAT"


def tid_piece(i):
    if i == "[]" or i == ",":
        return i
    return " " + i


@contract
class PTid:
    fn = "dialects.sql.BaseSQL.p_tid"
    props = PARSE_PROPS
    cases = {"LT": dict(first=True), "LT id": dict(first=True), "tid LT": dict(first=False), "tid id": dict(first=False),
             "tid COMMAT": dict(first=False), "tid RT": dict(first=False)}

    def build(G, case):
        alt = case["_name"]
        syms = alt.split()
        vals = {}
        for i, s in enumerate(syms, 1):
            if s == "tid":
                vals[i] = [G.str("acc", None, "STRUCT<")]
            elif s in ("LT", "RT"):
                vals[i] = G.str("tok%d" % i, TID_VALUE, "<")
            elif s == "COMMAT":
                vals[i] = ","
        return dict(args=[G.parser(), production(G, alt, vals)])

    def spec(case, self_, p):
        if case["first"]:
            p[0] = [p[1]]
        else:
            p[0] = p[1]
        if len(p) == 3:
            p[0][0] = p[0][0] + tid_piece(p[2])

    def ensures(case, old, new, result):
        p = new[1]
        return case["first"] or p[0] is p[1]


@contract
class GetSize:
    fn = "dialects.sql.Column.get_size"
    props = PARSE_PROPS
    cases = {"(n)": dict(form="n"), "(max)": dict(form="max"), "(p,s)": dict(form="ps"), "(*,s)": dict(form="star"), "(n CHAR)": dict(form="nchar")}

    def build(G, case):
        col = {"name": G.str("name", IDENT), "type": G.str("type"), "size": None}
        f = case["form"]
        if f == "n":
            pl = [None, col, G.str("n", DIGITS, "10")]
        elif f == "max":
            pl = [None, col, "max"]
        elif f == "nchar":
            pl = [None, col, G.str("n_unit", r"[0-9]+ [A-Za-z]+", "30 CHAR")]
        elif f == "ps":
            pl = [None, col, G.str("p", DIGITS, "10"), ",", G.str("s", DIGITS, "2")]
        else:
            pl = [None, col, "*", ",", G.str("s", DIGITS, "2")]
        return dict(args=[pl])

    def spec(case, p_list):
        f = case["form"]
        if f == "n":
            return int(p_list[2])
        if f == "max" or f == "nchar":
            return p_list[2]
        if f == "ps":
            return (int(p_list[2]), int(p_list[4]))
        return ("*", int(p_list[4]))


def column_value(G, name="col"):
    return {"name": G.str(name + ".name", IDENT), "type": G.str(name + ".type", r"[!-~]([ -~]*[!-~])?", "varchar"), "size": None}


@contract
class PColumnSizes:
    """column LP ... RP: the size forms of the statement, on a column value as built by `id c_type`"""
    fn = "dialects.sql.Column.p_column"
    props = PARSE_PROPS
    cases = {
        "column LP id RP": dict(form="n"),
        "column LP id RP max": dict(form="max", alt="column LP id RP"),
        "column LP id id RP": dict(form="nchar"),
        "column LP id COMMA id RP": dict(form="ps"),
        "column LP id COMMA id RP star": dict(form="star", alt="column LP id COMMA id RP"),
    }

    def build(G, case):
        alt = case.get("alt") or case["_name"]
        f = case["form"]
        vals = {1: column_value(G)}
        if f == "n":
            vals[3] = G.str("n", DIGITS, "10")
        elif f == "max":
            vals[3] = "max"
        elif f == "nchar":
            vals[3] = G.str("n", DIGITS, "30")
            vals[4] = G.str("unit", r"[A-Za-z]+", "CHAR")
        elif f == "ps":
            vals[3] = G.str("p", DIGITS, "10")
            vals[5] = G.str("s", DIGITS, "2")
        else:
            vals[3] = "*"
            vals[5] = G.str("s", DIGITS, "2")
        return dict(args=[G.parser(), production(G, alt, vals)])

    def spec(case, self_, p):
        f = case["form"]
        p[0] = p[1]
        if f == "n":
            p[0]["size"] = int(p[3])
        elif f == "max":
            p[0]["size"] = "max"
        elif f == "nchar":
            p[0]["size"] = p[3] + " " + p[4]
        elif f == "ps":
            p[0]["size"] = (int(p[3]), int(p[5]))
        else:
            p[0]["size"] = ("*", int(p[5]))

    def ensures(case, old, new, result):
        return new[1][0] is new[1][1]

    def lift(case, model):
        f = case["form"]
        inner = {"n": "%s" % model.get("n", "10"), "max": "max", "nchar": "%s %s" % (model.get("n", "30"), model.get("unit", "CHAR")),
                 "ps": "%s,%s" % (model.get("p", "10"), model.get("s", "2")), "star": "*,%s" % model.get("s", "2")}[f]
        return dict(ddl="CREATE TABLE t (a int, x varchar(%s) NOT NULL, b int);" % inner)


@contract
class PCTypeAngle:
    """c_type : tid | c_type tid | id id tid...: the bracket part assembled by p_tid is appended to the type text in order"""
    fn = "dialects.sql.Column.p_c_type"
    props = PARSE_PROPS
    observable = "result"
    cases = {"tid": dict(kind="tid"), "c_type tid": dict(kind="ctype_tid")}

    def build(G, case):
        tid = [G.str("tid", r"[A-Za-z]+<[A-Za-z0-9_:<>, ]*>", "ARRAY<INT>")]
        if case["kind"] == "tid":
            return dict(args=[G.parser(), production(G, "tid", {1: tid})])
        return dict(args=[G.parser(), production(G, "c_type tid", {1: {"type": G.str("base", r"[A-Za-z][A-Za-z0-9_]*", "STRUCT")}, 2: tid})])

    def requires(case, self_, p):
        t = p[len(p) - 1][0]
        return "[]" not in t

    def spec(case, self_, p):
        if case["kind"] == "tid":
            p[0] = {"type": p[1][0]}
        else:
            p[0] = {"type": p[1]["type"] + " " + p[2][0]}
