"""Tiny translator from look-around-free Python `re` patterns to z3 regular expressions.
Supports literals, escapes (\\d \\w \\s \\. ...), [...] classes with ranges and negation,
., *, +, ?, {n}, {m,n}, |, ( ), (?: ). Anything else raises Unsupported."""
import z3

from .values import Unsupported

_S = z3.StringSort()
_RS = z3.ReSort(_S)


def _chars(cs):
    cs = sorted(set(cs))
    if not cs:
        return z3.Empty(_RS)
    parts, i = [], 0
    while i < len(cs):
        j = i
        while j + 1 < len(cs) and ord(cs[j + 1]) == ord(cs[j]) + 1:
            j += 1
        parts.append(z3.Range(cs[i], cs[j]) if j > i else z3.Re(cs[i]))
        i = j + 1
    return parts[0] if len(parts) == 1 else z3.Union(*parts)


_ASCII = [chr(i) for i in range(0, 128)]
_CLASSES = {
    "d": [c for c in _ASCII if c.isdigit()],
    "w": [c for c in _ASCII if c.isalnum() or c == "_"],
    "s": list(" \t\n\r\x0b\x0c"),
}


class _P:
    def __init__(self, pat):
        self.p, self.i = pat, 0

    def peek(self):
        return self.p[self.i] if self.i < len(self.p) else None

    def alt(self):
        branches = [self.seq()]
        while self.peek() == "|":
            self.i += 1
            branches.append(self.seq())
        return branches[0] if len(branches) == 1 else z3.Union(*branches)

    def seq(self):
        items = []
        while self.peek() is not None and self.peek() not in "|)":
            items.append(self.quant())
        if not items:
            return z3.Re("")
        return items[0] if len(items) == 1 else z3.Concat(*items)

    def quant(self):
        a = self.atom()
        while True:
            c = self.peek()
            if c == "*":
                self.i += 1
                a = z3.Star(a)
            elif c == "+":
                self.i += 1
                a = z3.Plus(a)
            elif c == "?":
                self.i += 1
                a = z3.Option(a)
            elif c == "{":
                j = self.p.index("}", self.i)
                body = self.p[self.i + 1:j]
                self.i = j + 1
                if "," in body:
                    lo, hi = body.split(",")
                    lo = int(lo or 0)
                    a = z3.Loop(a, lo, int(hi)) if hi else z3.Concat(z3.Loop(a, lo, lo), z3.Star(a))
                else:
                    a = z3.Loop(a, int(body), int(body))
            else:
                return a
            if self.peek() == "?":
                raise Unsupported("lazy quantifier")

    def escape(self):
        c = self.p[self.i]
        self.i += 1
        if c in _CLASSES:
            return _CLASSES[c]
        if c in "DWS":
            base = set(_CLASSES[c.lower()])
            return [x for x in _ASCII if x not in base]
        if c in "bBAZ" or c.isdigit():
            raise Unsupported("regex escape \\%s" % c)
        return [{"n": "\n", "t": "\t", "r": "\r"}.get(c, c)]

    def atom(self):
        c = self.p[self.i]
        if c == "(":
            self.i += 1
            if self.p.startswith("?:", self.i):
                self.i += 2
            elif self.peek() == "?":
                raise Unsupported("regex group extension")
            r = self.alt()
            if self.peek() != ")":
                raise Unsupported("regex: unbalanced group")
            self.i += 1
            return r
        if c == "[":
            self.i += 1
            neg = False
            if self.peek() == "^":
                neg = True
                self.i += 1
            cs = []
            first = True
            while self.peek() != "]" or first:
                first = False
                ch = self.p[self.i]
                self.i += 1
                if ch == "\\":
                    got = self.escape()
                    if len(got) > 1:
                        cs.extend(got)
                        continue
                    ch = got[0]
                if self.peek() == "-" and self.i + 1 < len(self.p) and self.p[self.i + 1] != "]":
                    self.i += 1
                    hi = self.p[self.i]
                    self.i += 1
                    if hi == "\\":
                        hi = self.escape()[0]
                    cs.extend(chr(k) for k in range(ord(ch), ord(hi) + 1))
                else:
                    cs.append(ch)
            self.i += 1
            if neg:
                cs = [x for x in _ASCII if x not in set(cs)]
            return _chars(cs)
        if c == ".":
            self.i += 1
            return _chars([x for x in _ASCII if x != "\n"])
        if c == "\\":
            self.i += 1
            return _chars(self.escape())
        if c in "^$":
            raise Unsupported("regex anchor")
        self.i += 1
        return z3.Re(c)


def regex_to_z3(pat):
    p = _P(pat)
    r = p.alt()
    if p.i != len(pat):
        raise Unsupported("regex: trailing input")
    return r
