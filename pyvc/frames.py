"""Frame / ownership / initialisation analyser over the real ASTs (DESIGN 2.8).

Every clause is an obligation `frame:<clause>`; a failed clause carries the offending AST
node (file:line) as its counter-example (there is no input to replay: the VIOLATION line then
ends with no-failing-input-found unless a dynamic demonstrator is attached).
Over-approximate: flow-insensitive inside expressions, context-insensitive across calls;
the definite-assignment part is a proper must-analysis over the statement structure.
"""
import ast
import json
import os

from .program import PKG

VERIF = os.path.dirname(os.path.dirname(os.path.abspath(__file__)))
MUT = {"append", "extend", "update", "pop", "insert", "remove", "clear", "setdefault", "sort", "reverse", "__setitem__", "add", "discard"}
TOP = None  # "all attributes" element for must-sets (used after return / raise)


def attr_path(n):
    parts = []
    while isinstance(n, ast.Attribute):
        parts.append(n.attr)
        n = n.value
    if isinstance(n, ast.Name):
        parts.append(n.id)
        return tuple(reversed(parts))
    return None


def key_of(path):
    """('self','lexer','is_table') -> ('lexer','is_table'); ('self','tables') -> ('tables',)"""
    p = path[1:]
    if p and p[0] == "lexer" and len(p) > 1:
        return p[:2]
    return p[:1]


class ClassView:
    """methods of a class flattened over its MRO (first definition wins)"""

    def __init__(self, prog, clsname):
        self.prog, self.clsname = prog, clsname
        self.methods = {}
        for k in prog.mro(clsname):
            try:
                c = prog.find_class(k)
            except KeyError:
                continue
            for name, fref in c.methods.items():
                self.methods.setdefault(name, fref)

    def where(self, fref, node):
        return "%s:%d (%s)" % (fref.module[len(PKG) + 1:].replace(".", "/") + ".py", getattr(node, "lineno", 0), fref.qualname)


class Events(ast.NodeVisitor):
    """read / write / mutate events on self.<attr> in evaluation order for one statement or expression"""

    def __init__(self, view):
        self.view = view
        self.ev = []   # (kind, key, node) kind: R W M C(call self.m) P(ply callback) G(global ply state read)

    def visit_Attribute(self, n):
        p = attr_path(n)
        if p and p[0] == "self" and len(p) >= 2:
            if isinstance(n.ctx, (ast.Store, ast.Del)):
                # writing self.lexer.flag reads self.lexer
                if len(p) > 2:
                    self.ev.append(("R", p[1:2], n))
                    if p[1] == "lexer":
                        self.ev.append(("W", p[1:3], n))
                    else:
                        self.ev.append(("M", p[1:2], n))
                else:
                    self.ev.append(("W", p[1:2], n))
            else:
                self.ev.append(("R", key_of(p), n))
                if len(p) > 2 and p[1] == "lexer":
                    self.ev.append(("R", ("lexer",), n))
            return
        if p and len(p) == 2 and p[0] in ("yacc", "lex") and isinstance(n.ctx, ast.Load):
            self.ev.append(("G", p, n))
        self.generic_visit(n)

    def visit_Call(self, n):
        for a in n.args:
            self.visit(a)
        for k in n.keywords:
            self.visit(k.value)
        f = n.func
        p = attr_path(f) if isinstance(f, ast.Attribute) else None
        if p and p[0] == "self":
            if len(p) == 2 and p[1] in self.view.methods:
                self.ev.append(("C", p[1], n))
                return
            if len(p) >= 3 and p[1] == "yacc" and p[2] == "parse":
                self.ev.append(("R", ("yacc",), n))
                self.ev.append(("P", None, n))
                return
            if len(p) >= 3 and p[-1] in MUT:
                self.ev.append(("R", key_of(p[:-1]), n))
                self.ev.append(("M", key_of(p[:-1]), n))
                return
        # getattr(self, "name"[, default]) / hasattr(self, "name") read the attribute (a default does not make the read
        # harmless: what a previous run left there is then used); setattr(self, "name", v) with a literal name writes it
        if isinstance(f, ast.Name) and f.id in ("getattr", "hasattr") and len(n.args) >= 2 and isinstance(n.args[1], ast.Constant) and isinstance(n.args[1].value, str):
            tp = attr_path(n.args[0]) if isinstance(n.args[0], (ast.Attribute, ast.Name)) else None
            if tp == ("self",) or (isinstance(n.args[0], ast.Name) and n.args[0].id == "self"):
                self.ev.append(("R", (n.args[1].value,), n))
                return
        if isinstance(f, ast.Name) and f.id == "setattr" and len(n.args) == 3 and isinstance(n.args[0], ast.Name) and n.args[0].id == "self" \
                and isinstance(n.args[1], ast.Constant) and isinstance(n.args[1].value, str):
            self.ev.append(("W", (n.args[1].value,), n))
            return
        if isinstance(f, ast.Name) and f.id == "setattr" and len(n.args) == 3:
            tp = attr_path(n.args[0])
            if tp and tp[0] == "self":
                name = n.args[1]
                self.ev.append(("W*", (tp[1:], name), n))
                return
        self.visit(f)

    def visit_Subscript(self, n):
        p = attr_path(n.value)
        if p and p[0] == "self" and isinstance(n.ctx, (ast.Store, ast.Del)):
            self.ev.append(("R", key_of(p), n))
            self.ev.append(("M", key_of(p), n))
            self.visit(n.slice)
            return
        self.generic_visit(n)

    def visit_Assign(self, n):
        self.visit(n.value)
        for t in n.targets:
            self.visit(t)

    def visit_AnnAssign(self, n):
        if n.value is not None:
            self.visit(n.value)
            self.visit(n.target)

    def visit_AugAssign(self, n):
        self.visit(n.value)
        p = attr_path(n.target)
        if p and p[0] == "self":
            self.ev.append(("R", key_of(p), n))
            self.ev.append(("W", key_of(p), n))
        else:
            self.visit(n.target)

    def visit_Lambda(self, n):
        self.generic_visit(n)

    def visit_FunctionDef(self, n):
        for s in n.body:
            self.visit(s)


def events_of(view, node):
    v = Events(view)
    v.visit(node)
    return v.ev


class InitAnalysis:
    """summary-based definite-assignment analysis of self attributes"""

    def __init__(self, view, reset_attrs):
        self.view = view
        self.summ = {}      # method -> (RBW: {key: where}, MW: set | TOP)
        self.stack = []
        self.reset_attrs = reset_attrs   # keys written by setattr loops: resolved statically from the attrs list
        self.maywrite = {}

    def callbacks(self):
        return [m for m in self.view.methods if m.startswith("t_") or m.startswith("p_")]

    def summary(self, name):
        if name in self.summ:
            return self.summ[name]
        if name in self.stack:
            return ({}, set())
        self.stack.append(name)
        fref = self.view.methods[name]
        rbw = {}
        saved = getattr(self, "returns", None)
        self.returns = []
        self.nonempty = {t.id for n in ast.walk(fref.node) if isinstance(n, ast.Assign) and isinstance(n.value, (ast.List, ast.Tuple)) and n.value.elts
                         for t in n.targets if isinstance(t, ast.Name)}
        A = self.block(fref.node.body, set(), rbw, fref)
        for r in self.returns:
            A = self.meet(A, r)
        if A is TOP:
            A = set()     # never returns normally
        self.returns = saved
        self.stack.pop()
        self.summ[name] = (rbw, A)
        return self.summ[name]

    def apply(self, evs, A, rbw, fref):
        for kind, key, node in evs:
            if kind == "R":
                if A is not TOP and key not in A:
                    rbw.setdefault(key, self.view.where(fref, node))
            elif kind == "W":
                self.maywrite.setdefault(key, self.view.where(fref, node))
                if A is not TOP:
                    A.add(key)
            elif kind == "W*":
                (objpath, namenode) = key
                if objpath == ("lexer",) or objpath[:1] == ("lexer",):
                    for k in self.reset_attrs:
                        self.maywrite.setdefault(("lexer", k), self.view.where(fref, node))
                        if A is not TOP:
                            A.add(("lexer", k))
            elif kind == "M":
                self.maywrite.setdefault(key, self.view.where(fref, node))
            elif kind == "C":
                r2, a2 = self.summary(key)
                for k, w in r2.items():
                    if A is not TOP and k not in A:
                        rbw.setdefault(k, w)
                if A is not TOP:
                    A |= a2
            elif kind == "P":
                for cb in self.callbacks():
                    r2, _ = self.summary(cb)
                    for k, w in r2.items():
                        if A is not TOP and k not in A:
                            rbw.setdefault(k, w)
        return A

    def meet(self, a, b):
        if a is TOP:
            return b
        if b is TOP:
            return a
        return a & b

    def block(self, stmts, A, rbw, fref):
        for s in stmts:
            if A is TOP:
                # unreachable code after return: still collect may-writes
                A2 = self.stmt(s, TOP, rbw, fref)
                continue
            A = self.stmt(s, A, rbw, fref)
        return A

    def stmt(self, s, A, rbw, fref):
        cp = (lambda x: x if x is TOP else set(x))
        if isinstance(s, ast.If):
            A = self.apply(events_of(self.view, s.test), A, rbw, fref)
            a1 = self.block(s.body, cp(A), rbw, fref)
            a2 = self.block(s.orelse, cp(A), rbw, fref)
            return self.meet(a1, a2)
        if isinstance(s, (ast.For, ast.While)):
            if isinstance(s, ast.For):
                A = self.apply(events_of(self.view, s.iter), A, rbw, fref)
                inner = cp(A)
                inner = self.apply(events_of(self.view, s.target), inner, rbw, fref)
            else:
                A = self.apply(events_of(self.view, s.test), A, rbw, fref)
                inner = cp(A)
            nonempty_iter = isinstance(s, ast.For) and (
                (isinstance(s.iter, (ast.List, ast.Tuple)) and s.iter.elts) or (isinstance(s.iter, ast.Name) and s.iter.id in self.nonempty))
            saved_nonempty = self.nonempty
            a_body = self.block(s.body, inner, rbw, fref)
            self.nonempty = saved_nonempty
            self.block(s.orelse, cp(A), rbw, fref)
            if nonempty_iter and a_body is not TOP and not any(isinstance(n, (ast.Break, ast.Continue)) for b in s.body for n in ast.walk(b)):
                return a_body
            return A
        if isinstance(s, ast.Try):
            a0 = cp(A)
            self.block(s.body, cp(A), rbw, fref)
            for h in s.handlers:
                self.block(h.body, cp(A), rbw, fref)
            self.block(s.orelse, cp(A), rbw, fref)
            self.block(s.finalbody, cp(A), rbw, fref)
            return a0
        if isinstance(s, ast.With):
            for it in s.items:
                A = self.apply(events_of(self.view, it.context_expr), A, rbw, fref)
            return self.block(s.body, A, rbw, fref)
        if isinstance(s, (ast.Return, ast.Raise)):
            if getattr(s, "value", None) is not None:
                A = self.apply(events_of(self.view, s.value), A, rbw, fref)
            if isinstance(s, ast.Raise) and s.exc is not None:
                A = self.apply(events_of(self.view, s.exc), A, rbw, fref)
            if isinstance(s, ast.Return) and A is not TOP:
                self.returns.append(set(A))
            return TOP
        if isinstance(s, (ast.FunctionDef, ast.ClassDef)):
            return A
        return self.apply(events_of(self.view, s), A, rbw, fref)


def reset_list(view):
    """attribute names reset by set_default_flags_in_lexer (read from the real AST)"""
    f = view.methods.get("set_default_flags_in_lexer")
    names, direct = [], []
    if f is None:
        return names, direct
    for n in ast.walk(f.node):
        if isinstance(n, ast.Assign) and isinstance(n.value, ast.List) and all(isinstance(e, ast.Constant) for e in n.value.elts):
            names.extend(e.value for e in n.value.elts)
        if isinstance(n, ast.Attribute) and isinstance(n.ctx, ast.Store):
            p = attr_path(n)
            if p and p[:2] == ("self", "lexer") and len(p) == 3:
                direct.append(p[2])
    return names, direct


def ob(name, ok, detail, functions, pid):
    return dict(name="frame:" + name, contract="frame:" + name, fn="frame", props=[pid], frame=True, functions=sorted(functions),
                status="discharged" if ok else "refuted", solver="frame-analysis", seconds=0.0, detail=detail)


def reachable(view, roots):
    seen, todo = set(), list(roots)
    while todo:
        m = todo.pop()
        if m in seen or m not in view.methods:
            continue
        seen.add(m)
        for kind, key, node in events_of(view, view.methods[m].node):
            if kind == "C":
                todo.append(key)
            if kind == "P":
                todo.extend(k for k in view.methods if k.startswith("t_") or k.startswith("p_"))
    return seen


def names_used(node, name):
    return [n for n in ast.walk(node) if isinstance(n, ast.Name) and n.id == name]


def run(prog, pid, clauses):
    view = ClassView(prog, "DDLParser")
    out = []
    rl, direct = reset_list(view)
    ia = InitAnalysis(view, rl)
    run_methods = reachable(view, ["run"])
    ctor_methods = reachable(view, ["__init__"])
    fkeys = lambda ms: {view.methods[m].key for m in ms if m in view.methods}

    if "init-before-use" in clauses:
        rbw, _ = ia.summary("run")
        # attributes written / mutated anywhere on the run path
        for m in run_methods:
            ia.summary(m)
        carried = {k: w for k, w in rbw.items() if k in ia.maywrite}
        allow = {}
        # idempotent conditional write: self.lexer.state is written under a guard and with a value that depend only on
        # the constant self.data (checked: the writing function's only self-read besides lexer is its parameter flow from self.data)
        if ("lexer", "state") in carried:
            f = view.methods.get("process_regex_input")
            reads = {k for kind, k, n in events_of(view, f.node) if kind == "R"} if f else {("?",)}
            if reads <= {("lexer",)}:
                allow[("lexer", "state")] = "written only by process_regex_input from its argument (derived from the constant self.data)"
        bad = {k: w for k, w in carried.items() if k not in allow}
        out.append(ob("run:init-before-use", not bad,
                      dict(carried_state={".".join(k): dict(first_read=w, written_at=ia.maywrite[k]) for k, w in bad.items()},
                           allowed={".".join(k): v for k, v in allow.items()},
                           checked_attributes=sorted(".".join(k) for k in ia.maywrite)) if True else None,
                      fkeys(run_methods), pid))

    if "class-level-state" in clauses:
        bad = []
        funcs = set()
        for mod, classes in prog.classes.items():
            if not mod.startswith(PKG):
                continue
            for cname, c in classes.items():
                shared = {}
                for st in c.node.body:
                    tgt = None
                    if isinstance(st, ast.Assign) and len(st.targets) == 1 and isinstance(st.targets[0], ast.Name):
                        tgt, val = st.targets[0].id, st.value
                    elif isinstance(st, ast.AnnAssign) and isinstance(st.target, ast.Name) and st.value is not None:
                        tgt, val = st.target.id, st.value
                    if tgt and isinstance(val, (ast.List, ast.Dict, ast.Set, ast.ListComp, ast.DictComp)) or (tgt and isinstance(val, ast.Call) and isinstance(val.func, ast.Name) and val.func.id in ("list", "dict", "set", "defaultdict")):
                        shared[tgt] = st.lineno
                if not shared:
                    continue
                v2 = ClassView(prog, cname)
                init_written = set()
                if "__init__" in v2.methods:
                    init_written = {k[0] for kind, k, n in events_of(v2, v2.methods["__init__"].node) if kind == "W"}
                for mname, fref in v2.methods.items():
                    funcs.add(fref.key)
                    for kind, k, n in events_of(v2, fref.node):
                        if kind == "M" and k[0] in shared and k[0] not in init_written:
                            bad.append("%s.%s (class-level mutable defined at %s:%d) mutated through an instance at %s" % (
                                cname, k[0], mod, shared[k[0]], v2.where(fref, n)))
        # ... and through the class itself: ClassName.attr[...] = v, ClassName.attr.update(...), ClassName.attr = v,
        # cls.attr / type(self).attr likewise (a per-class cache shared by every instance)
        class_attrs = {}
        for mod, classes in prog.classes.items():
            if not mod.startswith(PKG):
                continue
            for cname, c in classes.items():
                for st in c.node.body:
                    if isinstance(st, ast.Assign):
                        for t in st.targets:
                            if isinstance(t, ast.Name):
                                class_attrs.setdefault(cname, set()).add(t.id)
                    elif isinstance(st, ast.AnnAssign) and isinstance(st.target, ast.Name) and st.value is not None:
                        class_attrs.setdefault(cname, set()).add(st.target.id)

        def class_rooted(n):
            """(class name or 'cls'/'type(self)', attr) if n is ClassName.attr / cls.attr / type(self).attr"""
            if not isinstance(n, ast.Attribute):
                return None
            v = n.value
            if isinstance(v, ast.Name) and (v.id in class_attrs or v.id == "cls"):
                return (v.id, n.attr)
            if isinstance(v, ast.Call) and isinstance(v.func, ast.Name) and v.func.id == "type":
                return ("type(self)", n.attr)
            if isinstance(v, ast.Attribute) and v.attr == "__class__":
                return ("__class__", n.attr)
            return None
        # class decorators run once, at import time, before any parser exists: not on the construct / run path
        decorators = set()
        for mod, tree in prog.trees.items():
            if mod.startswith(PKG):
                for cd in ast.walk(tree):
                    if isinstance(cd, ast.ClassDef):
                        for d in cd.decorator_list:
                            f = d.func if isinstance(d, ast.Call) else d
                            if isinstance(f, ast.Name):
                                decorators.add(f.id)
        for mod, tree in prog.trees.items():
            if not mod.startswith(PKG):
                continue
            skip = set()
            for fn in ast.walk(tree):
                if isinstance(fn, ast.FunctionDef) and fn.name in decorators:
                    skip.update(id(x) for x in ast.walk(fn))
            for fn in ast.walk(tree):
                if not isinstance(fn, (ast.FunctionDef, ast.AsyncFunctionDef)) or id(fn) in skip:
                    continue
                for n in ast.walk(fn):
                    hit = None
                    if isinstance(n, ast.Subscript) and isinstance(n.ctx, (ast.Store, ast.Del)):
                        hit = class_rooted(n.value)
                    elif isinstance(n, ast.Attribute) and isinstance(n.ctx, (ast.Store, ast.Del)):
                        hit = class_rooted(n)
                    elif isinstance(n, ast.Call) and isinstance(n.func, ast.Attribute) and n.func.attr in MUT:
                        hit = class_rooted(n.func.value)
                    elif isinstance(n, ast.AugAssign):
                        hit = class_rooted(n.target) or (class_rooted(n.target.value) if isinstance(n.target, ast.Subscript) else None)
                    if hit and (hit[0] not in class_attrs or hit[1] in class_attrs[hit[0]]):
                        bad.append("%s.%s (class-level state) written through the class in %s.%s line %d" % (hit[0], hit[1], mod, fn.name, n.lineno))
        # ... and state attached to any object that is not the function's own: an attribute is assigned (or set with
        # setattr) only on `self` (and what hangs off it), on the lexer token handed to a token rule (`t`), or on an object
        # CONSTRUCTED in the same function (bound from a call of a Capitalised name / ...parse_args()).  Anything else - a
        # class fetched from a registry, a module, a function object, an argument - is shared by every parser of the process.
        for mod, tree in prog.trees.items():
            if not mod.startswith(PKG) or mod.endswith(".parsetab"):
                continue
            skip = set()
            for fn in ast.walk(tree):
                if isinstance(fn, ast.FunctionDef) and fn.name in decorators:
                    skip.update(id(x) for x in ast.walk(fn))
            for fn in ast.walk(tree):
                if not isinstance(fn, (ast.FunctionDef, ast.AsyncFunctionDef)) or id(fn) in skip:
                    continue
                constructed = set()
                for n in ast.walk(fn):
                    if isinstance(n, ast.Assign) and isinstance(n.value, ast.Call):
                        f = n.value.func
                        nm = f.id if isinstance(f, ast.Name) else (f.attr if isinstance(f, ast.Attribute) else "")
                        if nm[:1].isupper() or nm in ("parse_args", "init", "deepcopy", "copy"):
                            constructed.update(t.id for t in n.targets if isinstance(t, ast.Name))
                for n in ast.walk(fn):
                    base = None
                    if isinstance(n, ast.Attribute) and isinstance(n.ctx, (ast.Store, ast.Del)):
                        base = n.value
                    elif isinstance(n, ast.Call) and isinstance(n.func, ast.Name) and n.func.id in ("setattr", "delattr") and n.args:
                        base = n.args[0]
                    if base is None:
                        continue
                    while isinstance(base, (ast.Attribute, ast.Subscript)):
                        base = base.value
                    if isinstance(base, ast.Name) and (base.id in ("self", "t") or base.id in constructed):
                        continue
                    bad.append("attribute set on an object that is not the function's own (%s) in %s.%s line %d: state shared beyond this parser" % (
                        ast.unparse(base)[:40], mod, fn.name, n.lineno))
        out.append(ob("class-level-mutable-state", not bad, dict(offenders=sorted(set(bad))), funcs, pid))

    if "global-purity" in clauses:
        bad = []
        for m in sorted(run_methods | ctor_methods):
            fref = view.methods[m]
            for kind, k, n in events_of(view, fref.node):
                if kind == "G" and k[1] in ("parse", "lexer", "token", "input", "parser"):
                    bad.append("%s reads process-global PLY state %s at %s" % (m, ".".join(k), view.where(fref, n)))
            for n in ast.walk(fref.node):
                if isinstance(n, (ast.Global, ast.Nonlocal)):
                    bad.append("%s declares %s at %s" % (m, type(n).__name__.lower(), view.where(fref, n)))
                # the logging configuration is process-global (basicConfig acts once per process, the root logger is shared):
                # logging may be WRITTEN to, its state must not steer the parser
                if isinstance(n, ast.Call) and isinstance(n.func, ast.Attribute) and n.func.attr in ("isEnabledFor", "getEffectiveLevel", "hasHandlers"):
                    bad.append("%s consults the process-global logging state (%s) at %s" % (m, n.func.attr, view.where(fref, n)))
                if isinstance(n, ast.Attribute) and isinstance(n.ctx, ast.Load) and n.attr in ("level", "handlers", "disabled", "manager") and attr_path(n) and attr_path(n)[0] in ("log", "logger", "logging"):
                    bad.append("%s consults the process-global logging state (.%s) at %s" % (m, n.attr, view.where(fref, n)))
                if isinstance(n, ast.Attribute) and isinstance(n.ctx, ast.Store):
                    p = attr_path(n)
                    if p and p[0] not in ("self", "t", "p") and p[0] in prog.imports.get(fref.module, {}):
                        bad.append("%s writes attribute of imported name %s at %s" % (m, ".".join(p), view.where(fref, n)))
        # statement parse must go through the object's own parser and lexer
        ps = view.methods.get("parse_statement")
        own = False
        if ps is not None:
            for n in ast.walk(ps.node):
                if isinstance(n, ast.Call) and attr_path(n.func) == ("self", "yacc", "parse"):
                    kw = {k.arg: attr_path(k.value) for k in n.keywords}
                    if kw.get("lexer") == ("self", "lexer"):
                        own = True
        if not own:
            bad.append("parse_statement does not call self.yacc.parse(..., lexer=self.lexer)")
        out.append(ob("global-purity", not bad, dict(offenders=bad), fkeys(run_methods | ctor_methods), pid))

    def reads_of(attr):
        res = []
        for m, fref in view.methods.items():
            for kind, k, n in events_of(view, fref.node):
                if kind == "R" and k == (attr,):
                    res.append((m, view.where(fref, n)))
        return res

    if "silent-only-in-p_error" in clauses:
        rs = reads_of("silent")
        bad = [w for m, w in rs if m not in ("p_error", "t_error", "parse_statement")]
        # in parse_statement the flag may only be read inside an exception handler (error path)
        ps = view.methods.get("parse_statement")
        if ps is not None:
            in_handler = set()
            for n in ast.walk(ps.node):
                if isinstance(n, ast.ExceptHandler):
                    for b in n.body:
                        for k in ast.walk(b):
                            in_handler.add(id(k))
            for kind, k, n in events_of(view, ps.node):
                if kind == "R" and k == ("silent",) and id(n) not in in_handler:
                    bad.append("silent read on the normal path at " + view.where(ps, n))
        out.append(ob("silent-read-only-in-error-callbacks", not bad, dict(reads=[w for m, w in rs], offenders=bad), {view.methods[m].key for m, w in rs}, pid))
    if "normalize-only-in-p_id" in clauses:
        rs = reads_of("normalize_names")
        bad = [w for m, w in rs if m != "p_id"]
        out.append(ob("normalize_names-read-only-in-p_id", not bad and any(m == "p_id" for m, w in rs), dict(reads=[w for m, w in rs], offenders=bad), {view.methods[m].key for m, w in rs}, pid))

    if "run-args" in clauses or "output-mode-not-read-before-output" in clauses or "file-path-only-under-dump" in clauses:
        runf = view.methods["run"]
        if "output-mode-not-read-before-output" in clauses:
            bad = []
            for n in names_used(runf.node, "output_mode"):
                if isinstance(n.ctx, ast.Store):
                    bad.append("rebinds output_mode at line %d" % n.lineno)
            allowed = 0
            for n in ast.walk(runf.node):
                if isinstance(n, ast.Compare) and isinstance(n.left, ast.Name) and n.left.id == "output_mode":
                    allowed += 1
                if isinstance(n, ast.Call) and isinstance(n.func, ast.Name) and n.func.id == "Output":
                    allowed += sum(1 for k in n.keywords if isinstance(k.value, ast.Name) and k.value.id == "output_mode")
            total = len([n for n in names_used(runf.node, "output_mode") if isinstance(n.ctx, ast.Load)])
            if total != allowed:
                bad.append("output_mode is used %d times in run(), only %d of them are the validity test / the Output(...) argument" % (total, allowed))
            # parse path must not see it: parse_data takes no arguments
            pd = view.methods["parse_data"]
            if len(pd.node.args.args) != 1:
                bad.append("parse_data takes arguments")
            out.append(ob("output_mode-used-only-for-validation-and-Output", not bad, dict(offenders=bad), {runf.key, pd.key}, pid))
        if "file-path-only-under-dump" in clauses:
            bad = []
            dump_ifs = [n for n in ast.walk(runf.node) if isinstance(n, ast.If) and isinstance(n.test, ast.Name) and n.test.id == "dump"]
            inside = set()
            for d in dump_ifs:
                for b in d.body:
                    for n in ast.walk(b):
                        inside.add(id(n))
            for nm in ("file_path", "dump_path"):
                for n in names_used(runf.node, nm):
                    if id(n) not in inside:
                        bad.append("%s used outside `if dump:` at line %d" % (nm, n.lineno))
            for n in ast.walk(runf.node):
                if isinstance(n, ast.Call):
                    f = n.func
                    nm = f.id if isinstance(f, ast.Name) else ".".join(attr_path(f) or ())
                    if nm in ("open", "dump_data_to_file", "os.makedirs", "json.dump") and id(n) not in inside:
                        bad.append("%s called outside `if dump:` at line %d" % (nm, n.lineno))
            # no other function on the construct/run path touches the file system
            for m in sorted(run_methods | ctor_methods):
                fref = view.methods[m]
                if m == "run":
                    continue
                for n in ast.walk(fref.node):
                    if isinstance(n, ast.Call):
                        f = n.func
                        nm = f.id if isinstance(f, ast.Name) else ".".join(attr_path(f) or ())
                        if nm in ("open", "os.makedirs", "json.dump", "os.remove", "os.mkdir", "dump_data_to_file"):
                            bad.append("%s calls %s at %s" % (m, nm, view.where(fref, n)))
            # Output.* and table classes: no file access except dump_data_to_file
            for mod in ("output.core", "output.base_data", "output.table_data", "output.dialects"):
                full = PKG + "." + mod
                for cname, c in prog.classes.get(full, {}).items():
                    for mname, fref in c.methods.items():
                        for n in ast.walk(fref.node):
                            if isinstance(n, ast.Call) and isinstance(n.func, ast.Name) and n.func.id == "open":
                                bad.append("%s.%s calls open" % (cname, mname))
            out.append(ob("files-only-under-dump", not bad, dict(offenders=bad), {runf.key}, pid))

    if "lexer-reset-complete" in clauses:
        written = {}
        for m, fref in view.methods.items():
            if m in ("set_default_flags_in_lexer", "__init__"):
                continue
            for kind, k, n in events_of(view, fref.node):
                if kind == "W" and len(k) == 2 and k[0] == "lexer":
                    written.setdefault(k[1], view.where(fref, n))
        reset = set(rl) | set(direct)
        missing = {k: w for k, w in written.items() if k not in reset and k != "state"}
        out.append(ob("lexer-flags-written-are-reset-per-statement", not missing and bool(reset),
                      dict(reset=sorted(reset), written=sorted(written), not_reset={k: w for k, w in missing.items()}),
                      {view.methods["set_default_flags_in_lexer"].key}, pid))
        # and the reset is executed before every statement parse.  Flow analysis over the structured bodies of the
        # run path, inlining self.<method>() calls: the abstract state is FRESH (flags reset, nothing lexed since) or
        # DIRTY; set_default_flags_in_lexer() makes it FRESH, parse_statement() REQUIRES FRESH and leaves DIRTY; branches
        # join to DIRTY when either side is, loop bodies are analysed at their fixpoint; parse_data() starts DIRTY.
        FRESH, DIRTY = "fresh", "dirty"

        def join(a, b):
            if a is None:
                return b
            if b is None:
                return a
            return DIRTY if DIRTY in (a, b) else FRESH
        problems = []
        sites = {}
        memo = {}

        def self_calls(node):
            res = [n for n in ast.walk(node) if isinstance(n, ast.Call) and attr_path(n.func) and len(attr_path(n.func)) == 2
                   and attr_path(n.func)[0] == "self"]
            res.sort(key=lambda n: (n.end_lineno, n.end_col_offset))    # evaluation order of nested calls: inner first
            return res

        def do_calls(node, st, m, stack):
            for c in self_calls(node):
                callee = attr_path(c.func)[1]
                if callee == "set_default_flags_in_lexer":
                    st = FRESH
                elif callee == "parse_statement":
                    sites.setdefault(m, []).append("line %d: %s" % (c.lineno, st))
                    if st != FRESH:
                        msg = "%s calls parse_statement at line %d with lexer flags that were not reset since the last statement parse" % (m, c.lineno)
                        if msg not in problems:
                            problems.append(msg)
                    st = DIRTY
                elif callee in view.methods and callee not in stack:
                    st = run_method(callee, st, stack)
            return st

        def run_block(block, st, m, stack, rets):
            for s in block:
                if st is None:
                    break
                if isinstance(s, ast.If):
                    st = do_calls(s.test, st, m, stack)
                    a = run_block(s.body, st, m, stack, rets)
                    b = run_block(s.orelse, st, m, stack, rets)
                    st = join(a, b)
                elif isinstance(s, (ast.For, ast.While)):
                    st = do_calls(s.iter if isinstance(s, ast.For) else s.test, st, m, stack)
                    for _ in range(3):
                        body_out = run_block(s.body, st, m, stack, rets)
                        nxt = join(st, body_out)
                        if nxt == st:
                            break
                        st = nxt
                    st = join(st, run_block(s.orelse, st, m, stack, rets))
                elif isinstance(s, ast.Try):
                    body_out = run_block(s.body, st, m, stack, rets)
                    mid = join(st, body_out) if body_out is not None else DIRTY
                    outs = [run_block(s.orelse, body_out, m, stack, rets) if s.orelse else body_out]
                    for h in s.handlers:
                        outs.append(run_block(h.body, DIRTY if mid is None else join(mid, DIRTY if body_out != st else mid), m, stack, rets))
                    st = None
                    for o in outs:
                        st = join(st, o)
                    if s.finalbody:
                        st = run_block(s.finalbody, st if st is not None else DIRTY, m, stack, rets)
                elif isinstance(s, ast.With):
                    for it in s.items:
                        st = do_calls(it.context_expr, st, m, stack)
                    st = run_block(s.body, st, m, stack, rets)
                elif isinstance(s, ast.Return):
                    if s.value is not None:
                        st = do_calls(s.value, st, m, stack)
                    rets.append(st)
                    st = None
                elif isinstance(s, ast.Raise):
                    st = None
                elif isinstance(s, (ast.FunctionDef, ast.ClassDef)):
                    continue
                else:
                    st = do_calls(s, st, m, stack)
            return st

        def run_method(m, st, stack):
            key = (m, st)
            if key in memo:
                return memo[key]
            rets = []
            out_st = run_block(view.methods[m].node.body, st, m, stack | {m}, rets)
            for r in rets:
                out_st = join(out_st, r)
            if out_st is None:
                out_st = DIRTY
            memo[key] = out_st
            return out_st
        entry = "parse_data" if "parse_data" in view.methods else None
        if entry is None:
            problems.append("parse_data not found")
        else:
            run_method(entry, DIRTY, frozenset())
        if not sites:
            problems.append("no call site of parse_statement found on the path from parse_data")
        # a statement parse started from anywhere else on the class (not reachable from parse_data) is not covered
        for m, fref in view.methods.items():
            if m in sites or m == "parse_statement":
                continue
            for c in self_calls(fref.node):
                if attr_path(c.func)[1] == "parse_statement":
                    problems.append("%s calls parse_statement (line %d) outside the analysed path from parse_data" % (m, c.lineno))
        out.append(ob("reset-precedes-every-statement-parse", not problems, dict(call_sites=sites, offenders=problems),
                      {view.methods[m].key for m in ("process_line", "parse_data", "process_statement") if m in view.methods}, pid))

    if "alter-handlers-mutate-in-place" in clauses:
        # C04 / C03: the dict reported for a table is built (TableData.to_dict) when the CREATE TABLE record is processed
        # and shares the table's field OBJECTS (columns list, alter dict, index list, ...); an ALTER / INDEX that follows
        # reaches the reported dict only through in-place mutation of those objects.  Obligation: no method on the path of
        # an ALTER / INDEX record (Output.add_index_to_table, Output.add_alter_to_table and everything reachable from
        # BaseData.append_statement_information_to_table) REBINDS an attribute of the table (`self.x = ...` /
        # `target_table.x = ...`), and to_dict hands out the field values themselves (no copy).
        bad, funcs = [], set()
        bd_mod = PKG + ".output.base_data"
        bd = prog.classes.get(bd_mod, {}).get("BaseData")
        td = prog.classes.get(PKG + ".output.table_data", {}).get("TableData")
        oc = prog.classes.get(PKG + ".output.core", {}).get("Output")
        if bd is None or oc is None or "append_statement_information_to_table" not in bd.methods:
            bad.append("BaseData.append_statement_information_to_table / Output not found")
        else:
            methods = dict(bd.methods)
            if td is not None:
                methods.update(td.methods)
            seen, todo = set(), ["append_statement_information_to_table"]
            while todo:
                m = todo.pop()
                if m in seen or m not in methods:
                    continue
                seen.add(m)
                for n in ast.walk(methods[m].node):
                    if isinstance(n, ast.Call) and attr_path(n.func) and attr_path(n.func)[0] == "self" and len(attr_path(n.func)) == 2:
                        todo.append(attr_path(n.func)[1])
            for m in sorted(seen):
                funcs.add(methods[m].key)
                for n in ast.walk(methods[m].node):
                    tgts = n.targets if isinstance(n, ast.Assign) else ([n.target] if isinstance(n, ast.AnnAssign) and n.value is not None else [])
                    for t in tgts:
                        for leaf in ([t] if not isinstance(t, (ast.Tuple, ast.List)) else t.elts):
                            if isinstance(leaf, ast.Attribute) and isinstance(leaf.value, ast.Name) and leaf.value.id == "self":
                                bad.append("%s rebinds self.%s at line %d: the dict already reported for the table keeps the old object" % (m, leaf.attr, leaf.lineno))
            for m in ("add_index_to_table", "add_alter_to_table", "process_alter_and_index_result"):
                if m not in oc.methods:
                    continue
                funcs.add(oc.methods[m].key)
                for n in ast.walk(oc.methods[m].node):
                    tgts = n.targets if isinstance(n, ast.Assign) else []
                    for t in tgts:
                        if isinstance(t, ast.Attribute) and isinstance(t.value, ast.Name) and t.value.id not in ("self",):
                            bad.append("Output.%s rebinds %s.%s at line %d" % (m, t.value.id, t.attr, t.lineno))
            # to_dict: the values stored are the attribute values themselves
            tdct = bd.methods.get("to_dict")
            if tdct is None:
                bad.append("BaseData.to_dict not found")
            else:
                funcs.add(tdct.key)
                for n in ast.walk(tdct.node):
                    if isinstance(n, ast.Call):
                        nm = n.func.id if isinstance(n.func, ast.Name) else ".".join(attr_path(n.func) or ())
                        if nm in ("deepcopy", "copy.deepcopy", "copy.copy", "copy", "list", "dict") or nm.endswith(".copy"):
                            bad.append("to_dict copies field values (%s at line %d): later ALTER / INDEX records would not reach the reported dict" % (nm, n.lineno))
        out.append(ob("alter-handlers-mutate-in-place", not bad, dict(methods=sorted(funcs), offenders=bad), funcs, pid))

    if "dump-leaves-result-alone" in clauses:
        # C13 / C14 / C19 / C12: run(dump=True) hands THE RESULT IT RETURNS to dump_data_to_file.  Obligation: in that
        # function the `data` parameter is passed to json.dump and otherwise only inspected (isinstance / len / in / [] load /
        # .get .keys .values .items) - not indexed for writing, not mutated through a method, not handed to another function
        # (which might prune / sort / convert it in place), not rebound.
        bad, funcs = [], set()
        oc_mod = PKG + ".output.core"
        fn = None
        for n in prog.trees.get(oc_mod, ast.Module(body=[], type_ignores=[])).body:
            if isinstance(n, ast.FunctionDef) and n.name == "dump_data_to_file":
                fn = n
        if fn is None:
            bad.append("output.core.dump_data_to_file not found")
        else:
            funcs.add("output.core.dump_data_to_file")
            params = [a.arg for a in fn.args.args]
            dname = params[2] if len(params) >= 3 else None
            if dname is None:
                bad.append("dump_data_to_file has no third (data) parameter")
            parents = {}
            for n in ast.walk(fn):
                for c in ast.iter_child_nodes(n):
                    parents[id(c)] = n
            for n in ast.walk(fn):
                if isinstance(n, ast.Name) and n.id == dname:
                    par = parents.get(id(n))
                    if isinstance(n.ctx, ast.Store):
                        bad.append("line %d: %s is rebound" % (n.lineno, dname))
                    elif isinstance(par, ast.Call) and n in par.args and (attr_path(par.func) in (("json", "dump"), ("json", "dumps"))
                                                                           or (isinstance(par.func, ast.Name) and par.func.id in ("isinstance", "len", "type", "bool"))):
                        continue
                    elif isinstance(par, (ast.Compare, ast.BoolOp, ast.UnaryOp, ast.If, ast.IfExp)):
                        continue        # read-only inspection
                    elif isinstance(par, ast.Subscript) and isinstance(par.ctx, ast.Load):
                        continue
                    elif isinstance(par, ast.Attribute) and par.attr in ("get", "keys", "values", "items") :
                        continue
                    else:
                        bad.append("line %d: %s is used other than as the argument of json.dump (%s)" % (n.lineno, dname, ast.unparse(par)[:60] if par is not None else "?"))
        out.append(ob("dump-leaves-result-alone", not bad, dict(offenders=bad), funcs, pid))

    if "mode-hooks-leave-common-fields-alone" in clauses:
        # C10 / C02 / C01 / C12: the per-mode table classes (output/dialects.py) may add their OWN fields and column attributes;
        # the common content of a table - name, schema, the column list and the common column attributes, primary key, checks,
        # indexes, alter section, partitioning, constraints - is the same in every mode.  Obligation: no method of a dialect
        # class rebinds or mutates one of the common table fields, or writes a common column attribute.
        COMMON_FIELDS = {"table_name", "schema", "primary_key", "checks", "index", "alter", "partitioned_by", "partition_by", "constraints", "columns"}
        COMMON_COL = {"name", "type", "size", "nullable", "default", "unique", "references", "check"}
        bad, funcs = [], set()
        dmod = PKG + ".output.dialects"
        for cname, c in prog.classes.get(dmod, {}).items():
            for mname, fref in c.methods.items():
                funcs.add(fref.key)
                for n in ast.walk(fref.node):
                    tgts = n.targets if isinstance(n, ast.Assign) else ([n.target] if isinstance(n, (ast.AugAssign, ast.AnnAssign)) else [])
                    for t in tgts:
                        pth = attr_path(t) if isinstance(t, ast.Attribute) else None
                        if pth and pth[0] == "self" and len(pth) == 2 and pth[1] in COMMON_FIELDS:
                            bad.append("%s.%s rebinds the common table field %s (line %d)" % (cname, mname, pth[1], t.lineno))
                        if isinstance(t, ast.Subscript):
                            base = attr_path(t.value)
                            if base and base[0] == "self" and len(base) == 2 and base[1] in COMMON_FIELDS - {"columns"}:
                                bad.append("%s.%s writes into the common table field %s (line %d)" % (cname, mname, base[1], t.lineno))
                            if isinstance(t.slice, ast.Constant) and t.slice.value in COMMON_COL and not (base and base[0] == "self"):
                                bad.append("%s.%s writes the common column attribute %r (line %d)" % (cname, mname, t.slice.value, t.lineno))
                    if isinstance(n, ast.Call) and isinstance(n.func, ast.Attribute) and n.func.attr in MUT:
                        base = attr_path(n.func.value)
                        if base and base[0] == "self" and len(base) == 2 and base[1] in COMMON_FIELDS - {"columns"}:
                            bad.append("%s.%s mutates the common table field %s (line %d)" % (cname, mname, base[1], n.lineno))
                        if n.func.attr == "update" and n.args and isinstance(n.args[0], ast.Dict):
                            for k in n.args[0].keys:
                                if isinstance(k, ast.Constant) and k.value in COMMON_COL and not (base and base[0] == "self"):
                                    bad.append("%s.%s updates the common column attribute %r (line %d)" % (cname, mname, k.value, n.lineno))
        if not funcs:
            bad.append("no dialect classes found in output/dialects.py")
        out.append(ob("mode-hooks-leave-common-fields-alone", not bad, dict(offenders=bad, methods=len(funcs)), funcs, pid))

    if "no-shared-mutable-skeleton" in clauses:
        # C14 / C15 / C03: a module-level or class-level dict / list / set display is ONE object for the whole process.
        # Looking things up in it is fine; letting it - or, through a shallow copy, the mutable values nested in it -
        # become part of a parser's working data makes every table / statement / parser object share that object.
        # Obligation: inside functions, such a name is only used for read-only access (subscript load, `in`, iteration,
        # .get / .keys / .values / .items, len, deepcopy) - never aliased, returned, stored, passed to setdefault / update,
        # and never shallow-copied (dict(X), {**X}, X.copy(), list(X), copy.copy(X)) when its display nests another
        # mutable display.
        def nested_mutable(display):
            for ch in ast.walk(display):
                if ch is not display and isinstance(ch, (ast.Dict, ast.List, ast.Set, ast.ListComp, ast.DictComp, ast.SetComp)):
                    return True
                if ch is not display and isinstance(ch, ast.Call) and isinstance(ch.func, ast.Name) and ch.func.id in ("dict", "list", "set", "defaultdict"):
                    return True
            return False
        shared = {}      # (module, name) -> (lineno, nested?)   and ("class", cname, attr)
        class_attrs2 = {}
        for mod, tree in prog.trees.items():
            if not mod.startswith(PKG) or mod.endswith(".parsetab"):
                continue
            for st in tree.body:
                tgt, val = None, None
                if isinstance(st, ast.Assign) and len(st.targets) == 1 and isinstance(st.targets[0], ast.Name):
                    tgt, val = st.targets[0].id, st.value
                elif isinstance(st, ast.AnnAssign) and isinstance(st.target, ast.Name) and st.value is not None:
                    tgt, val = st.target.id, st.value
                if tgt and isinstance(val, (ast.Dict, ast.List, ast.Set)):
                    shared[(mod, tgt)] = (st.lineno, nested_mutable(val))
                elif tgt and isinstance(val, ast.Call) and (getattr(val.func, "id", None) or getattr(val.func, "attr", None)) in (
                        "dict", "list", "set", "defaultdict", "OrderedDict", "Counter", "deque", "WeakValueDictionary", "WeakKeyDictionary"):
                    # a container built by a call (defaultdict(int), OrderedDict(), ...): a process-wide mutable object all the same
                    shared[(mod, tgt)] = (st.lineno, True)
            for cd in [n for n in ast.walk(tree) if isinstance(n, ast.ClassDef)]:
                for st in cd.body:
                    tgt, val = None, None
                    if isinstance(st, ast.Assign) and len(st.targets) == 1 and isinstance(st.targets[0], ast.Name):
                        tgt, val = st.targets[0].id, st.value
                    elif isinstance(st, ast.AnnAssign) and isinstance(st.target, ast.Name) and st.value is not None:
                        tgt, val = st.target.id, st.value
                    if tgt and isinstance(val, (ast.Dict, ast.List, ast.Set)) and not tgt.startswith("__"):
                        class_attrs2[tgt] = (mod, cd.name, st.lineno, nested_mutable(val))
        bad, funcs = [], set()
        READ_ONLY = {"get", "keys", "values", "items", "index", "count"}
        for mod, tree in prog.trees.items():
            if not mod.startswith(PKG) or mod.endswith(".parsetab"):
                continue
            imported = {}     # local name -> (module, name) for `from x import NAME`
            for st in tree.body:
                if isinstance(st, ast.ImportFrom) and st.module:
                    for a in st.names:
                        for (m2, n2) in shared:
                            if n2 == a.name and m2.endswith(st.module.split(".")[-1]):
                                imported[a.asname or a.name] = (m2, n2)
            for fn in ast.walk(tree):
                if not isinstance(fn, (ast.FunctionDef, ast.AsyncFunctionDef)):
                    continue
                parents = {}
                for n in ast.walk(fn):
                    for c in ast.iter_child_nodes(n):
                        parents[id(c)] = n
                local_stores = {t.id for n in ast.walk(fn) for t in (n.targets if isinstance(n, ast.Assign) else []) if isinstance(t, ast.Name)} | {a.arg for a in fn.args.args}
                for n in ast.walk(fn):
                    ref = None
                    if isinstance(n, ast.Name) and isinstance(n.ctx, ast.Load) and n.id not in local_stores:
                        if (mod, n.id) in shared:
                            ref = ("%s.%s" % (mod, n.id),) + shared[(mod, n.id)]
                        elif n.id in imported:
                            ref = ("%s.%s" % imported[n.id],) + shared[imported[n.id]]
                    elif isinstance(n, ast.Attribute) and isinstance(n.ctx, ast.Load) and isinstance(n.value, ast.Name) and n.value.id in ("self", "cls") and n.attr in class_attrs2:
                        m2, cn, ln, nest = class_attrs2[n.attr]
                        ref = ("%s.%s.%s" % (m2, cn, n.attr), ln, nest)
                    if ref is None:
                        continue
                    funcs.add("%s.%s" % (mod[len(PKG) + 1:], fn.name))
                    name, lineno, nested = ref
                    par = parents.get(id(n))
                    gp = parents.get(id(par)) if par is not None else None
                    ok = False
                    if isinstance(par, ast.Subscript) and par.value is n and isinstance(par.ctx, ast.Load):
                        ok = True
                    elif isinstance(par, ast.Compare):
                        ok = True
                    elif isinstance(par, (ast.For, ast.comprehension)) and par.iter is n:
                        ok = True
                    elif isinstance(par, ast.Attribute) and isinstance(gp, ast.Call) and gp.func is par and par.attr in READ_ONLY:
                        ok = True
                    elif isinstance(par, ast.Call) and isinstance(par.func, ast.Name) and par.func.id in ("len", "deepcopy", "sorted", "tuple", "frozenset", "any", "all", "isinstance"):
                        ok = True
                    elif isinstance(par, ast.Call) and isinstance(par.func, ast.Attribute) and par.func.attr == "deepcopy":
                        ok = True
                    elif isinstance(par, ast.Call) and isinstance(par.func, ast.Name) and par.func.id in ("dict", "list", "set") and not nested:
                        ok = True      # shallow copy of a flat table of immutable values
                    elif isinstance(par, ast.Attribute) and isinstance(gp, ast.Call) and gp.func is par and par.attr == "copy" and not nested:
                        ok = True
                    elif isinstance(par, ast.Dict) and not nested and n in par.values and par.keys[par.values.index(n)] is None:
                        ok = True      # {**X} of a flat table
                    elif isinstance(par, (ast.BoolOp, ast.UnaryOp, ast.If, ast.IfExp)) and not isinstance(par, ast.IfExp):
                        ok = True      # truth test
                    if not ok:
                        bad.append("%s.%s line %d uses the process-wide %s (defined line %d%s) other than for read-only access: %s" % (
                            mod, fn.name, n.lineno, name, lineno, ", nests mutable values" if nested else "", ast.unparse(par)[:90] if par is not None else "?"))
        out.append(ob("process-wide-mutable-values-are-read-only", not bad, dict(offenders=sorted(set(bad)), shared_names=len(shared) + len(class_attrs2)), funcs, pid))

    if "ordered-iteration" in clauses:
        # C14: the order of everything that reaches the result must not depend on the hash seed.  Strings hash
        # differently in every process, so iterating over a set (or the result of a set operation) and letting the
        # iteration order reach a list / dict / string makes the output order process dependent.  Obligation: in the
        # library (outside the import-time token table) no `for` loop or comprehension iterates over an expression
        # that is syntactically a set: a set display, set(...), frozenset(...), a set comprehension, or the result of
        # the operators & | - ^ applied to such an expression or to a .keys() / .items() view.
        def is_set_expr(n, fn_node, depth=0):
            if depth > 4:
                return False
            if isinstance(n, (ast.Set, ast.SetComp)):
                return True
            if isinstance(n, ast.Call) and isinstance(n.func, ast.Name) and n.func.id in ("set", "frozenset"):
                return True
            if isinstance(n, ast.BinOp) and isinstance(n.op, (ast.BitAnd, ast.BitOr, ast.Sub, ast.BitXor)):
                def viewish(x):
                    return is_set_expr(x, fn_node, depth + 1) or (isinstance(x, ast.Call) and isinstance(x.func, ast.Attribute) and x.func.attr in ("keys", "items"))
                return viewish(n.left) or viewish(n.right)
            if isinstance(n, ast.Call) and isinstance(n.func, ast.Attribute) and n.func.attr in ("union", "intersection", "difference", "symmetric_difference"):
                return True
            if isinstance(n, ast.Name) and fn_node is not None:
                binds = [st.value for st in ast.walk(fn_node) if isinstance(st, ast.Assign) and any(isinstance(t, ast.Name) and t.id == n.id for t in st.targets)]
                return bool(binds) and all(is_set_expr(b, None, depth + 1) for b in binds)
            return False
        bad, funcs = [], set()
        for mod, tree in prog.trees.items():
            if not mod.startswith(PKG) or mod.endswith(".parsetab") or mod.endswith(".tokens"):
                continue
            for fn in ast.walk(tree):
                if not isinstance(fn, (ast.FunctionDef, ast.AsyncFunctionDef)):
                    continue
                funcs.add("%s.%s" % (mod[len(PKG) + 1:], fn.name))
                for n in ast.walk(fn):
                    its = []
                    if isinstance(n, ast.For):
                        its.append(n.iter)
                    elif isinstance(n, (ast.ListComp, ast.DictComp, ast.GeneratorExp)):
                        its.extend(g.iter for g in n.generators)
                    elif isinstance(n, ast.Call) and isinstance(n.func, ast.Name) and n.func.id in ("list", "tuple", "dict", "enumerate") and n.args:
                        its.append(n.args[0])
                    elif isinstance(n, ast.Call) and isinstance(n.func, ast.Attribute) and n.func.attr in ("join", "extend", "update") and n.args:
                        its.append(n.args[0])
                    for it in its:
                        if is_set_expr(it, fn):
                            bad.append("%s.%s line %d iterates over a set expression: %s" % (mod, fn.name, getattr(it, "lineno", n.lineno), ast.unparse(it)[:80]))
        out.append(ob("result-order-independent-of-set-iteration", not bad, dict(offenders=sorted(set(bad)), functions_scanned=len(funcs)), funcs, pid))

    if "ply-cache-settings" in clauses:
        # C20: PLY validates the cached tables against the grammar signature and regenerates them when they do not
        # match - unless the caller opts out (optimize=True skips the check, a foreign tabmodule / picklefile reads
        # other tables, write_tables / outputdir / check_recursion change where tables come from).  The repository's
        # precondition for A-PLY is therefore: yacc.yacc and lex.lex are called with the cache-related arguments at
        # their defaults.
        allowed = {"yacc": {"module", "debug", "debuglog", "errorlog"}, "lex": {"object", "module", "debug", "debuglog", "errorlog"}}
        bad, seen_calls, funcs = [], {"yacc": 0, "lex": 0}, set()
        for mod, tree in prog.trees.items():
            if not mod.startswith(PKG):
                continue
            for fn in ast.walk(tree):
                if not isinstance(fn, ast.FunctionDef):
                    continue
                for n in ast.walk(fn):
                    if isinstance(n, ast.Call):
                        p = attr_path(n.func)
                        if p in (("yacc", "yacc"), ("lex", "lex")) or (p and len(p) == 3 and p[:2] == ("ply", "yacc") and p[2] == "yacc"):
                            kind = "yacc" if p[-1] == "yacc" else "lex"
                            seen_calls[kind] += 1
                            funcs.add("%s.%s" % (mod[len(PKG) + 1:], fn.name))
                            if n.args:
                                bad.append("%s.%s line %d: positional arguments to %s.%s" % (mod, fn.name, n.lineno, kind, kind))
                            for k in n.keywords:
                                if k.arg is None or k.arg not in allowed[kind]:
                                    bad.append("%s.%s line %d: %s.%s(..., %s=...) overrides PLY's table-cache handling" % (mod, fn.name, n.lineno, kind, kind, k.arg))
                                if k.arg == "debug" and not (isinstance(k.value, ast.Constant) and k.value.value is False):
                                    bad.append("%s.%s line %d: debug is not the constant False" % (mod, fn.name, n.lineno))
                        # nobody else reads or writes the table module
                    if isinstance(n, (ast.Import, ast.ImportFrom)):
                        names = [a.name for a in n.names] + ([n.module] if isinstance(n, ast.ImportFrom) and n.module else [])
                        if any("parsetab" in (x or "") for x in names):
                            bad.append("%s imports the generated table module directly (line %d)" % (mod, n.lineno))
            for n in ast.walk(tree):
                if isinstance(n, (ast.Import, ast.ImportFrom)):
                    names = [a.name for a in n.names] + ([n.module] if isinstance(n, ast.ImportFrom) and n.module else [])
                    if mod != PKG + ".parsetab" and any("parsetab" in (x or "") for x in names):
                        bad.append("%s imports the generated table module directly (line %d)" % (mod, n.lineno))
        # PLY takes the grammar from the docstrings of the p_* methods: every p_* attribute of the parser class must be
        # a rule (docstring with a production) - a helper named p_... without one makes table generation fail
        for m, fref in view.methods.items():
            if m.startswith("p_") and m != "p_error":
                doc = ast.get_docstring(fref.node)
                if not doc or ":" not in doc:
                    bad.append("%s is named like a grammar rule but has no production docstring (%s)" % (m, view.where(fref, fref.node)))
        # the LR tables and the parse stacks are PLY's: the shipped parsetab.py stores them in a different shape than a
        # fresh generation does (rows only for states that have entries), and with a valid cache the rows are shared by
        # every parser object of the process.  Repository code uses the parser object only through parse(...).
        for mod, tree in prog.trees.items():
            if not mod.startswith(PKG) or mod.endswith(".parsetab"):
                continue
            for fn in ast.walk(tree):
                if not isinstance(fn, ast.FunctionDef):
                    continue
                for n in ast.walk(fn):
                    if isinstance(n, ast.Attribute):
                        pth = attr_path(n)
                        if pth and len(pth) >= 3 and pth[-2] == "yacc" and pth[-1] != "parse" and pth[0] == "self":
                            bad.append("%s.%s line %d reads PLY's parser internals (%s)" % (mod, fn.name, n.lineno, ".".join(pth)))
                        if pth and pth[-1] in ("statestack", "symstack", "productions", "defaulted_states") or (pth and len(pth) >= 2 and pth[-2:] in (("yacc", "action"), ("yacc", "goto"))):
                            bad.append("%s.%s line %d reads PLY's parser internals (%s)" % (mod, fn.name, n.lineno, ".".join(pth)))
        if seen_calls["yacc"] != 1:
            bad.append("expected exactly one yacc.yacc call on the construct path, found %d" % seen_calls["yacc"])
        out.append(ob("ply-table-cache-arguments-at-defaults", not bad, dict(offenders=sorted(set(bad)), calls=seen_calls), funcs, pid))

    if "token-text-only-through-upper" in clauses:
        # C05: the token-typing functions may look at the text of a word only through its upper-case form, or in ways
        # that do not depend on letter case (length, punctuation tests, trailing comma, the symbol table whose keys
        # are punctuation, the ARRAY notation of C09).  Every other read of <token>.value is an offender.
        typing = ["t_ID", "tokens_not_columns_names", "process_body_tokens", "after_columns_tokens", "is_token_column_name",
                  "is_creation_name", "set_lexer_tags", "set_lexx_tags", "commat_type", "set_parenthesis_tokens",
                  "capitalize_tokens", "parse_tags_symbols", "get_tag_symbol_value_and_increment", "t_COLLATE", "t_AUTOINCREMENT"]
        import string
        real_tok = prog.real.get(PKG + ".tokens")

        def punct_only(v):
            if isinstance(v, str):
                return not any(c.isalpha() for c in v)
            if isinstance(v, (list, tuple, set, frozenset, dict)):
                return all(punct_only(x) for x in v)
            return False

        def const_value(node, fn_node):
            """value of a constant expression: literal, list of literals, local name bound once to such, tok.<table>"""
            try:
                return ast.literal_eval(node)
            except Exception:
                pass
            if isinstance(node, ast.Name):
                binds = [st.value for st in ast.walk(fn_node) if isinstance(st, ast.Assign) and any(isinstance(t, ast.Name) and t.id == node.id for t in st.targets)]
                if len(binds) == 1:
                    return const_value(binds[0], fn_node)
            p = attr_path(node)
            if p and len(p) == 2 and p[0] == "tok" and real_tok is not None:
                return getattr(real_tok, p[1], None)
            return None
        bad, used = [], set()
        for m in typing:
            fref = view.methods.get(m)
            if fref is None:
                continue
            used.add(fref.key)
            parents = {}
            for n in ast.walk(fref.node):
                for c in ast.iter_child_nodes(n):
                    parents[id(c)] = n
            params = [a.arg for a in fref.node.args.args[1:]]
            for n in ast.walk(fref.node):
                if not (isinstance(n, ast.Attribute) and n.attr == "value" and isinstance(n.value, ast.Name) and n.value.id in params and isinstance(n.ctx, ast.Load)):
                    continue
                par = parents.get(id(n))
                gp = parents.get(id(par)) if par is not None else None
                ok = False
                if isinstance(par, ast.Attribute) and isinstance(gp, ast.Call) and gp.func is par:
                    meth = par.attr
                    if meth == "upper":
                        ok = True
                    elif meth in ("endswith", "count") and gp.args and punct_only(const_value(gp.args[0], fref.node)):
                        ok = True
                    elif meth == "startswith" and gp.args and const_value(gp.args[0], fref.node) == "ARRAY":
                        ok = True      # array notation (C09), documented as case-sensitive
                elif isinstance(par, ast.Call) and isinstance(par.func, ast.Name) and par.func.id == "len":
                    ok = True
                elif isinstance(par, ast.Subscript) and par.value is n:
                    ok = True          # slicing (trailing comma removal) keeps the letters as written
                elif isinstance(par, ast.Compare):
                    others = [par.left] + list(par.comparators)
                    others = [o for o in others if o is not n]
                    vals = [const_value(o, fref.node) for o in others]
                    if all(v is not None and punct_only(v) for v in vals):
                        ok = True
                    # `for key in tok.symbol_tokens_no_check: if key in t.value`
                    for o in others:
                        if isinstance(o, ast.Name):
                            for lp in ast.walk(fref.node):
                                if isinstance(lp, ast.For) and isinstance(lp.target, ast.Name) and lp.target.id == o.id and punct_only(const_value(lp.iter, fref.node)):
                                    ok = True
                elif isinstance(par, ast.Call) and isinstance(par.func, ast.Attribute) and par.func.attr == "get" and n in par.args:
                    table = const_value(par.func.value, fref.node)
                    if isinstance(table, dict) and punct_only(list(table.keys())):
                        ok = True      # symbol table: keys are punctuation
                elif isinstance(par, ast.Assign) or isinstance(par, ast.Return):
                    ok = True
                elif isinstance(par, (ast.JoinedStr, ast.FormattedValue, ast.BinOp)):
                    ok = True          # error messages
                if not ok:
                    bad.append("%s reads the token text case-sensitively at %s: %s" % (m, view.where(fref, n), ast.unparse(par)[:80] if par is not None else "?"))
        out.append(ob("token-text-read-only-through-upper", not bad and bool(used), dict(offenders=bad, functions=len(used)), used, pid))

    if "tables-append-only" in clauses:
        bad = []
        for m in sorted(run_methods):
            fref = view.methods[m]
            for n in ast.walk(fref.node):
                if isinstance(n, ast.Call) and isinstance(n.func, ast.Attribute):
                    p = attr_path(n.func)
                    if p and p[:2] == ("self", "tables") and len(p) == 3 and p[2] != "append" and p[2] in MUT:
                        bad.append("self.tables.%s at %s" % (p[2], view.where(fref, n)))
                if isinstance(n, (ast.Subscript,)) and isinstance(n.ctx, (ast.Store, ast.Del)) and attr_path(n.value) == ("self", "tables"):
                    bad.append("item store/delete on self.tables at %s" % view.where(fref, n))
                if isinstance(n, ast.Attribute) and isinstance(n.ctx, ast.Store) and attr_path(n) == ("self", "tables") and m not in ("parse_data", "run", "__init__"):
                    bad.append("self.tables rebound at %s" % view.where(fref, n))
        oc = prog.find_class("Output")
        fm = oc.methods["format"]
        for n in ast.walk(fm.node):
            if isinstance(n, ast.Call) and isinstance(n.func, ast.Attribute):
                p = attr_path(n.func)
                if p and p[:2] == ("self", "final_result") and p[2] != "append":
                    bad.append("self.final_result.%s in Output.format line %d" % (p[2], n.lineno))
        out.append(ob("results-accumulate-by-append-only", not bad, dict(offenders=bad), fkeys(run_methods) | {fm.key}, pid))

    for o in out:
        if o["status"] == "refuted":
            path = os.path.join(os.environ.get("VERIF_OUT") or VERIF, "replays", pid, o["name"].replace(":", "_").replace("/", "_") + ".json")
            os.makedirs(os.path.dirname(path), exist_ok=True)
            with open(path, "w") as f:
                json.dump(dict(obligation=o["name"], verifier_output=o["detail"],
                               note="frame clause: the counter-example is the offending AST node; no input to replay"), f, indent=1, default=str)
            o["replay_path"] = path
    return out
