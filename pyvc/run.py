"""ad-hoc runner: python3-vt -m pyvc.run <contracts module> [name filter]"""
import sys, time, json
from pyvc.program import Program
from pyvc.engine import Verifier, load_contract_modules, replay

def main():
    prog = Program()
    reg = load_contract_modules(prog, [sys.argv[1]])
    flt = sys.argv[2] if len(sys.argv) > 2 else ""
    from pyvc.fold import INTRINSICS, loop_handler
    V = Verifier(prog, reg, INTRINSICS, loop_handler)
    tot = ok = 0
    t0 = time.time()
    for C in reg:
        if C.module != "contracts." + sys.argv[1] or flt not in C.name:
            continue
        res = V.verify(C, timeout=float(__import__('os').environ.get('T', '5')))
        for ob in res:
            tot += 1
            if ob["status"] == "discharged":
                ok += 1
            else:
                print("  ", ob["name"], ob["status"], ob.get("solver"), ob.get("seconds"))
                print("      detail:", json.dumps(ob.get("detail"), default=str)[:int(__import__("os").environ.get("W", "300"))])
                print("      model:", ob.get("model"), "solver_detail:", str(ob.get("solver_detail"))[:300])
                if ob["status"] == "refuted":
                    r, path = replay(C, ob.get("model"), "adhoc")
                    print("      replay: reproduced=%s why=%s err=%s" % (r.get("reproduced"), r.get("why"), str(r.get("error"))[-400:]))
        print("%-70s %d obligations" % (C.name, len(res)), [o["status"] for o in res if o["status"] != "discharged"][:3])
    print("total", tot, "discharged", ok, "%.1fs" % (time.time() - t0))
main()
