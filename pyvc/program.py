"""Scratch copy of the repository package + AST index of the real source.

Everything the verifier reasons about is read from here on every run: the
current working tree of /repo/simple_ddl_parser is copied (never imported from
/repo, which would rewrite parsetab.py and create __pycache__ there) into a
fresh temporary directory together with the pure-Python `ply` package.
"""
import ast
import atexit
import importlib
import os
import shutil
import sys
import tempfile

REPO = os.environ.get("VERIF_REPO", "/repo")
PLY_SRC = "/venv/lib/python3.12/site-packages/ply"
PKG = "simple_ddl_parser"

_scratch = None


def scratch_dir():
    """Create (once per process) the scratch copy and return its path."""
    global _scratch
    if _scratch is None:
        d = tempfile.mkdtemp(prefix="pyvc_")
        shutil.copytree(
            os.path.join(REPO, PKG), os.path.join(d, PKG),
            ignore=shutil.ignore_patterns("__pycache__", "*.pyc", "parser.out"),
        )
        shutil.copytree(PLY_SRC, os.path.join(d, "ply"),
                        ignore=shutil.ignore_patterns("__pycache__", "*.pyc"))
        _scratch = d
        atexit.register(cleanup)
    return _scratch


def cleanup():
    global _scratch
    if _scratch and os.path.isdir(_scratch):
        shutil.rmtree(_scratch, ignore_errors=True)
    _scratch = None


class FuncRef:
    """A function of the repository, identified by module and qualified name."""

    def __init__(self, module, qualname, node, cls=None, kind="function"):
        self.module = module      # e.g. "simple_ddl_parser.dialects.sql"
        self.qualname = qualname  # e.g. "BaseSQL.p_expression_seq"
        self.node = node          # ast.FunctionDef
        self.cls = cls            # class name or None
        self.kind = kind          # function | method | staticmethod | classmethod

    @property
    def key(self):
        return self.module[len(PKG) + 1:] + "." + self.qualname

    def __repr__(self):
        return "<FuncRef %s>" % self.key


class ClassRef:
    def __init__(self, module, name, node):
        self.module, self.name, self.node = module, name, node
        self.methods = {}
        self.bases = [ast.unparse(b) for b in node.bases]

    def __repr__(self):
        return "<ClassRef %s.%s>" % (self.module, self.name)


class Program:
    """AST index over the scratch copy, plus the imported real modules for
    module-level constants and class MROs."""

    def __init__(self, import_real=True):
        self.root = scratch_dir()
        self.trees = {}     # module name -> ast.Module
        self.sources = {}
        self.funcs = {}     # module -> {name: FuncRef}
        self.classes = {}   # module -> {name: ClassRef}
        self.imports = {}   # module -> {local name: (module, name|None)}
        for dp, dn, fns in os.walk(os.path.join(self.root, PKG)):
            for fn in fns:
                if fn.endswith(".py") and fn != "parsetab.py":
                    path = os.path.join(dp, fn)
                    rel = os.path.relpath(path, self.root)[:-3].replace(os.sep, ".")
                    if rel.endswith(".__init__"):
                        rel = rel[: -len(".__init__")]
                    src = open(path, encoding="utf-8").read()
                    self.sources[rel] = src
                    self.trees[rel] = ast.parse(src, filename=path)
        for mod, tree in self.trees.items():
            self._index(mod, tree)
        self.real = {}
        if import_real:
            if self.root not in sys.path:
                sys.path.insert(0, self.root)
            for m in list(sys.modules):
                if m == PKG or m.startswith(PKG + ".") or m == "ply" or m.startswith("ply."):
                    del sys.modules[m]
            for mod in self.trees:
                self.real[mod] = importlib.import_module(mod)     # cli included: importing it only defines functions

    def _index(self, mod, tree):
        self.funcs[mod], self.classes[mod], self.imports[mod] = {}, {}, {}
        for node in tree.body:
            if isinstance(node, ast.FunctionDef):
                self.funcs[mod][node.name] = FuncRef(mod, node.name, node)
            elif isinstance(node, ast.ClassDef):
                c = ClassRef(mod, node.name, node)
                self.classes[mod][node.name] = c
                for it in node.body:
                    if isinstance(it, ast.FunctionDef):
                        kind = "method"
                        for d in it.decorator_list:
                            if isinstance(d, ast.Name) and d.id in ("staticmethod", "classmethod"):
                                kind = d.id
                        c.methods[it.name] = FuncRef(mod, "%s.%s" % (node.name, it.name), it, node.name, kind)
            elif isinstance(node, ast.ImportFrom):
                src = node.module
                if node.level:
                    base = mod.split(".")
                    src = ".".join(base[: len(base) - node.level] + ([node.module] if node.module else []))
                for a in node.names:
                    self.imports[mod][a.asname or a.name] = (src, a.name)
            elif isinstance(node, ast.Import):
                for a in node.names:
                    self.imports[mod][a.asname or a.name.split(".")[0]] = (a.name, None)

    # ---- lookups
    def func(self, key):
        """key like 'dialects.sql.BaseSQL.p_expression_seq' or 'utils.remove_par'"""
        parts = key.split(".")
        for i in range(len(parts), 0, -1):
            mod = PKG + "." + ".".join(parts[:i])
            if mod in self.trees:
                rest = parts[i:]
                if len(rest) == 1 and rest[0] in self.funcs[mod]:
                    return self.funcs[mod][rest[0]]
                if len(rest) == 2 and rest[0] in self.classes[mod]:
                    c = self.classes[mod][rest[0]]
                    if rest[1] in c.methods:
                        return c.methods[rest[1]]
                raise KeyError(key)
        raise KeyError(key)

    def find_class(self, name):
        for mod, cs in self.classes.items():
            if name in cs:
                return cs[name]
        raise KeyError(name)

    def mro(self, clsname):
        """MRO as class names, taken from the real imported class when available."""
        c = self.find_class(clsname)
        real = self.real.get(c.module)
        if real is not None and hasattr(real, clsname):
            return [k.__name__ for k in getattr(real, clsname).__mro__ if k is not object]
        out, todo = [], [clsname]
        while todo:  # simple DFS fallback
            n = todo.pop(0)
            if n in out:
                continue
            out.append(n)
            try:
                todo.extend(self.find_class(n).bases)
            except KeyError:
                pass
        return out

    def method(self, clsname, name):
        for k in self.mro(clsname):
            try:
                c = self.find_class(k)
            except KeyError:
                continue
            if name in c.methods:
                return c.methods[name]
        return None

    def resolve_global(self, mod, name):
        """Resolve a module-level name: returns ('func', FuncRef) | ('class', ClassRef) |
        ('module', modname) | ('const', value) | None."""
        if name in self.funcs.get(mod, {}):
            return ("func", self.funcs[mod][name])
        if name in self.classes.get(mod, {}):
            return ("class", self.classes[mod][name])
        if name in self.imports.get(mod, {}):
            src, attr = self.imports[mod][name]
            if attr is None:
                return ("module", src)
            if src in self.trees:
                r = self.resolve_global(src, attr)
                if r is not None:
                    return r
                sub = src + "." + attr
                if sub in self.trees:
                    return ("module", sub)
            else:
                sub = src + "." + attr
                try:
                    m = importlib.import_module(src)
                    v = getattr(m, attr)
                    import types
                    if isinstance(v, types.ModuleType):
                        return ("module", v.__name__)
                    return ("ext", (src, attr, v))
                except Exception:
                    return None
        real = self.real.get(mod)
        if real is not None and hasattr(real, name):
            return ("const", getattr(real, name))
        return None

    def production_alts(self, fref):
        """Parse a p_* docstring into [(lhs, [rhs symbols])] in source order."""
        doc = ast.get_docstring(fref.node, clean=False) or ""
        alts, lhs = [], None
        for line in doc.splitlines():
            line = line.strip()
            if not line:
                continue
            if ":" in line and not line.startswith("|"):
                lhs, rhs = line.split(":", 1)
                lhs = lhs.strip()
                alts.append((lhs, rhs.split()))
            elif line.startswith("|"):
                alts.append((lhs, line[1:].split()))
        return alts
