"""fold-form loop rule and sequence combinators (filled in below)"""
INTRINSICS = {}
loop_handler = None
