"""Unbounded lists: sequence combinators over opaque sequences and the fold-form loop rule.

Loop rule (trusted logic of the verifier, as the while-rule is in any Hoare-logic tool):
for `for x in xs: body` with xs an opaque sequence and a sidecar invariant
    inv(case, pre, rest, entry) -> {expr: value}
giving the value of every location the loop modifies as a function of the processed prefix
`pre` (original elements), the unprocessed `rest` and the loop-entry values, the engine checks
  (base)  the current state equals inv(pre=[], rest=xs, entry)
  (step)  from the state inv(pre=P, rest=[x]+R) with P, R fresh opaque sequences and x a generic
          element, one execution of the body yields inv(pre=P+[x_old], rest=R); nothing else
          reachable from the local variables changes; the body neither breaks nor returns
and continues after the loop with inv(pre=xs, rest=[]).
"""
import ast

import z3

from .interp import BreakEx, ContinueEx, EnumOSeq, Env, ReturnEx
from .values import Closure, Infeasible, OSeq, PyRaise, SBool, Unsupported, is_sym
from .program import FuncRef


class LoopObligation(Exception):
    """terminates the current path with a loop obligation as its goal"""

    def __init__(self, kind, goal, detail=None):
        self.kind, self.goal, self.detail = kind, goal, detail


def _free_vars(node):
    params = {a.arg for a in node.args.args} if hasattr(node, "args") else set()
    names = []
    body = node.body if isinstance(node.body, list) else [node.body]
    for b in body:
        for n in ast.walk(b):
            if isinstance(n, ast.Name) and n.id not in params and n.id not in names:
                names.append(n.id)
    return names


def fkey(I, f):
    if isinstance(f, FuncRef):
        k = "%s:%s" % (f.module, f.qualname)
        I.__dict__.setdefault("fkeys", {})[k] = f
        return k
    if isinstance(f, Closure):
        vals = []
        for n in _free_vars(f.node):
            found, v = f.env.lookup(n) if f.env is not None else (False, None)
            if not found:
                continue
            if is_sym(v):
                vals.append("%s=%s" % (n, v.t.sexpr()))
            elif isinstance(v, (str, int, bool, type(None), tuple)):
                vals.append("%s=%r" % (n, v))
            elif isinstance(v, (OSeq, list, dict)):
                # captured containers are compared by structure (the reference side works on a deep copy)
                import json
                from .engine import describe
                vals.append("%s~%s" % (n, json.dumps(describe(v), sort_keys=True, default=str)))
            else:
                vals.append("%s@%d" % (n, id(v)))
        k = "%s:%d:%d{%s}" % (f.module, f.node.lineno, f.node.col_offset, ",".join(vals))
        I.__dict__.setdefault("fkeys", {})[k] = f
        return k
    raise Unsupported("sequence combinator over %r" % (f,))


def _segs(I, xs):
    if isinstance(xs, OSeq):
        return xs.segs
    return [("i", x) for x in I.iter_values(xs)]


def i_seq_map(I, args, kwargs):
    f, xs = args
    out = []
    for kind, v in _segs(I, xs):
        if kind == "i":
            out.append(("i", I.call(f, [v])))
        else:
            out.append(("o", ("map", fkey(I, f), v)))
    return _mk(out)


def i_seq_filter(I, args, kwargs):
    f, xs = args
    out = []
    for kind, v in _segs(I, xs):
        if kind == "i":
            if I.truth(I.call(f, [v])):
                out.append(("i", v))
        else:
            out.append(("o", ("filter", fkey(I, f), v)))
    return _mk(out)


def i_seq_flatmap(I, args, kwargs):
    f, xs = args
    out = []
    for kind, v in _segs(I, xs):
        if kind == "i":
            out.extend(_segs(I, I.call(f, [v])))
        else:
            out.append(("o", ("flat", fkey(I, f), v)))
    return _mk(out)


def i_seq_fold(I, args, kwargs):
    """seq_fold(f, init, xs): left fold.  Explicit items are folded by calling f; an opaque part P contributes the
    uninterpreted term fold<f>(acc, P) - so fold(f, a, P + [x]) is, by construction, f(fold(f, a, P), x)."""
    from .values import Opaque
    f, acc, xs = args
    for kind, v in _segs(I, xs):
        if kind == "i":
            acc = I.call(f, [acc, v])
        else:
            acc = Opaque("fold", [fkey(I, f), acc, OSeq([("o", v)])])
    return acc


def _mk(segs):
    if all(k == "i" for k, _ in segs):
        return [v for _, v in segs]
    return OSeq(segs)


def _idx_name(I, term, predkey):
    import hashlib
    return hashlib.md5(("%s|%s" % (I.term_name(term), predkey)).encode()).hexdigest()[:10]


def found_record(I, term, pred):
    """the first element of the opaque sequence `term` that satisfies `pred`, if any: an unknown flag `found`, an
    unknown position idx (0 <= idx < len) and a generic element that satisfies pred.  One record per (side, sequence,
    predicate): the function under verification and the reference get structurally equal, separate element objects."""
    predkey = fkey(I, pred)
    tag = _idx_name(I, term, predkey)
    recs = I.__dict__.setdefault("found_records", {})
    key = (getattr(I, "side", "fn"), tag)
    if key not in recs:
        found = z3.Bool("found<%s>" % tag)
        idx = z3.Int("idx<%s>" % tag)
        elem = elem_of(I, term, "hit:%s" % tag)
        recs[key] = dict(found=found, idx=idx, elem=elem, term=term, tag=tag, pred=pred, assumed=False)
    return recs[key]


def _assume_found(I, rec):
    if not rec["assumed"]:
        rec["assumed"] = True
        I.ctx.assume(rec["idx"] >= 0)
        I.ctx.assume(rec["idx"] < I.seq_len_term(rec["term"]))
        if not I.truth(I.call(rec["pred"], [rec["elem"]])):
            raise Infeasible()


def _single_opaque(xs):
    return isinstance(xs, OSeq) and len(xs.segs) == 1 and xs.segs[0][0] == "o"


def i_first_index(I, args, kwargs):
    pred, xs = args
    if not isinstance(xs, OSeq):
        for i, x in enumerate(I.iter_values(xs)):
            if I.truth(I.call(pred, [x])):
                return i
        return None
    if not _single_opaque(xs):
        raise Unsupported("first_index over a sequence with explicit items and an opaque part")
    rec = found_record(I, xs.segs[0][1], pred)
    if I.ctx.branch(rec["found"]):
        _assume_found(I, rec)
        from .values import SInt
        return SInt(rec["idx"])
    return None


def i_seq_at(I, args, kwargs):
    return I.getitem(args[0], args[1])


def i_seq_remove_at(I, args, kwargs):
    xs, i = args
    if isinstance(xs, OSeq):
        r = OSeq(list(xs.segs))
        I.oseq_del_at(r, i)
        return r
    r = list(xs)
    del r[i]
    return r


def i_seq_replace_at(I, args, kwargs):
    xs, i, v = args
    if isinstance(xs, OSeq):
        r = OSeq(list(xs.segs))
        I.oseq_set_at(r, i, v)
        return r
    r = list(xs)
    r[i] = v
    return r


def i_opaque(I, args, kwargs):
    """opaque(tag, *args): the result of an unmodelled computation, a function of its arguments only
    (used by the specs of callees that are trusted / verified elsewhere)"""
    from .values import Opaque
    return Opaque(args[0], list(args[1:]))


def i_ghost_call(I, args, kwargs):
    """ghost_call(tag, *args): records an observable external effect (a file written, ...) in the ghost log of the
    current side (function under verification / reference); the two logs must be equal"""
    I.__dict__.setdefault("ghost", []).append([args[0]] + list(args[1:]))
    return None


INTRINSICS = {"ghost_call": i_ghost_call, "first_index": i_first_index, "seq_at": i_seq_at, "seq_remove_at": i_seq_remove_at, "seq_replace_at": i_seq_replace_at,
              "seq_map": i_seq_map, "seq_filter": i_seq_filter, "seq_fold": i_seq_fold, "seq_flatmap": i_seq_flatmap, "opaque": i_opaque}


# ------------------------------------------------------------------ loop rule

def _for_ordinal(fnode, node):
    fors = sorted((n for n in ast.walk(fnode) if isinstance(n, ast.For)), key=lambda n: (n.lineno, n.col_offset))
    for i, n in enumerate(fors):
        if n is node:
            return i
    return -1


def _eval_expr(I, expr, env):
    return I.ev(ast.parse(expr, mode="eval").body, env)


def _assign_expr(I, expr, value, env):
    t = ast.parse(expr + " = 0").body[0].targets[0]
    I.assign(t, value, env)


def elem_of(I, term, name):
    """generic element of an opaque sequence term"""
    G = I.G
    if term[0] == "base":
        b = G.elem_builders.get(term[1])
        if b is None:
            raise Unsupported("no element schema for opaque sequence %s" % term[1])
        return b(G, name)
    if term[0] == "map":
        return I.call(I.fkeys[term[1]], [elem_of(I, term[2], name)])
    if term[0] == "filter":
        x = elem_of(I, term[2], name)
        if not I.truth(I.call(I.fkeys[term[1]], [x])):
            raise Infeasible()
        return x
    raise Unsupported("generic element of %r" % (term,))


def loop_handler(I, node, it, env):
    enum = None
    if isinstance(it, EnumOSeq):
        enum, it = it, it.seq
    if not (isinstance(it, OSeq) and any(k == "o" for k, _ in it.segs)):
        return NotImplemented
    fref = env.fref
    if fref is None:
        raise Unsupported("loop over opaque sequence outside a function")
    ordinal = _for_ordinal(fref.node, node)
    spec = I.loop_specs.get((fref.key, ordinal))
    if spec is None:
        raise Unsupported("loop over opaque sequence without invariant: %s loop %d (line %d)" % (fref.key, ordinal, node.lineno))
    if len(it.segs) != 1:
        raise Unsupported("loop over a sequence with explicit items and an opaque part")
    if node.orelse:
        raise Unsupported("for/else over opaque sequence")
    C, inv_ref, temps = spec["contract"], spec["inv"], spec.get("temps", ())
    term = it.segs[0][1]
    if spec.get("kind") == "search":
        return search_loop(I, node, it, enum, env, spec, term, fref, ordinal)
    I.loop_counter = getattr(I, "loop_counter", 0) + 1
    tag = "%s.%d#%d" % (fref.node.name, ordinal, I.loop_counter)

    def inv(pre, rest, entry):
        r = I.call_ref(inv_ref, [C.case, pre, rest, entry], {}, top=True)
        if not isinstance(r, dict):
            raise Unsupported("loop invariant must return a dict")
        return r

    # loop-entry values of the declared locations (and of the loop-invariant inputs the invariant reads)
    reads = {}
    for expr in spec.get("reads", ()):
        reads[expr] = _eval_expr(I, expr, env)
    probe = inv([], it, dict(reads))
    entry = dict(reads)
    for expr in probe:
        try:
            entry[expr] = _eval_expr(I, expr, env)
        except (PyRaise, Unsupported):
            entry[expr] = None
    which = I.ctx.choose(3, "loop:" + tag)
    if which == 0:
        # (base)
        s0 = inv([], it, entry)
        goals = []
        for expr, v in s0.items():
            goals.append(I.eq(entry[expr], v) if entry[expr] is not None or v is None else False)
        raise LoopObligation("loop-base:" + tag, I.and_all(goals), dict(entry={k: repr(v)[:200] for k, v in entry.items()}))
    if which == 1:
        # (step)
        P, R = ("base", "pre:" + tag), ("base", "rest:" + tag)
        for t_ in (P, R):
            I.ctx.assume(I.seq_len_term(t_) >= 0)
        I.G.elem_builders[P[1]] = lambda G, name, _t=term: elem_of(I, _t, name)
        I.G.elem_builders[R[1]] = I.G.elem_builders[P[1]]
        x = elem_of(I, term, "x:" + tag)
        x_old = I.deepcopy(x, {})
        state = inv(OSeq([("o", P)]), OSeq([("i", x), ("o", R)]), entry)
        for expr, v in state.items():
            _assign_expr(I, expr, v, env)
        for tname in temps:
            env.vars.pop(tname, None)
        declared = set(state) | set(temps)
        others = {k: v for k, v in env.vars.items() if k not in declared and not _is_target(node.target, k)}
        snap_memo = {}
        snapshot = {k: I.deepcopy(v, snap_memo) for k, v in others.items()}
        # locations described by the invariant may legitimately change inside `others` (e.g. self.columns):
        if enum is not None:
            idx = I.b_len(OSeq([("o", P)]))
            I.assign(node.target, (I.binop(ast.Add(), idx, enum.start) if enum.start else idx, x), env)
        else:
            I.assign(node.target, x, env)
        try:
            I.exec_block(node.body, env)
        except ContinueEx:
            pass
        except BreakEx:
            raise LoopObligation("loop-step:" + tag, False, "break inside a loop handled by the fold rule")
        except ReturnEx:
            raise LoopObligation("loop-step:" + tag, False, "return inside a loop handled by the fold rule")
        expected = inv(OSeq([("o", P), ("i", x_old)]), OSeq([("o", R)]), entry)
        goals, detail = [], {}
        from .engine import describe, state_eq
        for expr, v in expected.items():
            cur = _eval_expr(I, expr, env)
            g = state_eq(I, cur, v)
            goals.append(g)
            if g is not True:
                detail[expr] = dict(after_body=describe(cur), invariant=describe(v))
        # frame: everything else reachable from the locals is unchanged, except through declared locations
        for expr, v in expected.items():
            _assign_expr(I, expr, None, env) if "." in expr or "[" in expr else None
        for expr, v in state.items():
            if "." in expr or "[" in expr:
                # neutralise the declared heap location in the snapshot as well
                try:
                    senv = Env(env.module, None, env.fref)
                    senv.vars = snapshot
                    _assign_expr(I, expr, None, senv)
                except (PyRaise, Unsupported, KeyError):
                    pass
        for k, v in others.items():
            g = state_eq(I, v, snapshot[k])
            goals.append(g)
            if g is not True:
                detail["frame:" + k] = dict(after_body=describe(v), before=describe(snapshot[k]))
        raise LoopObligation("loop-step:" + tag, I.and_all(goals), detail)
    # (exit) continue after the loop with the invariant at pre = whole sequence
    final = inv(it, [], entry)
    for expr, v in final.items():
        _assign_expr(I, expr, v, env)
    return True


def search_loop(I, node, it, enum, env, spec, term, fref, ordinal):
    """`for [i,] x in xs: if cond(x): <effects>; break` over an opaque sequence.
    (step)  for a generic element: the body breaks exactly when the contract's predicate holds, and an element that
            does not match changes nothing;
    (exit)  the loop's net effect is the body executed once on the first matching element (an unknown position with a
            generic element satisfying the predicate), or nothing when no element matches."""
    C = spec["contract"]
    I.loop_counter = getattr(I, "loop_counter", 0) + 1
    tag = "%s.%d#%d" % (fref.node.name, ordinal, I.loop_counter)
    reads = {}
    for expr in spec.get("reads", ()):
        reads[expr] = _eval_expr(I, expr, env)
    pred = I.call_ref(spec["inv"], [C.case, reads], {}, top=True)       # the predicate closure
    from .engine import describe, state_eq
    which = I.ctx.choose(2, "search:" + tag)
    if which == 0:
        x = elem_of(I, term, "x:" + tag)
        n = I.ctx.fresh("int", "n")
        I.ctx.assume(n >= 0)
        from .values import SInt
        snap_memo = {}
        before = {k: I.deepcopy(v, snap_memo) for k, v in env.vars.items() if not _is_target(node.target, k)}
        x_before = I.deepcopy(x, {})
        I.assign(node.target, (SInt(n), x) if enum is not None else x, env)
        matches = I.truth(I.call(pred, [x_before]))
        broke = False
        try:
            I.exec_block(node.body, env)
        except BreakEx:
            broke = True
        except ContinueEx:
            pass
        except ReturnEx:
            raise LoopObligation("search-step:" + tag, False, "return inside a search loop")
        if broke != matches:
            raise LoopObligation("search-step:" + tag, False, dict(problem="the loop %s on an element for which the contract's predicate is %s" % ("breaks" if broke else "does not break", matches),
                                                                      element=describe(x_before)))
        if broke:
            raise LoopObligation("search-step:" + tag, True, None)
        goals, detail = [], {}
        g = state_eq(I, x, x_before)
        goals.append(g)
        for k, v in before.items():
            gk = state_eq(I, env.vars.get(k), v)
            goals.append(gk)
            if gk is not True:
                detail["frame:" + k] = dict(after_body=describe(env.vars.get(k)), before=describe(v))
        raise LoopObligation("search-step:" + tag, I.and_all(goals), detail or None)
    # (exit)
    rec = found_record(I, term, pred)
    if I.ctx.branch(rec["found"]):
        _assume_found(I, rec)
        from .values import SInt
        y = rec["elem"]
        y_before = describe(y)
        I.assign(node.target, (SInt(rec["idx"]), y) if enum is not None else y, env)
        try:
            I.exec_block(node.body, env)
            raise LoopObligation("search-exit:" + tag, False, "the body does not break on an element that satisfies the predicate")
        except BreakEx:
            pass
        if describe(y) != y_before:
            I.oseq_set_at(it, SInt(rec["idx"]), y)
    elif node.orelse:
        I.exec_block(node.orelse, env)
    return True


def _is_target(t, name):
    return any(isinstance(n, ast.Name) and n.id == name for n in ast.walk(t))
