"""Per-property configuration of the checks."""

TRUSTED_BASE = [
    "pyvc symbolic interpreter (DESIGN 2.3/2.4: Python semantics assumed for the modelled subset)",
    "cvc5 1.0.3 (/usr/bin/cvc5 --strings-exp) and z3 5.1.0 (z3-solver wheel)",
    "A-PLY-LR: ply.yacc.LRParser.parse calls the bound production function with p[1..n] = semantic values, stores p[0]",
    "A-PLY-LEX: ply.lex.Lexer.token returns the first matching rule's token passed through its rule function",
    "A-PY / A-RE / A-DC: CPython 3.12, re, dataclasses behave as documented",
]
ASSUMPTIONS = [
    "ints are mathematical (exact for Python), strings are printable ASCII (Parser.__init__ escapes input to ASCII)",
    "which production alternatives the LALR tables select for a sentence is observed (bounded), not proved",
    "attribute-grammar induction over derivations (per-alternative invariants => root invariant) is stated, not machine-checked",
]
EXTRACTION_DROPS = [
    "type annotations", "docstrings (p_* docstrings are parsed for the production alternatives)",
    "logging calls (no-ops)", "calls to functions with a `modular` contract are replaced by that contract's reference",
]

NOT_APPLICABLE = {}

TECH = "contract-based deductive verification: symbolic execution of the real AST, VCs discharged by z3/cvc5, counter-models replayed on the real code"

PROPS = {
    "C13": dict(
        contracts=["c13"], level="proof",
        explanation="fold-form (inductive) proof of Output.group_by_type_result against the filter/flatmap specification, unbounded in the number of entities",
        level_text="Output.group_by_type_result is proved, for flat lists of any length, to produce in every bucket exactly the order-preserving filter of the flat list by kind, "
                   "the concatenated comment texts, the six base buckets always and tablespaces/databases only when non-empty (loop base, inductive step with a generic entity, exit)",
        level_note="precondition: every flat item carries exactly one marker key (monitored in the bounded runs); the induction principle of the loop rule and the "
                   "filter-is-an-order-preserving-partition lemma are part of the trusted logic; Output.format's flat-list construction is covered under C03",
        technique=TECH,
    ),
    "C17": dict(
        contracts=["c17"], level="proof",
        explanation="function-level contracts on the sequence productions (exact key, exact integer, frame on every other key)",
        level_text="every production alternative of the CREATE SEQUENCE fragment is proved, for all option values and all prior option states, "
                   "to set exactly its documented key to the exact integer / False / True and to leave every other key untouched",
        level_note="proved per function over the real AST; that the LALR tables pick these alternatives and that the lexer types the option words is covered by the lexer contracts / bounded stand-in; PLY driver trusted",
        technique=TECH,
    ),
}
