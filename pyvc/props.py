"""Per-property configuration of the checks."""

TRUSTED_BASE = [
    "pyvc symbolic interpreter (DESIGN 2.3/2.4: Python semantics assumed for the modelled subset)",
    "cvc5 1.0.3 (/usr/bin/cvc5 --strings-exp) and z3 5.1.0 (z3-solver wheel)",
    "A-PLY-LR: ply.yacc.LRParser.parse calls the bound production function with p[1..n] = semantic values, stores p[0]",
    "A-PLY-LEX: ply.lex.Lexer.token returns the first matching rule's token passed through its rule function",
    "A-PY / A-RE / A-DC: CPython 3.12, re, dataclasses behave as documented",
]
ASSUMPTIONS = [
    "ints are mathematical (exact for Python), strings are printable ASCII (Parser.__init__ escapes input to ASCII)",
    "which production alternatives the LALR tables select for a sentence is observed (bounded), not proved",
    "attribute-grammar induction over derivations (per-alternative invariants => root invariant) is stated, not machine-checked",
]
EXTRACTION_DROPS = [
    "type annotations", "docstrings (p_* docstrings are parsed for the production alternatives)",
    "logging calls (no-ops)", "calls to functions with a `modular` contract are replaced by that contract's reference",
]

NOT_APPLICABLE = {}

TECH = "contract-based deductive verification: symbolic execution of the real AST, VCs discharged by z3/cvc5, counter-models replayed on the real code"

PROPS = {
    "C13": dict(
        contracts=["c13", "c12"], bounded=True, level="proof",
        explanation="fold-form (inductive) proof of Output.group_by_type_result against the filter/flatmap specification, unbounded in the number of entities",
        level_text="Output.group_by_type_result is proved, for flat lists of any length, to produce in every bucket exactly the order-preserving filter of the flat list by kind, "
                   "the concatenated comment texts, the six base buckets always and tablespaces/databases only when non-empty (loop base, inductive step with a generic entity, exit)",
        level_note="precondition: every flat item carries exactly one marker key (monitored in the bounded runs); the induction principle of the loop rule and the "
                   "filter-is-an-order-preserving-partition lemma are part of the trusted logic; Output.format's flat-list construction is covered under C03",
        technique=TECH,
    ),
    "C01": dict(
        contracts=["lexer"], bounded=True, level="other",
        explanation="deductive: every word in a column-name position is typed ID and kept verbatim (lexer contract, all values, any nesting depth); "
                    "BOUNDED deciding step: generated tables (ordered option lists x type/size/default forms x layouts, 1-4 tables x 1-9 columns) compared with the abstract schema",
        level_text="column reproduction is decided by a bounded run-level contract over generated schemas; the token-typing part that decides name vs keyword is proved for all values",
        level_note="grammar actions for column/defcolumn are not yet under contract in this revision (bounded only); LALR alternative selection and the regex pre-processor are observed, not proved",
        technique="contract-based deductive verification of the lexer context + bounded run-time contract on DDLParser.run (generated schemas)",
    ),
    "C03": dict(
        contracts=["c03"], frames=["lexer-reset-complete", "tables-append-only", "no-shared-mutable-skeleton"], bounded=True, level="other",
        explanation="deductive (frames): every lexer flag written while lexing is reset before each statement parse, the reset precedes every parse, results accumulate by append only; "
                    "BOUNDED deciding step for the textual part: ordered pairs / triples of statement units and unsupported statements inserted at every position vs concatenation of single-statement results",
        level_text="independence of statements: per-statement reset and append-only accumulation are proved as frame obligations; line-based statement assembly (regexes) is decided by a bounded concatenation contract",
        level_note="line splitting and comment/quote regexes are outside the deductive reach (look-arounds); PLY's per-parse state reset is A-PLY-LR",
        technique="contract-based deductive verification: frame obligations (static analysis of the real ASTs) + bounded run-time contract (concatenation oracle)",
    ),
    "C06": dict(
        contracts=["c06", "lexer"], frames=["normalize-only-in-p_id"], bounded=True, level="proof",
        explanation="p_id: verbatim copy with the flag off, exactly one outer delimiter pair stripped with it on, in every lexer context; normalize_names is read nowhere else (frame)",
        level_text="the single id production is proved for all identifier strings and all lexer contexts to copy the token verbatim (flag off) or strip exactly one outer delimiter pair (flag on); "
                   "a frame obligation shows normalize_names is read nowhere else, so every other value is independent of the flag",
        level_note="name-position token typing is covered by the lexer contracts; quoted-identifier tokenisation (lexer regexes) and downstream code that inspects delimiter characters are outside the deductive part",
        technique=TECH,
    ),
    "C14": dict(
        contracts=["c12"], frames=["init-before-use", "class-level-state", "file-path-only-under-dump", "global-purity", "ordered-iteration", "no-shared-mutable-skeleton"], bounded=True, level="proof",
        explanation="frame obligations over the real ASTs: every instance attribute written on the run() path is definitely assigned before use in each run (must-analysis with per-method summaries, "
                    "PLY callbacks = any t_*/p_* method), no class-level mutable state is mutated through instances, file-system calls only under `if dump`",
        level_text="static frame / definite-assignment obligations over the real source: no parser state is carried from one run() to the next, no class-level mutable state, no file access unless dump is requested",
        level_note="sound over-approximate analysis (flow-insensitive in expressions, context-insensitive across calls); hash-seed independence of PLY table construction and other processes are not covered",
        technique="contract-based deductive verification: frame / initialisation obligations decided by static analysis of the real ASTs",
    ),
    "C15": dict(
        frames=["global-purity", "class-level-state", "no-shared-mutable-skeleton"], bounded=True, level="proof",
        explanation="frame obligations: construct and run paths never read PLY's process-global parser/lexer, write no module globals; the statement parse goes through self.yacc with lexer=self.lexer; "
                    "with disjoint per-object footprints any interleaving of different objects' operations is equivalent to a sequential one",
        level_text="global-purity frame obligations over the real source; the footprint-commutation argument (disjoint per-object state => interleavings equivalent to sequential runs) is stated, not machine-checked",
        level_note="PLY's own module-level state is written by lex.lex()/yacc.yacc() but never read by the library (A-PLY); CPython thread scheduling inside PLY/re is not modelled",
        technique="contract-based deductive verification: frame / global-purity obligations decided by static analysis of the real ASTs",
    ),
    "C16": dict(
        contracts=["c16"], frames=["silent-only-in-p_error", "lexer-reset-complete"], bounded=True, level="proof",
        explanation="p_error raises DDLParserError iff not silent; t_error always raises the library's exception; run() raises SimpleDDLParserException for every unknown mode; "
                    "frame: `silent` is read only in p_error and in the exception handler of parse_statement, so both settings execute identical paths on input that does not reach an error callback",
        level_text="error callbacks proved against their contracts for all tokens and lexer contexts; frame obligation shows the silent flag cannot influence anything but error reporting",
        level_note="that supported DDL never reaches p_error depends on the LALR tables (observed by the bounded runs, not proved); ValueError from int() on a non-numeric sequence option is a known finding",
        technique=TECH,
    ),
    "C17": dict(
        contracts=["c17", "lexer"], bounded=True, level="proof",
        explanation="function-level contracts on the sequence productions (exact key, exact integer, frame on every other key)",
        level_text="every production alternative of the CREATE SEQUENCE fragment is proved, for all option values and all prior option states, "
                   "to set exactly its documented key to the exact integer / False / True and to leave every other key untouched",
        level_note="proved per function over the real AST; that the LALR tables pick these alternatives and that the lexer types the option words is covered by the lexer contracts / bounded stand-in; PLY driver trusted",
        technique=TECH,
    ),
}

BTECH = "contract-based deductive verification of the functions within the verifier's reach + bounded run-time contract on DDLParser.run (labelled BOUNDED; never counted as proved)"

PROPS.update({
    "C02": dict(
        contracts=["c01", "c02"], bounded=True, level="other",
        explanation="deductive: the column-option productions (effect + frame from an arbitrary column state), the key / unique / reference post-processing of BaseData (fold-form over the column list); "
                    "BOUNDED deciding step for the grammar-level folding: tables generated from an abstract model of inline and table-level PRIMARY KEY / UNIQUE / CHECK / FOREIGN KEY declarations",
        level_text="per-function contracts on the productions and on the post-processing are proved; which alternatives the LALR tables select and the table-level folding of constraints are decided by a bounded run-level contract",
        level_note="p_expression_table's constraint branches and process_constraints_and_refs are bounded only; open known findings are listed in known_findings.json",
        technique=BTECH,
    ),
    "C04": dict(
        contracts=["c04"], bounded=True, level="other",
        explanation="deductive: table-id normalisation (quoting / case insensitive, schema-sensitive), registry lookup raises for unknown ids, alter effects on the column list; "
                    "BOUNDED deciding step: scripts of 1-4 tables followed by ALTER / CREATE INDEX sequences with every target spelling, model-based oracle + frame check on untargeted tables",
        level_text="routing and registry functions proved per function; the effect of statement sequences is decided by a bounded run-level contract against a model",
        level_note="grammar actions for ALTER / INDEX are bounded only in this revision",
        technique=BTECH,
    ),
    "C05": dict(
        contracts=["lexer", "c05", "c03"], frames=["token-text-only-through-upper"], bounded=True, level="other",
        explanation="deductive: relational lexer contracts (a keyword in any letter case is typed and upper-cased like its upper-case spelling, an ID keeps its text); "
                    "BOUNDED deciding step for layout: re-renderings (case pattern per keyword x separator per gap x line-break set, CRLF) of generated statements and of the regression corpus",
        level_text="layout invariance is decided by a bounded metamorphic contract; the case-insensitive keyword typing is proved for the lexer contexts under contract",
        level_note="pre_process_data / regex_n (look-around regexes) are outside the deductive reach; open known findings (string literal at a line start) are listed in known_findings.json",
        technique=BTECH,
    ),
    "C07": dict(
        contracts=["c07"], bounded=True, level="other",
        explanation="deductive: the productions and helpers that carry a literal (p_default incl. digits->int for any length, p_string, p_comment, p_collate, value lists, check_spec) copy it verbatim; "
                    "BOUNDED deciding step for the transport through the regex pre-processor and the lexer: literals over a 39-symbol alphabet in every literal position",
        level_text="verbatim copying is proved for the grammar actions; the pre-processor transport is decided by bounded enumeration of literals, with the known alterations listed as findings",
        level_note="pre_process_data, equal_without_space, process_in_comment, t_STRING_BASE are regexes outside the deductive reach",
        technique=BTECH,
    ),
    "C09": dict(
        contracts=["c09"], frames=["lexer-reset-complete"], bounded=True, level="proof",
        explanation="bracket counter (lt_open' = lt_open + #'<' - #'>'), LT / RT typing, inner-comma typing, type text assembly (p_tid), the five size forms (get_size, p_column) proved for all token texts; "
                    "bounded run-level contract over the recursive type grammar as cross-check of alternative selection",
        level_text="the nesting counter, bracket token typing, inner-comma typing, in-order assembly of the type text and the size forms (n), (p,s), (max), (n CHAR), (*,s) are proved for all values at function level",
        level_note="that the LALR tables select these alternatives for a type expression is observed by the bounded runs (type grammar to depth 3-5), not proved",
        technique=TECH,
    ),
    "C11": dict(
        contracts=["c11", "c10", "c05"], bounded=True, level="other",
        explanation="deductive: clause productions set exactly their key and leave every other key of the table untouched (effect + frame), pre_load_mods routing of declared fields vs table_properties; "
                    "BOUNDED deciding step: 41 clause kinds x table bodies x orders x {owning mode, sql}, metamorphic oracle (with clauses == without clauses + catalogue keys)",
        level_text="clause orthogonality is decided by a bounded metamorphic contract; the clause productions under contract are proved to write only their own key",
        level_note="after-columns keyword tables and reduce/reduce resolution are observed, not proved",
        technique=BTECH,
    ),
    "C18": dict(
        contracts=["c18", "c07"], bounded=True, level="other",
        explanation="deductive: type / domain / schema / database / tablespace productions build one dict with the documented keys and verbatim names; "
                    "BOUNDED deciding step: every option subset / name form / value-list length, alone and between other statements",
        level_text="entity productions under contract are proved per alternative; alternative selection and statements as a whole are decided by a bounded run-level contract",
        level_note="open known findings (size-less DOMAIN, IF NOT EXISTS ... AUTHORIZATION, ARRAY inside a type name) are listed in known_findings.json",
        technique=BTECH,
    ),
    "C19": dict(
        contracts=["c19", "c12"], bounded=True, level="other",
        explanation="deductive: the CLI extension filter (exactly .sql .ddl .hql .bql by the last dot-separated segment); "
                    "BOUNDED deciding step: temp-dir runs of parse_from_file / dump / sdp CLI (17 encodings, file names with dots, target directories, flag combinations) against the in-memory API",
        level_text="file / dump / CLI agreement is decided by a bounded run-time contract in temporary directories; the pure extension filter is proved",
        level_note="the OS, argparse and codecs are trusted (A-OS)",
        technique=BTECH,
    ),
})

PROPS.update({
    "C08": dict(
        contracts=["c08"], bounded=True, level="other",
        explanation="deductive: whole-line comment handling of the line pre-processor (a whole-line -- / # comment yields an empty code line and leaves the statement state untouched); "
                    "BOUNDED deciding step: insertion of every comment style with quote-free text at every position of generated scripts and the corpus, metamorphic oracle (entities unchanged, comments only from comments, in order)",
        level_text="comment transparency is decided by a bounded metamorphic contract; the whole-line comment path of the line pre-processor is proved",
        level_note="process_inline_comments / process_in_comment (split / regex search over arbitrary text) are outside the deductive reach; open known findings are listed in known_findings.json",
        technique=BTECH,
    ),
    "C10": dict(
        contracts=["c10", "c16", "c12"], frames=["output-mode-not-read-before-output"], bounded=True, level="other",
        explanation="deductive: the output filter (filter_out_output / to_dict) keeps every field without exclusion metadata for every init_data and every mode, dialect fields pass only in their documented modes; "
                    "run() rejects exactly the unknown modes; frame: output_mode is not read before Output is built (parsed statements are mode independent); "
                    "BOUNDED deciding step: generated scripts and the corpus x 15 modes x flags compared with the default mode on common content",
        level_text="mode independence of parsing is a proved frame obligation and the per-field filter is proved; equality of common content across the 15 modes is decided by a bounded run-level contract",
        level_note="dataclass construction of the per-mode classes (type(...) + dataclass) is A-DC; Redshift / Oracle post_process are bounded only",
        technique=BTECH,
    ),
    "C12": dict(
        contracts=["c12", "c01", "c17", "c10", "c02"], bounded=True, level="other",
        explanation="deductive: every column value leaving p_defcolumn carries the eight documented keys with boolean unique / nullable, to_dict keeps the nine table keys in every mode, "
                    "run(json_dump=True) returns json.dumps of what it returns otherwise; BOUNDED deciding step: all generators and the corpus x modes x flags: shape, JSON round trip",
        level_text="shape invariants of the column and table skeleton are proved for the productions under contract; the whole-result shape and JSON-serialisability are decided by a bounded run-level contract",
        level_note="alternatives without a contract (about 60 % of the grammar) are bounded only",
        technique=BTECH,
    ),
    "C20": dict(
        frames=["ply-cache-settings"], bounded=True, level="other", bounded_timeout=3000,
        explanation="no repository function computes the LALR tables (ply.yacc does); the property is stated as a run-time contract on Parser.__init__ "
                    "(tables in use == fresh generation from the declared grammar) and checked exhaustively over the property's finite cache-state space "
                    "{valid, missing, stale signature, older table version, genuinely older grammar, unwritable} with corpus + generated scripts in each state",
        level_text="BOUNDED run-time contract, exhaustive over the cache states of the statement: tables in use equal a fresh generation; results equal across states",
        level_note="deduction not applicable to PLY's generator (3 500 external lines); equality of tables gives equality of results for all inputs only by A-PLY-LR",
        technique="run-time contract on Parser.__init__ (tables in use == LALR(declared grammar)) checked in every cache state; bounded, never counted as proved",
    ),
})
PROPS["C01"].update(
    contracts=["lexer", "c01", "c07", "c09", "c03", "c02"],
    explanation="deductive: every word in a column-name position is typed ID and kept verbatim (lexer contract); column / defcolumn productions: each option sets exactly its own attribute from an arbitrary column state "
                "(any option order), sizes and defaults exact; the table production appends each finished column at the end of an opaque prefix (any number of columns); "
                "BOUNDED deciding step for alternative selection and text pre-processing: generated tables compared with the abstract schema",
    level_text="the productions that build and collect column dicts are proved per alternative (effect + frame, unbounded in the number of columns and in option order); "
               "that the LALR tables select these alternatives and the regex pre-processor are decided by a bounded run-level contract over generated schemas",
    level_note="LALR alternative selection and the regex pre-processor are observed (bounded), not proved",
)


# ---------------------------------------------------------------------------------------------------------------------
# State hygiene: frame obligations every per-function contract relies on (a contract speaks about a function of its
# arguments and of the object's own state; that composes into a statement about scripts, re-runs and several parser
# objects only if no state is shared behind the functions' backs).  They are part of EVERY property's check:
#   global-purity                 no process-global state read / written on the construct and run paths, the statement
#                                 parse goes through the object's own parser AND lexer
#   class-level-state             no class-level mutable state mutated through instances or through the class
#   no-shared-mutable-skeleton    module / class level dict-list-set displays are used read-only (never aliased, stored,
#                                 updated, or shallow-copied when they nest mutable values)
#   lexer-reset-complete          every lexer flag written while lexing is reset per statement; a reset precedes every
#                                 call site of the statement parse
#   init-before-use               every attribute written on the run path is (re)initialised in each run before use
COMMON_FRAMES = ["global-purity", "class-level-state", "no-shared-mutable-skeleton", "lexer-reset-complete", "init-before-use"]
for _pid, _cfg in PROPS.items():
    _cfg["frames"] = list(dict.fromkeys(list(_cfg.get("frames", [])) + COMMON_FRAMES))
# C04 / C03: function-level contracts of the ALTER handlers compose into a statement about the REPORTED table only if the
# handlers mutate the table's field objects in place (the reported dict was built before the ALTER and shares them)
for _pid in ("C04", "C03"):
    PROPS[_pid]["frames"].append("alter-handlers-mutate-in-place")
# what a mode's table class may touch
for _pid in ("C10", "C02", "C01", "C12"):
    PROPS[_pid]["frames"].append("mode-hooks-leave-common-fields-alone")
# the dump step receives the very object run() returns
for _pid in ("C12", "C13", "C14", "C19"):
    PROPS[_pid]["frames"].append("dump-leaves-result-alone")
