"""Per-property configuration of the checks."""

TRUSTED_BASE = [
    "pyvc symbolic interpreter (DESIGN 2.3/2.4: Python semantics assumed for the modelled subset)",
    "cvc5 1.0.3 (/usr/bin/cvc5 --strings-exp) and z3 5.1.0 (z3-solver wheel)",
    "A-PLY-LR: ply.yacc.LRParser.parse calls the bound production function with p[1..n] = semantic values, stores p[0]",
    "A-PLY-LEX: ply.lex.Lexer.token returns the first matching rule's token passed through its rule function",
    "A-PY / A-RE / A-DC: CPython 3.12, re, dataclasses behave as documented",
]
ASSUMPTIONS = [
    "ints are mathematical (exact for Python), strings are printable ASCII (Parser.__init__ escapes input to ASCII)",
    "which production alternatives the LALR tables select for a sentence is observed (bounded), not proved",
    "attribute-grammar induction over derivations (per-alternative invariants => root invariant) is stated, not machine-checked",
]
EXTRACTION_DROPS = [
    "type annotations", "docstrings (p_* docstrings are parsed for the production alternatives)",
    "logging calls (no-ops)", "calls to functions with a `modular` contract are replaced by that contract's reference",
]

NOT_APPLICABLE = {}

TECH = "contract-based deductive verification: symbolic execution of the real AST, VCs discharged by z3/cvc5, counter-models replayed on the real code"

PROPS = {
    "C13": dict(
        contracts=["c13"], bounded=True, level="proof",
        explanation="fold-form (inductive) proof of Output.group_by_type_result against the filter/flatmap specification, unbounded in the number of entities",
        level_text="Output.group_by_type_result is proved, for flat lists of any length, to produce in every bucket exactly the order-preserving filter of the flat list by kind, "
                   "the concatenated comment texts, the six base buckets always and tablespaces/databases only when non-empty (loop base, inductive step with a generic entity, exit)",
        level_note="precondition: every flat item carries exactly one marker key (monitored in the bounded runs); the induction principle of the loop rule and the "
                   "filter-is-an-order-preserving-partition lemma are part of the trusted logic; Output.format's flat-list construction is covered under C03",
        technique=TECH,
    ),
    "C01": dict(
        contracts=["lexer"], bounded=True, level="other",
        explanation="deductive: every word in a column-name position is typed ID and kept verbatim (lexer contract, all values, any nesting depth); "
                    "BOUNDED deciding step: generated tables (ordered option lists x type/size/default forms x layouts, 1-4 tables x 1-9 columns) compared with the abstract schema",
        level_text="column reproduction is decided by a bounded run-level contract over generated schemas; the token-typing part that decides name vs keyword is proved for all values",
        level_note="grammar actions for column/defcolumn are not yet under contract in this revision (bounded only); LALR alternative selection and the regex pre-processor are observed, not proved",
        technique="contract-based deductive verification of the lexer context + bounded run-time contract on DDLParser.run (generated schemas)",
    ),
    "C03": dict(
        frames=["lexer-reset-complete", "tables-append-only"], bounded=True, level="other",
        explanation="deductive (frames): every lexer flag written while lexing is reset before each statement parse, the reset precedes every parse, results accumulate by append only; "
                    "BOUNDED deciding step for the textual part: ordered pairs / triples of statement units and unsupported statements inserted at every position vs concatenation of single-statement results",
        level_text="independence of statements: per-statement reset and append-only accumulation are proved as frame obligations; line-based statement assembly (regexes) is decided by a bounded concatenation contract",
        level_note="line splitting and comment/quote regexes are outside the deductive reach (look-arounds); PLY's per-parse state reset is A-PLY-LR",
        technique="contract-based deductive verification: frame obligations (static analysis of the real ASTs) + bounded run-time contract (concatenation oracle)",
    ),
    "C06": dict(
        contracts=["c06", "lexer"], frames=["normalize-only-in-p_id"], level="proof",
        explanation="p_id: verbatim copy with the flag off, exactly one outer delimiter pair stripped with it on, in every lexer context; normalize_names is read nowhere else (frame)",
        level_text="the single id production is proved for all identifier strings and all lexer contexts to copy the token verbatim (flag off) or strip exactly one outer delimiter pair (flag on); "
                   "a frame obligation shows normalize_names is read nowhere else, so every other value is independent of the flag",
        level_note="name-position token typing is covered by the lexer contracts; quoted-identifier tokenisation (lexer regexes) and downstream code that inspects delimiter characters are outside the deductive part",
        technique=TECH,
    ),
    "C14": dict(
        frames=["init-before-use", "class-level-state", "file-path-only-under-dump"], bounded=True, level="proof",
        explanation="frame obligations over the real ASTs: every instance attribute written on the run() path is definitely assigned before use in each run (must-analysis with per-method summaries, "
                    "PLY callbacks = any t_*/p_* method), no class-level mutable state is mutated through instances, file-system calls only under `if dump`",
        level_text="static frame / definite-assignment obligations over the real source: no parser state is carried from one run() to the next, no class-level mutable state, no file access unless dump is requested",
        level_note="sound over-approximate analysis (flow-insensitive in expressions, context-insensitive across calls); hash-seed independence of PLY table construction and other processes are not covered",
        technique="contract-based deductive verification: frame / initialisation obligations decided by static analysis of the real ASTs",
    ),
    "C15": dict(
        frames=["global-purity", "class-level-state"], level="proof",
        explanation="frame obligations: construct and run paths never read PLY's process-global parser/lexer, write no module globals; the statement parse goes through self.yacc with lexer=self.lexer; "
                    "with disjoint per-object footprints any interleaving of different objects' operations is equivalent to a sequential one",
        level_text="global-purity frame obligations over the real source; the footprint-commutation argument (disjoint per-object state => interleavings equivalent to sequential runs) is stated, not machine-checked",
        level_note="PLY's own module-level state is written by lex.lex()/yacc.yacc() but never read by the library (A-PLY); CPython thread scheduling inside PLY/re is not modelled",
        technique="contract-based deductive verification: frame / global-purity obligations decided by static analysis of the real ASTs",
    ),
    "C16": dict(
        contracts=["c16"], frames=["silent-only-in-p_error"], bounded=True, level="proof",
        explanation="p_error raises DDLParserError iff not silent; t_error always raises the library's exception; run() raises SimpleDDLParserException for every unknown mode; "
                    "frame: `silent` is read only in p_error and in the exception handler of parse_statement, so both settings execute identical paths on input that does not reach an error callback",
        level_text="error callbacks proved against their contracts for all tokens and lexer contexts; frame obligation shows the silent flag cannot influence anything but error reporting",
        level_note="that supported DDL never reaches p_error depends on the LALR tables (observed by the bounded runs, not proved); ValueError from int() on a non-numeric sequence option is a known finding",
        technique=TECH,
    ),
    "C17": dict(
        contracts=["c17", "lexer"], bounded=True, level="proof",
        explanation="function-level contracts on the sequence productions (exact key, exact integer, frame on every other key)",
        level_text="every production alternative of the CREATE SEQUENCE fragment is proved, for all option values and all prior option states, "
                   "to set exactly its documented key to the exact integer / False / True and to leave every other key untouched",
        level_note="proved per function over the real AST; that the LALR tables pick these alternatives and that the lexer types the option words is covered by the lexer contracts / bounded stand-in; PLY driver trusted",
        technique=TECH,
    ),
}
